// C07: proof of work and required difficulty.
//   pow_compact  : arith_uint256::SetCompact / GetCompact on an exponent x mantissa-boundary x sign table, then random
//   pow_check    : DeriveTarget / CheckProofOfWorkImpl / CheckProofOfWork for every built-in chain, hashes aimed at target-1/target/target+1
//   pow_retarget : CalculateNextWorkRequired / GetNextWorkRequired on synthetic CBlockIndex chains of every built-in chain and
//                  PermittedDifficultyTransition(params, h+1, old, <the computed value>)
//   pow_header   : ChainstateManager::ProcessNewBlockHeaders on a regtest TestChain100Setup node with mock time:
//                  time == MTP / MTP+1 / now+7200 / now+7201, wrong nBits, hash above target
// Everything is logged as inputs+outputs; checks/C07.py + pyref/pow.py recompute with Python big integers.
#include <common/vh.h>

#include <arith_uint256.h>
#include <chain.h>
#include <consensus/validation.h>
#include <kernel/chainparams.h>
#include <pow.h>
#include <primitives/block.h>
#include <test/util/setup_common.h>
#include <uint256.h>
#include <util/time.h>
#include <validation.h>

#include <array>
#include <memory>
#include <string>
#include <vector>

namespace {

struct ChainDef {
    const char* name;
    std::unique_ptr<const CChainParams> (*make)();
};
const ChainDef CHAINS[] = {
    {"main", [] { return CChainParams::Main(); }},
    {"test", [] { return CChainParams::TestNet(); }},
    {"testnet4", [] { return CChainParams::TestNet4(); }},
    {"signet", [] { return CChainParams::SigNet(); }},
    {"regtest", [] { return CChainParams::RegTest(); }},
};
constexpr int NCHAINS = 5;
// Own copies of each chain's proof-of-work limit in compact form (used only to aim the generator; the oracle has its own table).
const uint32_t LIMIT_COMPACT[NCHAINS] = {0x1d00ffff, 0x1d00ffff, 0x1d00ffff, 0x1e0377ae, 0x207fffff};

const CChainParams& Params(int i)
{
    static std::unique_ptr<const CChainParams> p[NCHAINS];
    if (!p[i]) p[i] = CHAINS[i].make();
    return *p[i];
}

// ---- own 256-bit little-endian helpers (generator side only; not the code under test) ----
using U256 = std::array<unsigned char, 32>;
// target of a compact value with clear sign bit and no overflow; returns false when the encoding is negative/overflowing
bool OwnDecode(uint32_t nbits, U256& out)
{
    out.fill(0);
    const int size = nbits >> 24;
    const uint32_t word = nbits & 0x007fffff;
    if (word != 0 && (nbits & 0x00800000)) return false;
    for (int k = 0; k < 3; ++k) {
        const int pos = size - 3 + k; // byte position of mantissa byte k (k=0 least significant)
        const unsigned char byte = (word >> (8 * k)) & 0xff;
        if (pos < 0) continue;
        if (pos >= 32) {
            if (byte) return false;
            continue;
        }
        out[pos] = byte;
    }
    return true;
}
bool IsZero(const U256& a)
{
    for (auto b : a)
        if (b) return false;
    return true;
}
void Inc(U256& a)
{
    for (int i = 0; i < 32; ++i)
        if (++a[i] != 0) return;
}
void Dec(U256& a)
{
    for (int i = 0; i < 32; ++i)
        if (a[i]-- != 0) return;
}
int Cmp(const U256& a, const U256& b)
{
    for (int i = 31; i >= 0; --i)
        if (a[i] != b[i]) return a[i] < b[i] ? -1 : 1;
    return 0;
}
// big-endian hex without leading zeros ("0" for zero)
std::string HexBE(const unsigned char* le, size_t n = 32)
{
    static const char* d = "0123456789abcdef";
    std::string r;
    bool started = false;
    for (size_t i = n; i-- > 0;) {
        for (int half = 1; half >= 0; --half) {
            const int nib = (le[i] >> (4 * half)) & 15;
            if (!started && nib == 0) continue;
            started = true;
            r += d[nib];
        }
    }
    return started ? r : "0";
}
std::string HexArith(const arith_uint256& a)
{
    const uint256 u = ArithToUint256(a);
    return HexBE(u.begin());
}
uint256 ToUint256(const U256& a)
{
    uint256 u;
    std::memcpy(u.begin(), a.data(), 32);
    return u;
}

const uint32_t MANTISSAS[] = {0, 1, 2, 0x7f, 0x80, 0xff, 0x100, 0x101, 0x7fff, 0x8000, 0xffff, 0x10000, 0x10001, 0x12345, 0x3fffff, 0x400000,
                              0x7ffffe, 0x7fffff, 0x00ff00, 0x00ffff, 0x0377ae, 0x7fff00, 0x010000, 0x000100, 0x00ff01, 0x0100ff, 0x555555, 0x2aaaaa,
                              0x700000, 0x0000fe, 0x00fffe, 0x00fe00};
constexpr size_t N_MANT = sizeof(MANTISSAS) / sizeof(MANTISSAS[0]);
constexpr uint64_t COMPACT_TABLE = 256 * N_MANT * 2; // 16384 encodings
constexpr uint64_t COMPACT_BATCH = 256;

uint32_t RandomBits(vh::Rng& rng)
{
    switch (rng.below(4)) {
    case 0: return static_cast<uint32_t>(rng.next());
    case 1: return (static_cast<uint32_t>(rng.below(40)) << 24) | static_cast<uint32_t>(rng.below(1u << 24));
    case 2: return (static_cast<uint32_t>(28 + rng.below(10)) << 24) | (rng.coin() ? 0x800000u : 0) | MANTISSAS[rng.below(N_MANT)];
    default: return (static_cast<uint32_t>(rng.below(256)) << 24) | static_cast<uint32_t>(rng.below(1u << 24));
    }
}

} // namespace

// case c = one batch of 256 encodings (cases 0..63 are the table, the rest random) + 64 random 256-bit values to encode
VH_CMD(pow_compact)
{
    for (uint64_t c = args.from; c < args.to; ++c) {
        vh::set_case(c);
        vh::Rng rng(args.seed, c);
        std::string dec = "[";
        for (uint64_t i = 0; i < COMPACT_BATCH; ++i) {
            uint32_t nbits;
            const uint64_t row = c * COMPACT_BATCH + i;
            if (row < COMPACT_TABLE) {
                const uint32_t exp = row / (N_MANT * 2);
                const uint32_t rest = row % (N_MANT * 2);
                nbits = (exp << 24) | ((rest & 1) ? 0x800000u : 0) | MANTISSAS[rest / 2];
            } else {
                nbits = RandomBits(rng);
            }
            bool neg = false, ovf = false;
            arith_uint256 v;
            v.SetCompact(nbits, &neg, &ovf);
            arith_uint256 v2;
            v2.SetCompact(nbits); // null flag pointers
            if (v2 != v) vh::log().violation("setcompact-flag-pointers", "SetCompact result depends on whether flag pointers are passed", vh::J().u("nbits", nbits));
            const uint32_t g0 = v.GetCompact(false), g1 = v.GetCompact(true);
            if (i) dec += ",";
            dec += "[" + std::to_string(nbits) + ",\"" + HexArith(v) + "\"," + std::to_string((neg ? 1 : 0) | (ovf ? 2 : 0)) + "," + std::to_string(g0) + "," + std::to_string(g1) + "]";
        }
        dec += "]";
        std::string enc = "[";
        for (int i = 0; i < 64; ++i) {
            U256 a;
            rng.fill(a.data(), 32);
            // random bit length 0..256, sometimes byte-aligned patterns (0x80.., 0x7f.., 0xff..)
            const int bits = static_cast<int>(rng.below(257));
            for (int b = bits; b < 256; ++b) a[b / 8] &= static_cast<unsigned char>(~(1u << (b % 8)));
            if (bits > 0 && rng.chance(3, 4)) a[(bits - 1) / 8] |= static_cast<unsigned char>(1u << ((bits - 1) % 8));
            if (rng.chance(1, 4)) {
                const int top = bits > 0 ? (bits - 1) / 8 : 0;
                static const unsigned char pat[] = {0x80, 0x7f, 0xff, 0x01, 0x00};
                a[top] = pat[rng.below(4)];
                if (top >= 1) a[top - 1] = pat[rng.below(5)];
                if (top >= 2) a[top - 2] = pat[rng.below(5)];
            }
            const arith_uint256 v = UintToArith256(ToUint256(a));
            const uint32_t g0 = v.GetCompact(false), g1 = v.GetCompact(true);
            arith_uint256 back;
            bool neg = false, ovf = false;
            back.SetCompact(g0, &neg, &ovf);
            if (i) enc += ",";
            enc += "[\"" + HexBE(a.data()) + "\"," + std::to_string(g0) + "," + std::to_string(g1) + ",\"" + HexArith(back) + "\"," + std::to_string((neg ? 1 : 0) | (ovf ? 2 : 0)) + "]";
        }
        enc += "]";
        vh::log().line("{\"case\":" + std::to_string(c) + ",\"dec\":" + dec + ",\"enc\":" + enc + "}");
    }
    return 0;
}

// case c = batch of 128 (chain, nBits, hash) triples
VH_CMD(pow_check)
{
    for (uint64_t c = args.from; c < args.to; ++c) {
        vh::set_case(c);
        vh::Rng rng(args.seed, c);
        std::string items = "[";
        for (int i = 0; i < 128; ++i) {
            const int ch = static_cast<int>(rng.below(NCHAINS));
            const Consensus::Params& cp = Params(ch).GetConsensus();
            const uint32_t lim = LIMIT_COMPACT[ch];
            uint32_t nbits;
            switch (rng.below(12)) {
            case 0: nbits = lim; break;
            case 1: nbits = lim + 1; break;
            case 2: nbits = lim - 1; break;
            case 3: nbits = lim + (1u << 24); break;                              // one byte larger
            case 4: nbits = lim - (1u << 24); break;
            case 5: nbits = (lim & 0xff000000u) | static_cast<uint32_t>(rng.below(1u << 23)); break; // same exponent, any mantissa
            case 6: nbits = lim | 0x00800000u; break;                            // negative
            case 7: nbits = (static_cast<uint32_t>(rng.below(6)) << 24) | static_cast<uint32_t>(rng.below(1u << 23)); break; // tiny / zero targets
            case 8: nbits = (static_cast<uint32_t>(30 + rng.below(8)) << 24) | MANTISSAS[rng.below(N_MANT)]; break;           // around overflow
            case 9: nbits = RandomBits(rng); break;
            default: {
                // valid target not above the limit: smaller exponent, any positive mantissa
                const uint32_t e = 1 + static_cast<uint32_t>(rng.below(lim >> 24));
                nbits = (e << 24) | static_cast<uint32_t>(1 + rng.below((1u << 23) - 1));
                if (e == (lim >> 24) && (nbits & 0x7fffff) > (lim & 0x7fffff)) nbits = lim - static_cast<uint32_t>(rng.below(16));
            }
            }
            U256 target, h;
            const bool dec_ok = OwnDecode(nbits, target);
            const uint64_t hk = rng.below(10);
            if (dec_ok && hk < 6) {
                h = target;
                switch (hk) {
                case 0: break;                                   // hash == target
                case 1: Inc(h); break;                           // target + 1
                case 2: if (!IsZero(h)) Dec(h); break;           // target - 1
                case 3: {                                        // random below target (clear high bytes, keep <=)
                    U256 r;
                    rng.fill(r.data(), 32);
                    int top = 31;
                    while (top > 0 && target[top] == 0) --top;
                    for (int k = top; k < 32; ++k) r[k] = 0;
                    if (top >= 0) r[top] = target[top] ? static_cast<unsigned char>(rng.below(target[top])) : 0;
                    h = r;
                    if (Cmp(h, target) > 0) h = target;
                    break;
                }
                case 4: {                                        // just above, in a higher byte
                    int top = 31;
                    while (top > 0 && target[top] == 0) --top;
                    if (top < 31) h[top + 1] = 1; else Inc(h);
                    break;
                }
                default: h.fill(0); break;                       // zero hash
                }
            } else if (hk == 6) {
                h.fill(0xff);
            } else if (hk == 7) {
                h.fill(0);
                h[rng.below(32)] = static_cast<unsigned char>(1u << rng.below(8));
            } else {
                rng.fill(h.data(), 32);
                const int zero_from = static_cast<int>(rng.below(33));
                for (int k = zero_from; k < 32; ++k) h[k] = 0;
            }
            const uint256 hash = ToUint256(h);
            const bool r_impl = CheckProofOfWorkImpl(hash, nbits, cp);
            const bool r_wrap = CheckProofOfWork(hash, nbits, cp);
            const auto derived = DeriveTarget(nbits, cp.powLimit);
            if (i) items += ",";
            items += "[" + std::to_string(ch) + "," + std::to_string(nbits) + ",\"" + HexBE(h.data()) + "\"," + std::to_string((r_impl ? 1 : 0) | (r_wrap ? 2 : 0)) + "," +
                     (derived ? "\"" + HexArith(*derived) + "\"" : std::string("null")) + "]";
        }
        items += "]";
        vh::log().line("{\"case\":" + std::to_string(c) + ",\"pow\":" + items + "}");
    }
    return 0;
}

namespace {
// A linear synthetic chain with skip pointers; item generators overwrite nBits / nTime of the blocks they depend on.
struct SynthChain {
    std::vector<std::unique_ptr<CBlockIndex>> blocks;
    explicit SynthChain(int n)
    {
        blocks.reserve(n);
        for (int i = 0; i < n; ++i) {
            auto b = std::make_unique<CBlockIndex>();
            b->nHeight = i;
            b->pprev = i ? blocks[i - 1].get() : nullptr;
            b->BuildSkip();
            b->nBits = 0x1b0404cb;
            b->nTime = 1300000000 + 600 * i;
            blocks.push_back(std::move(b));
        }
    }
    CBlockIndex& at(int h) { return *blocks[h]; }
};

// a positive target <= the chain's limit, in compact form
uint32_t InDomainBits(vh::Rng& rng, uint32_t lim)
{
    for (;;) {
        uint32_t nbits;
        switch (rng.below(8)) {
        case 0: nbits = lim; break;
        case 1: nbits = lim - 1 - static_cast<uint32_t>(rng.below(3)); break;
        case 2: nbits = ((lim >> 24) << 24) | static_cast<uint32_t>(1 + rng.below(lim & 0x7fffff)); break;
        case 3: nbits = (static_cast<uint32_t>(1 + rng.below(6)) << 24) | static_cast<uint32_t>(rng.below(1u << 23)); break; // tiny targets
        case 4: nbits = (static_cast<uint32_t>(1 + rng.below(lim >> 24)) << 24) | MANTISSAS[rng.below(N_MANT)]; break;
        default: {
            const uint32_t e = 1 + static_cast<uint32_t>(rng.below(lim >> 24));
            nbits = (e << 24) | static_cast<uint32_t>(rng.below(1u << 23));
        }
        }
        U256 t, l;
        if (!OwnDecode(nbits, t) || IsZero(t)) continue;
        OwnDecode(lim, l);
        if (Cmp(t, l) > 0) continue;
        return nbits;
    }
}
} // namespace

// case c: chain = c % 5, batch of 200 items. Item = [kind, h, last_bits, last_time, first_time, first_bits, hdr_time, k, real_bits, calc|null, gnwr|null, permitted]
VH_CMD(pow_retarget)
{
    static std::unique_ptr<SynthChain> chains[NCHAINS];
    for (uint64_t c = args.from; c < args.to; ++c) {
        vh::set_case(c);
        vh::Rng rng(args.seed, c);
        const int ch = static_cast<int>(c % NCHAINS);
        const Consensus::Params& cp = Params(ch).GetConsensus();
        const int64_t interval = cp.DifficultyAdjustmentInterval();
        const int64_t T = cp.nPowTargetTimespan;
        const int N = static_cast<int>(3 * interval + 7);
        if (!chains[ch]) chains[ch] = std::make_unique<SynthChain>(N);
        SynthChain& sc = *chains[ch];
        const uint32_t lim = LIMIT_COMPACT[ch];
        std::string items = "[";
        for (int i = 0; i < 200; ++i) {
            const int kind = rng.chance(1, 3) ? 0 : 1;
            int h;
            if (kind == 0 || rng.chance(2, 5)) {
                h = static_cast<int>(interval * (1 + rng.below(3)) - 1); // last block of a period
            } else {
                switch (rng.below(5)) {
                case 0: h = static_cast<int>(rng.below(5)); break;                                          // next to genesis
                case 1: h = static_cast<int>(interval * (1 + rng.below(3))) + static_cast<int>(rng.below(4)); break; // just after a boundary
                case 2: h = static_cast<int>(interval * (1 + rng.below(3))) - 2 - static_cast<int>(rng.below(3)); break; // just before
                default: h = static_cast<int>(rng.below(N - 1));
                }
            }
            if (h >= N) h = N - 1;
            CBlockIndex& last = sc.at(h);
            const uint32_t last_bits = (kind == 1 && rng.chance(1, 3)) ? lim : InDomainBits(rng, lim);
            last.nBits = last_bits;
            // last block time: anywhere in uint32, often mid-range
            uint32_t last_time;
            switch (rng.below(6)) {
            case 0: last_time = 0; break;
            case 1: last_time = 0xffffffffu; break;
            case 2: last_time = static_cast<uint32_t>(rng.next()); break;
            default: last_time = 1231006505u + static_cast<uint32_t>(rng.below(1500000000u));
            }
            last.nTime = last_time;
            // timespan aimed at the clamps: T/4 and 4T (+-1), T, negative, zero, huge
            int64_t span;
            switch (rng.below(12)) {
            case 0: span = T / 4 - 1; break;
            case 1: span = T / 4; break;
            case 2: span = T / 4 + 1; break;
            case 3: span = T * 4 - 1; break;
            case 4: span = T * 4; break;
            case 5: span = T * 4 + 1; break;
            case 6: span = T + rng.range(-2, 2); break;
            case 7: span = -static_cast<int64_t>(rng.below(100000)); break;
            case 8: span = rng.range(0, 8 * T); break;
            case 9: span = rng.range(T / 4 - 1000, T / 4 + 1000); break;
            case 10: span = rng.range(4 * T - 1000, 4 * T + 1000); break;
            default: span = rng.range(-(int64_t{1} << 33), int64_t{1} << 33); break;
            }
            int64_t first_time = static_cast<int64_t>(last_time) - span;
            uint32_t first_bits = 0, hdr_time = 0, real_bits = 0;
            int k = 0;
            std::string calc = "null", gnwr = "null";
            uint32_t computed = 0;
            bool have = false;
            const int hfirst = h - static_cast<int>(interval - 1);
            if (kind == 0) {
                // direct call: nFirstBlockTime is a free int64 (kept within +-2^40 so that last - first cannot overflow int64)
                if (rng.chance(1, 8)) first_time = rng.range(-(int64_t{1} << 40), int64_t{1} << 40);
                first_bits = rng.chance(1, 2) ? last_bits : InDomainBits(rng, lim);
                sc.at(hfirst).nBits = first_bits;
                sc.at(hfirst).nTime = static_cast<uint32_t>(first_time); // not used by the direct call
                computed = CalculateNextWorkRequired(&last, first_time, cp);
                calc = std::to_string(computed);
                have = true;
            } else {
                CBlockHeader hdr;
                // header time relative to the last block: around the 2*spacing boundary
                int64_t ht;
                switch (rng.below(6)) {
                case 0: ht = static_cast<int64_t>(last_time) + 2 * cp.nPowTargetSpacing; break;
                case 1: ht = static_cast<int64_t>(last_time) + 2 * cp.nPowTargetSpacing + 1; break;
                case 2: ht = static_cast<int64_t>(last_time) + 2 * cp.nPowTargetSpacing - 1; break;
                case 3: ht = static_cast<int64_t>(last_time) - static_cast<int64_t>(rng.below(10000)); break;
                case 4: ht = static_cast<int64_t>(last_time) + static_cast<int64_t>(rng.below(5000)); break;
                default: ht = static_cast<int64_t>(rng.next() & 0xffffffffu);
                }
                if (ht < 0) ht = 0;
                if (ht > 0xffffffffLL) ht = 0xffffffffLL;
                hdr_time = static_cast<uint32_t>(ht);
                hdr.nTime = hdr_time;
                if ((h + 1) % interval == 0) {
                    // retarget: the first block of the period supplies the time (and, under BIP94, the base target)
                    if (first_time < 0) first_time = 0;
                    if (first_time > 0xffffffffLL) first_time = 0xffffffffLL;
                    first_bits = rng.chance(1, 2) ? last_bits : InDomainBits(rng, lim);
                    sc.at(hfirst).nTime = static_cast<uint32_t>(first_time);
                    if (hfirst != h) sc.at(hfirst).nBits = first_bits; else first_bits = last_bits;
                } else {
                    first_time = 0;
                    // walk-back pattern for the min-difficulty rule: k blocks below h carry the limit, the next one a real target
                    static const int ks[] = {0, 0, 1, 2, 3, 5, 10, 30};
                    k = ks[rng.below(8)];
                    if (rng.chance(1, 10)) k = static_cast<int>(rng.below(2 * interval > 60 ? 60 : 2 * interval));
                    do {
                        real_bits = InDomainBits(rng, lim);
                    } while (real_bits == lim);
                    for (int j = 1; j <= k && h - j >= 0; ++j) sc.at(h - j).nBits = lim;
                    if (h - k - 1 >= 0) sc.at(h - k - 1).nBits = real_bits;
                }
                computed = GetNextWorkRequired(&last, &hdr, cp);
                gnwr = std::to_string(computed);
                have = true;
            }
            const bool permitted = have ? PermittedDifficultyTransition(cp, static_cast<int64_t>(h) + 1, last_bits, computed) : true;
            if (i) items += ",";
            items += "[" + std::to_string(kind) + "," + std::to_string(h) + "," + std::to_string(last_bits) + "," + std::to_string(last_time) + "," + std::to_string(first_time) + "," +
                     std::to_string(first_bits) + "," + std::to_string(hdr_time) + "," + std::to_string(k) + "," + std::to_string(real_bits) + "," + calc + "," + gnwr + "," + (permitted ? "1" : "0") + "]";
        }
        items += "]";
        vh::log().line("{\"case\":" + std::to_string(c) + ",\"chain\":" + std::to_string(ch) + ",\"rt\":" + items + "}");
    }
    return 0;
}

namespace {
bool OwnPowOk(const uint256& hash, uint32_t nbits)
{
    U256 t, h;
    if (!OwnDecode(nbits, t) || IsZero(t)) return false;
    std::memcpy(h.data(), hash.begin(), 32);
    return Cmp(h, t) <= 0;
}
// search a nonce so that the header's hash is (want_ok) at most / (!want_ok) above the target of its own nBits
bool Mine(CBlockHeader& hdr, bool want_ok, uint32_t max_tries = 2000000)
{
    for (uint32_t i = 0; i < max_tries; ++i, ++hdr.nNonce)
        if (OwnPowOk(hdr.GetHash(), hdr.nBits) == want_ok) return true;
    return false;
}
} // namespace

// case c = one fresh regtest node (TestChain100Setup); `steps` header-tree extensions, each with boundary candidates.
VH_CMD(pow_header)
{
    const int steps = static_cast<int>(args.geti("steps", 24));
    for (uint64_t c = args.from; c < args.to; ++c) {
        vh::set_case(c);
        vh::Rng rng(args.seed, c);
        TestChain100Setup setup{ChainType::REGTEST};
        ChainstateManager& chainman = *setup.m_node.chainman;
        const CBlockIndex* tip = WITH_LOCK(::cs_main, return chainman.ActiveChain().Tip());
        uint64_t serial = 0;
        for (int s = 0; s < steps; ++s) {
            // previous 11 times (own walk, newest first) for the oracle
            std::vector<int64_t> prev_times;
            {
                const CBlockIndex* p = tip;
                for (int i = 0; i < 11 && p; ++i, p = p->pprev) prev_times.push_back(p->GetBlockTime());
            }
            std::vector<int64_t> sorted = prev_times;
            std::sort(sorted.begin(), sorted.end());
            const int64_t mtp = sorted[sorted.size() / 2];
            // mock "now": around the tip time, sometimes far ahead or behind
            int64_t now;
            switch (rng.below(4)) {
            case 0: now = mtp - 7200 + rng.range(-3, 3); break; // so that MTP+1 is right at the future limit
            case 1: now = tip->GetBlockTime() + rng.range(0, 100000); break;
            case 2: now = mtp + rng.range(-20000, 20000); break;
            default: now = tip->GetBlockTime() + rng.range(-3000, 3000);
            }
            SetMockTime(std::chrono::seconds{now});
            struct Cand {
                const char* cls;
                int64_t time;
                uint32_t bits;
                bool pow_ok;
            };
            std::vector<Cand> cands = {
                {"t_eq_mtp", mtp, 0x207fffff, true},
                {"t_eq_mtp_plus1", mtp + 1, 0x207fffff, true},
                {"t_eq_mtp_minus", mtp - static_cast<int64_t>(1 + rng.below(1000)), 0x207fffff, true},
                {"t_eq_now_plus_2h", now + 7200, 0x207fffff, true},
                {"t_eq_now_plus_2h_1", now + 7201, 0x207fffff, true},
                {"t_far_future", now + 7200 + static_cast<int64_t>(2 + rng.below(100000)), 0x207fffff, true},
                {"t_random", rng.range(mtp - 50, now + 7300), 0x207fffff, true},
                {"bits_harder", std::max(mtp + 1, std::min(now, now + 7200)), rng.coin() ? 0x207ffffeu : (rng.coin() ? 0x1f7fffffu : 0x2000ffffu), true},
                {"bits_easier_invalid", mtp + 1, 0x2100ffffu, true}, // above the limit: cannot have valid pow per CheckProofOfWork
                {"high_hash", mtp + 1, 0x207fffff, false},
            };
            rng.shuffle(cands);
            std::vector<const CBlockIndex*> accepted;
            for (const Cand& cd : cands) {
                if (cd.time < 0 || cd.time > 0xffffffffLL) continue;
                CBlockHeader hdr;
                hdr.nVersion = 0x20000000;
                hdr.hashPrevBlock = tip->GetBlockHash();
                rng.fill(hdr.hashMerkleRoot.begin(), 32);
                hdr.nTime = static_cast<uint32_t>(cd.time);
                hdr.nBits = cd.bits;
                hdr.nNonce = static_cast<uint32_t>(rng.next());
                U256 t;
                const bool minable = OwnDecode(cd.bits, t) && !IsZero(t);
                if (cd.pow_ok && minable) {
                    if (!Mine(hdr, true)) continue;
                } else if (!cd.pow_ok) {
                    if (!Mine(hdr, false)) continue;
                }
                BlockValidationState state;
                const CBlockIndex* pindex = nullptr;
                const std::vector<CBlockHeader> hv{hdr};
                const bool ok = chainman.ProcessNewBlockHeaders(hv, /*min_pow_checked=*/true, state, &pindex);
                const CBlockIndex* found = WITH_LOCK(::cs_main, return chainman.m_blockman.LookupBlockIndex(hdr.GetHash()));
                std::string times = "[";
                for (size_t i = 0; i < prev_times.size(); ++i) times += (i ? "," : "") + std::to_string(prev_times[i]);
                times += "]";
                vh::log().rec(vh::J().u("case", c).u("step", s).u("serial", serial++).str("cls", cd.cls).i("ver", hdr.nVersion).str("prev", vh::Hex(hdr.hashPrevBlock.begin(), 32))
                                  .str("merkle", vh::Hex(hdr.hashMerkleRoot.begin(), 32)).u("time", hdr.nTime).u("bits", hdr.nBits).u("nonce", hdr.nNonce)
                                  .str("hash", vh::Hex(hdr.GetHash().begin(), 32)).i("now", now).i("height", tip->nHeight + 1).raw("prev_times", times)
                                  .b("ok", ok).b("valid", state.IsValid()).b("indexed", found != nullptr).str("r", state.GetRejectReason()));
                if (ok && found) accepted.push_back(found);
            }
            if (accepted.empty()) break;
            tip = accepted[rng.below(accepted.size())];
        }
    }
    return 0;
}
