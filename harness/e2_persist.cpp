// E2 + twin, fault enumeration on the file (DESIGN §4 C55): DumpMempool / LoadMempool on a real file under $TMPDIR.
//
// One case = one dump:
//   node A   regtest node with a mempool (expiry 2..24 h; one in four with a sub-megabyte size limit), base chain, 70..130 steps
//            (single submissions of the general E2 mix, packages, prioritisation of pool and non-pool txids, mock-time jumps,
//            unbroadcast marks). Snapshot S_A, DumpMempool -> file F. The file is read back with an own parser (own
//            de-obfuscation: byte p is XORed with key[p % 8]); its content must be exactly S_A (every entry once, with its entry
//            time and fee delta; remaining mapDeltas; unbroadcast set), in a topological order.
//   trials   trial 0 = F itself; then truncations of F at sampled positions and single-bit flips at random positions.
//   node B   (under test) fresh node on the same chain, mock time = load time (dump time + advance, often exactly at an entry's
//            expiry boundary). Per trial: pool emptied, optional pre-existing entries submitted (they spend coins of a second
//            key ring the generator of A cannot touch), LoadMempool(file of the trial) -> return value + snapshot.
//   node C   (oracle) fresh node on the same chain and time. Per trial: same reset + pre-existing entries, then the trial's
//            file is parsed by the own parser and every parsed record is handled in file order: PrioritiseTransaction(delta)
//            when non-zero, and when its time is within expiry one normal ChainstateManager::ProcessTransaction; then the parsed
//            mapDeltas; then unbroadcast marks for parsed txids that are in the pool. Expected return value = the own parser
//            reached the end of the unbroadcast set.
// Oracle per trial: return value as expected (every strict prefix => false); pool of B == pool of C by wtxid, in the same
// acceptance order (entry sequence); every loaded entry has the saved time and saved delta; mapDeltas and unbroadcast sets equal;
// pre-existing entries all still there. For trial 0 additionally against S_A directly (independent of the own parser): entry
// times, deltas of loaded and of non-pool txids, unbroadcast = S_A.unbroadcast ∩ loaded.
#include <common/vh.h>
#include <sim_chain.h>
#include <sim_mempool.h>

#include <consensus/merkle.h>
#include <node/mempool_persist.h>
#include <streams.h>
#include <sync.h>
#include <txmempool.h>
#include <util/fs.h>
#include <validation.h>

#include <algorithm>
#include <cstdio>
#include <cstdlib>
#include <fstream>
#include <map>
#include <set>
#include <string>
#include <vector>

namespace {
using namespace sim;

using Bytes = std::vector<unsigned char>;

Bytes ReadFile(const std::string& p)
{
    std::ifstream f(p, std::ios::binary);
    return Bytes((std::istreambuf_iterator<char>(f)), std::istreambuf_iterator<char>());
}
void WriteFile(const std::string& p, const Bytes& b)
{
    std::ofstream f(p, std::ios::binary | std::ios::trunc);
    f.write((const char*)b.data(), (std::streamsize)b.size());
}

// ---------------------------------------------------------------------------------------------------------
// Own parser of the mempool file.
struct Item {
    CTransactionRef tx;
    int64_t time{0};
    int64_t delta{0};
};
struct Parsed {
    bool header_ok{false};
    bool complete{false}; //!< everything up to the end of the unbroadcast set was read
    uint64_t version{0};
    uint64_t announced{0};
    std::vector<Item> items;
    bool have_deltas{false}, have_unb{false};
    std::map<Txid, CAmount> deltas;
    std::set<Txid> unb;
    std::string error;
};
Parsed ParseMempoolFile(const Bytes& raw)
{
    Parsed p;
    try {
        DataStream hdr{std::span<const unsigned char>(raw.data(), raw.size())};
        hdr >> p.version;
        unsigned char key[8] = {0, 0, 0, 0, 0, 0, 0, 0};
        if (p.version == 2) {
            std::vector<unsigned char> k;
            hdr >> k;
            if (k.size() != 8) {
                p.error = "key size";
                return p;
            }
            std::copy(k.begin(), k.end(), key);
        } else if (p.version != 1) {
            p.error = "version";
            return p;
        }
        p.header_ok = true;
        const size_t off = raw.size() - hdr.size();
        Bytes plain(raw.begin() + (std::ptrdiff_t)off, raw.end());
        for (size_t i = 0; i < plain.size(); ++i) plain[i] ^= key[(off + i) % 8];
        DataStream ds{std::span<const unsigned char>(plain.data(), plain.size())};
        ds >> p.announced;
        for (uint64_t i = 0; i < p.announced; ++i) {
            Item it;
            ds >> TX_WITH_WITNESS(it.tx);
            ds >> it.time;
            ds >> it.delta;
            p.items.push_back(std::move(it));
        }
        ds >> p.deltas;
        p.have_deltas = true;
        ds >> p.unb;
        p.have_unb = true;
        p.complete = true;
    } catch (const std::exception& e) {
        p.error = e.what();
    }
    return p;
}

// ---------------------------------------------------------------------------------------------------------
struct LoadedState {
    bool ret{false};
    PoolSnap snap;
    std::vector<Wtxid> order; //!< wtxids by entry sequence
    size_t pre_missing{0};
    size_t nsubmitted{0}, naccepted{0};
};

void ResetPool(SimNode& node)
{
    CTxMemPool& pool = *node.Mempool();
    {
        LOCK(::cs_main);
        LOCK(pool.cs);
        std::vector<CTransactionRef> txs;
        for (auto it = pool.mapTx.begin(); it != pool.mapTx.end(); ++it) txs.push_back(it->GetSharedTx());
        for (const auto& tx : txs) {
            if (pool.exists(tx->GetHash())) pool.removeRecursive(*tx, MemPoolRemovalReason::CONFLICT);
        }
        std::vector<Txid> ds;
        for (const auto& [t, d] : pool.mapDeltas) ds.push_back(t);
        for (const auto& t : ds) pool.ClearPrioritisation(t);
        for (const auto& t : pool.GetUnbroadcastTxs()) pool.RemoveUnbroadcastTx(t, true);
        if (pool.size() != 0 || !pool.mapDeltas.empty() || !pool.GetUnbroadcastTxs().empty()) throw std::runtime_error("persist: ResetPool left something behind");
    }
    node.Sync();
}

std::vector<Wtxid> OrderBySeq(const PoolSnap& s)
{
    std::vector<std::pair<uint64_t, Wtxid>> v;
    for (const auto& [t, e] : s.entries) v.emplace_back(e.seq, e.tx->GetWitnessHash());
    std::sort(v.begin(), v.end());
    std::vector<Wtxid> r;
    for (const auto& [q, w] : v) r.push_back(w);
    return r;
}

void ReplayChain(SimNode& node, const std::vector<std::shared_ptr<const CBlock>>& chain, int64_t t_blocks)
{
    node.SetTime(t_blocks);
    for (const auto& b : chain) node.SubmitBlock(b, true, true);
    node.Sync();
    if (node.TipHash() != chain.back()->GetHash()) throw std::runtime_error("persist: twin node did not reach the chain tip");
}

struct Trial {
    std::string kind; //!< full | trunc | flip
    size_t pos{0};
    int bit{0};
    std::string path;
};

} // namespace

VH_CMD(persist)
{
    const int ntrunc = (int)args.geti("trunc", 10), nflip = (int)args.geti("flips", 8);
    const int steps_min = (int)args.geti("steps_min", 70), steps_max = (int)args.geti("steps_max", 130);
    const char* tmpdir = std::getenv("TMPDIR");
    if (!tmpdir || !*tmpdir) {
        std::fprintf(stderr, "persist: TMPDIR not set\n");
        return 2;
    }
    for (uint64_t c = args.from; c < args.to; ++c) {
        vh::set_case(c);
        vh::Rng rng(args.seed, c);
        NodeOpts nopts;
        nopts.worker_threads = 0;
        nopts.prevoutfetch_threads = 0;
        nopts.check_block_index = 0;
        MpOpts mopts;
        static const int64_t ex[] = {2 * 3600, 6 * 3600, 24 * 3600};
        mopts.expiry_s = ex[rng.below(3)];
        const bool with_pre = rng.chance(1, 3);
        if (!with_pre && rng.chance(1, 3)) {
            mopts.max_size_bytes = 150000 + (int64_t)rng.below(400000);
            mopts.cluster_size_vbytes = 3000;
            mopts.cluster_count = 8;
        }
        const std::string base_path = std::string(tmpdir) + "/vh_persist_" + std::to_string(c) + ".dat";
        uint64_t nviol = 0;
        auto viol = [&](const char* key, const std::string& msg, const vh::J& d) {
            if (++nviol > 8) return;
            vh::log().violation(key, msg, vh::J().raw("d", d.done()).raw("mp_opts", mopts.Describe()).b("with_pre", with_pre));
        };

        std::vector<std::shared_ptr<const CBlock>> chain;
        std::vector<CTransactionRef> pre_txs;
        PoolSnap SA;
        int64_t t_dump = 0;
        // =========================================================== node A: history + dump
        {
            SimNode node(nopts);
            InstallMempool(node, mopts);
            RefLedger led(RefParams::FromNodeOpts(nopts));
            KeyRing keys(rng, 6);
            KeyRing keys2(rng, 2);
            BlockBuilder bb(led, keys);
            MpSim mp(node, led, keys, rng);
            int64_t clock = nopts.start_time;
            auto sync_clock = [&] {
                if (node.Time() < clock + 10) node.SetTime(clock + 10);
            };
            auto tip = [&] { return led.Find(node.TipHash()); };
            auto deliver = [&](const std::shared_ptr<CBlock>& blk) {
                RefBlock* rb = led.Add(blk, BlockMeta{});
                sync_clock();
                Deliver(node, led, rb, DeliverOpts{});
                if (!rb->SelfValid() || node.TipHash() != rb->hash) throw std::runtime_error("persist: base block refused");
            };
            const int base = 101 + 20 + (int)rng.below(25);
            for (int i = 0; i < base; ++i) {
                RefBlock* t = tip();
                BlockSpec spec = mp.gen.BaseBlockSpec(t, (uint32_t)std::max<int64_t>(t->mtp + 1, clock));
                if (i < 3) {
                    spec.cb.spk = keys2.Spk(OutType::P2WPKH, (size_t)i);
                    spec.cb.split = 2;
                }
                clock += 30 + (int64_t)rng.below(60);
                deliver(bb.Build(t, {}, spec));
            }
            mp.Absorb();
            AbsorbEvents(node, led, nullptr);
            // pre-existing entries for the twins: spend the second key ring's coins (never offered to A's generator)
            if (with_pre) {
                std::vector<Spendable> coins2;
                for (const auto& [op, coin] : led.Utxo(tip())) {
                    bool mine = false;
                    for (size_t k = 0; k < 2; ++k) mine = mine || coin.spk == keys2.Spk(OutType::P2WPKH, k);
                    if (!mine || tip()->height + 1 - coin.height < 100) continue;
                    Spendable s;
                    s.op = op;
                    s.out = CTxOut(coin.value, coin.spk);
                    s.height = coin.height;
                    s.coinbase = coin.coinbase;
                    coins2.push_back(s);
                }
                const size_t npre = std::min<size_t>(coins2.size(), 2 + rng.below(3));
                for (size_t i = 0; i < npre; ++i) {
                    CMutableTransaction m = MakeTx(keys2, {coins2[i]}, {CTxOut(coins2[i].out.nValue - 30000, keys2.Spk(OutType::P2WPKH, i % 2))});
                    pre_txs.push_back(MakeTransactionRef(m));
                    if (i == 0) {
                        Spendable s;
                        s.op = COutPoint(pre_txs.back()->GetHash(), 0);
                        s.out = pre_txs.back()->vout[0];
                        CMutableTransaction ch = MakeTx(keys2, {s}, {CTxOut(s.out.nValue - 20000, keys2.Spk(OutType::P2WPKH, 1))});
                        pre_txs.push_back(MakeTransactionRef(ch));
                    }
                }
            }
            // history
            static const std::vector<uint32_t> W_TX = {30, 22, 10, 6, 6, 4, 3, 1, 1, 1, 5, 3, 2, 3, 3, 4, 2, 2, 2, 2, 1, 2, 3, 2, 1, 1, 1};
            static const std::vector<uint32_t> W_PKG = {16, 10, 8, 2, 8, 2, 10, 1, 2, 1, 0, 0, 1, 2, 5, 4, 6};
            const int nsteps = (int)rng.range(steps_min, steps_max);
            const int64_t jump_unit = std::max<int64_t>(1, mopts.expiry_s / 50);
            for (int s = 0; s < nsteps; ++s) {
                sync_clock();
                const PoolSnap snap = SnapPool(node, false, true);
                const uint64_t a = rng.below(100);
                if (a < 55 || snap.entries.size() < 6) {
                    GenTx g = mp.gen.MakeRandom(W_TX, snap);
                    if (g.tx) SubmitTx(node, g.tx, false);
                } else if (a < 67) {
                    GenPkg gp = mp.gen.MakeRandomPackage(W_PKG, snap);
                    if (!gp.txs.empty()) SubmitPackage(node, gp.txs, false);
                } else if (a < 79) {
                    Txid target;
                    if (!snap.entries.empty() && rng.chance(2, 3)) {
                        auto it = snap.entries.begin();
                        std::advance(it, rng.below(snap.entries.size()));
                        target = it->first;
                    } else {
                        target = Txid::FromUint256(uint256(rng.bytes(32)));
                    }
                    static const int64_t ds[] = {1, -1, 1000, -1000, 100000, -3000, 50000000, -50000000};
                    Prioritise(node, target, ds[rng.below(8)]);
                } else if (a < 91) {
                    clock += (int64_t)rng.below((uint64_t)jump_unit * 2 + 1);
                } else if (!snap.entries.empty()) {
                    auto it = snap.entries.begin();
                    std::advance(it, rng.below(snap.entries.size()));
                    node.Mempool()->AddUnbroadcastTx(it->first);
                }
                mp.Absorb();
            }
            // make sure the dump has what the evidence rule asks for
            {
                PoolSnap snap = SnapPool(node, false);
                if (!snap.entries.empty()) {
                    auto it = snap.entries.begin();
                    std::advance(it, rng.below(snap.entries.size()));
                    node.Mempool()->AddUnbroadcastTx(it->first);
                    auto it2 = snap.entries.begin();
                    std::advance(it2, rng.below(snap.entries.size()));
                    Prioritise(node, it2->first, 1 + (CAmount)rng.below(5000));
                }
                Prioritise(node, Txid::FromUint256(uint256(rng.bytes(32))), 12345);
            }
            sync_clock();
            mp.Absorb();
            SA = SnapPool(node, false);
            t_dump = node.Time();
            if (!node::DumpMempool(*node.Mempool(), fs::PathFromString(base_path))) {
                viol("persist-dump-failed", "DumpMempool returned false on a writable path", vh::J().str("path", base_path));
                continue;
            }
            for (RefBlock* b = tip(); b && b->parent; b = b->parent) chain.push_back(b->block);
            std::reverse(chain.begin(), chain.end());
        }
        const Bytes raw = ReadFile(base_path);
        const Parsed good = ParseMempoolFile(raw);
        // ---- the file says exactly what the pool held
        {
            bool ok = good.complete && good.items.size() == SA.entries.size() && good.announced == good.items.size();
            std::set<Txid> seen;
            std::string why;
            for (const auto& it : good.items) {
                auto e = SA.entries.find(it.tx->GetHash());
                if (e == SA.entries.end() || e->second.tx->GetWitnessHash() != it.tx->GetWitnessHash()) {
                    ok = false;
                    why = "unknown tx";
                    break;
                }
                if (it.time != e->second.time) {
                    ok = false;
                    why = "entry time";
                }
                if (it.delta != e->second.modfee - e->second.fee) {
                    ok = false;
                    why = "fee delta";
                }
                for (const auto& in : it.tx->vin) {
                    if (SA.entries.count(in.prevout.hash) && !seen.count(in.prevout.hash)) {
                        ok = false;
                        why = "child saved before its parent";
                    }
                }
                if (!seen.insert(it.tx->GetHash()).second) {
                    ok = false;
                    why = "duplicate";
                }
            }
            std::map<Txid, CAmount> nonpool;
            for (const auto& [t, d] : SA.deltas) {
                if (!SA.entries.count(t)) nonpool[t] = d;
            }
            if (good.deltas != nonpool) {
                ok = false;
                why = "mapDeltas";
            }
            if (good.unb != SA.unbroadcast) {
                ok = false;
                why = "unbroadcast set";
            }
            if (!ok) {
                viol("persist-dump-unfaithful", "the dumped file does not describe the pool (" + (why.empty() ? good.error : why) + ")",
                     vh::J().u("items", good.items.size()).u("pool", SA.entries.size()).str("why", why).str("parse_error", good.error).u("file_bytes", raw.size()));
                continue;
            }
        }
        // ---- load time: often exactly around the expiry boundary of one saved entry
        int64_t t_load = t_dump + (int64_t)rng.below(120);
        if (!good.items.empty() && rng.chance(2, 3)) {
            const Item& k = good.items[rng.below(good.items.size())];
            const int64_t d = (int64_t)rng.below(3) - 1;
            t_load = std::max<int64_t>(t_dump, k.time + mopts.expiry_s + d);
        }
        // ---- trials
        std::vector<Trial> trials;
        trials.push_back({"full", raw.size(), 0, base_path});
        {
            std::vector<size_t> pos = {0, 7, 8, 9, 16, 17, 18, 24, raw.size() - 1, raw.size() - 2, raw.size() - 33};
            std::vector<size_t> pick;
            rng.shuffle(pos);
            for (size_t i = 0; i < pos.size() && (int)pick.size() < ntrunc / 3; ++i) {
                if (pos[i] < raw.size()) pick.push_back(pos[i]);
            }
            while ((int)pick.size() < ntrunc) pick.push_back(rng.below(raw.size()));
            for (size_t i = 0; i < pick.size(); ++i) {
                Trial t{"trunc", pick[i], 0, base_path + ".t" + std::to_string(i)};
                WriteFile(t.path, Bytes(raw.begin(), raw.begin() + (std::ptrdiff_t)pick[i]));
                trials.push_back(t);
            }
            for (int i = 0; i < nflip; ++i) {
                Trial t{"flip", 0, 0, base_path + ".f" + std::to_string(i)};
                // a third of the flips in the header / count, the rest anywhere
                t.pos = rng.chance(1, 3) ? rng.below(std::min<size_t>(raw.size(), 26)) : rng.below(raw.size());
                t.bit = (int)rng.below(8);
                Bytes b = raw;
                b[t.pos] ^= (unsigned char)(1u << t.bit);
                WriteFile(t.path, b);
                trials.push_back(t);
            }
        }
        std::vector<LoadedState> B(trials.size()), C(trials.size());
        std::vector<Parsed> parsed(trials.size());
        auto submit_pre = [&](SimNode& node) {
            for (const auto& tx : pre_txs) {
                if (!SubmitTx(node, tx, false).Valid()) throw std::runtime_error("persist: pre-existing transaction refused");
            }
        };
        auto finish = [&](SimNode& node, LoadedState& st) {
            node.Sync();
            st.snap = SnapPool(node, false);
            st.order = OrderBySeq(st.snap);
            for (const auto& tx : pre_txs) st.pre_missing += !st.snap.entries.count(tx->GetHash());
        };
        // =========================================================== node B: LoadMempool
        {
            SimNode node(nopts);
            InstallMempool(node, mopts);
            ReplayChain(node, chain, t_dump);
            node.SetTime(t_load);
            for (size_t i = 0; i < trials.size(); ++i) {
                if (i) ResetPool(node);
                submit_pre(node);
                node::ImportMempoolOptions opts;
                B[i].ret = node::LoadMempool(*node.Mempool(), fs::PathFromString(trials[i].path), node.ActiveCs(), std::move(opts));
                finish(node, B[i]);
            }
        }
        // =========================================================== node C: own parser + normal submission
        {
            SimNode node(nopts);
            InstallMempool(node, mopts);
            ReplayChain(node, chain, t_dump);
            node.SetTime(t_load);
            for (size_t i = 0; i < trials.size(); ++i) {
                if (i) ResetPool(node);
                submit_pre(node);
                parsed[i] = ParseMempoolFile(ReadFile(trials[i].path));
                const Parsed& p = parsed[i];
                for (const auto& it : p.items) {
                    if (it.delta) Prioritise(node, it.tx->GetHash(), it.delta);
                    if (it.time > t_load - mopts.expiry_s) {
                        ++C[i].nsubmitted;
                        if (SubmitTx(node, it.tx, false).Valid()) ++C[i].naccepted;
                    }
                }
                if (p.have_deltas) {
                    for (const auto& [t, d] : p.deltas) Prioritise(node, t, d);
                }
                if (p.have_unb) {
                    for (const auto& t : p.unb) {
                        if (node.Mempool()->get(t) != nullptr) node.Mempool()->AddUnbroadcastTx(t);
                    }
                }
                C[i].ret = p.complete;
                finish(node, C[i]);
            }
        }
        // =========================================================== compare
        for (size_t i = 0; i < trials.size(); ++i) {
            const Trial& t = trials[i];
            const Parsed& p = parsed[i];
            const LoadedState &b = B[i], &o = C[i];
            const vh::J ctx = vh::J().str("trial", t.kind).u("pos", t.pos).i("bit", t.bit).u("file_bytes", raw.size()).b("ret", b.ret).b("ret_expected", o.ret).u("loaded", b.snap.entries.size()).u("expected", o.snap.entries.size())
                                  .u("parsed_items", p.items.size()).str("parse_error", p.error).i("t_dump", t_dump).i("t_load", t_load);
            if (t.kind == "trunc" && b.ret) viol("persist-truncated-load-true", "LoadMempool returned true for a truncated file", ctx);
            if (t.kind == "full" && !b.ret) viol("persist-load-failed", "LoadMempool returned false for the file DumpMempool wrote", ctx);
            if (b.ret != o.ret) viol("persist-return-mismatch", "LoadMempool's return value differs from the own parser's verdict on the file", ctx);
            if (b.pre_missing) viol("persist-preexisting-removed", "loading a file removed entries the pool held before", vh::J().u("missing", b.pre_missing).raw("ctx", ctx.done()));
            // pool content
            std::set<Wtxid> wb, wo;
            for (const auto& [txid, e] : b.snap.entries) wb.insert(e.tx->GetWitnessHash());
            for (const auto& [txid, e] : o.snap.entries) wo.insert(e.tx->GetWitnessHash());
            if (wb != wo) {
                std::string extra, missing;
                for (const auto& w : wb) {
                    if (!wo.count(w)) extra += w.ToString().substr(0, 12) + " ";
                }
                for (const auto& w : wo) {
                    if (!wb.count(w)) missing += w.ToString().substr(0, 12) + " ";
                }
                viol(extra.empty() ? "persist-tx-not-restored" : "persist-tx-added-that-submission-rejects",
                     "the loaded pool differs from the pool obtained by submitting the saved transactions in saved order through normal submission",
                     vh::J().str("only_loaded", extra).str("only_expected", missing).raw("ctx", ctx.done()));
            } else if (b.order != o.order) {
                viol("persist-order-differs", "the loaded transactions were accepted in a different order than the saved order yields", ctx);
            }
            // entry time + delta of every loaded (non pre-existing) entry = what the file says
            std::set<Txid> pre_ids;
            for (const auto& tx : pre_txs) pre_ids.insert(tx->GetHash());
            std::map<Wtxid, const Item*> by_w;
            for (const auto& it : p.items) by_w.emplace(it.tx->GetWitnessHash(), &it);
            for (const auto& [txid, e] : b.snap.entries) {
                if (pre_ids.count(txid)) continue;
                auto it = by_w.find(e.tx->GetWitnessHash());
                if (it == by_w.end()) {
                    viol("persist-tx-not-in-file", "the loaded pool holds a transaction that is not in the file", vh::J().str("tx", txid.ToString()).raw("ctx", ctx.done()));
                    continue;
                }
                if (e.time != it->second->time) {
                    viol("persist-entry-time", "a loaded entry does not carry its saved entry time", vh::J().str("tx", txid.ToString()).i("saved", it->second->time).i("loaded", e.time).raw("ctx", ctx.done()));
                }
                auto oe = o.snap.entries.find(txid);
                if (oe != o.snap.entries.end() && (e.modfee != oe->second.modfee || e.fee != oe->second.fee)) {
                    viol("persist-fee-delta", "a loaded entry's modified fee differs from base fee + saved delta(s)", vh::J().str("tx", txid.ToString()).i("loaded_modfee", e.modfee).i("expected_modfee", oe->second.modfee).raw("ctx", ctx.done()));
                }
            }
            if (b.snap.deltas != o.snap.deltas) viol("persist-deltas", "mapDeltas after loading differs from the saved prioritisations", vh::J().u("loaded", b.snap.deltas.size()).u("expected", o.snap.deltas.size()).raw("ctx", ctx.done()));
            if (b.snap.unbroadcast != o.snap.unbroadcast) viol("persist-unbroadcast", "the unbroadcast set after loading is not saved ∩ loaded", vh::J().u("loaded", b.snap.unbroadcast.size()).u("expected", o.snap.unbroadcast.size()).raw("ctx", ctx.done()));
            // trial 0: directly against the pre-dump snapshot
            size_t n_delta_loaded = 0, n_nonpool = 0, n_unb = 0, n_expired = 0, n_failed = 0;
            if (t.kind == "full") {
                for (const auto& [txid, e] : b.snap.entries) {
                    if (pre_ids.count(txid)) continue;
                    auto a = SA.entries.find(txid);
                    if (a == SA.entries.end()) continue; // reported above
                    if (e.time != a->second.time) viol("persist-entry-time", "a reloaded entry does not carry the entry time it had before the dump", vh::J().str("tx", txid.ToString()).i("before", a->second.time).i("after", e.time));
                    if (e.modfee - e.fee != a->second.modfee - a->second.fee) viol("persist-fee-delta", "a reloaded entry does not carry the fee delta it had before the dump", vh::J().str("tx", txid.ToString()).i("before", a->second.modfee - a->second.fee).i("after", e.modfee - e.fee));
                    n_delta_loaded += (e.modfee != e.fee);
                }
                for (const auto& [txid, d] : SA.deltas) {
                    if (SA.entries.count(txid)) continue;
                    ++n_nonpool;
                    auto x = b.snap.deltas.find(txid);
                    if (x == b.snap.deltas.end() || x->second != d) viol("persist-deltas", "the prioritisation of a transaction that is not in the pool was not restored", vh::J().str("tx", txid.ToString()).i("saved", d));
                }
                std::set<Txid> want;
                for (const auto& u : SA.unbroadcast) {
                    if (b.snap.entries.count(u)) want.insert(u);
                }
                n_unb = want.size();
                if (b.snap.unbroadcast != want) viol("persist-unbroadcast", "the unbroadcast set after reloading is not (saved set ∩ loaded)", vh::J().u("loaded", b.snap.unbroadcast.size()).u("expected", want.size()));
                for (const auto& it : good.items) {
                    if (!(it.time > t_load - mopts.expiry_s)) ++n_expired;
                    else if (!b.snap.entries.count(it.tx->GetHash())) ++n_failed;
                }
            }
            const bool same_as_full = wb.size() == B[0].snap.entries.size() && b.order == B[0].order;
            vh::log().rec(vh::J().str("t", "trial").u("case", c).str("kind", t.kind).u("pos", t.pos).i("bit", t.bit).u("file_bytes", raw.size()).b("ret", b.ret).u("saved", good.items.size()).u("parsed", p.items.size())
                              .u("loaded", b.snap.entries.size()).u("submitted", o.nsubmitted).u("pre", pre_txs.size()).u("pre_missing", b.pre_missing).b("same_as_full", same_as_full)
                              .u("n_delta_loaded", n_delta_loaded).u("n_nonpool", n_nonpool).u("n_unb", n_unb).u("n_expired", n_expired).u("n_failed", n_failed).i("expiry_s", mopts.expiry_s).i("advance", t_load - t_dump)
                              .i("max_size", mopts.max_size_bytes));
        }
        for (const auto& t : trials) std::remove(t.path.c_str());
        vh::log().obs("dumps");
    }
    return 0;
}
