// E8 + E4 wallet persistence / encryption / address-uniqueness engines (C42 C43 C62).
//
//   wcrash_load    --p phase=init --p dir=D --p plan=P --p rec=R   create the wallet directory D (real SQLite descriptor wallet, name "", -walletdir=D)
//                                                                   and its base state, unload cleanly (= durable base image). Side files (block list,
//                                                                   snapshot texts, key material) go to D + ".side" (outside the image).
//   wcrash_load    --p phase=run  ...                              re-open D as a restart would and run the operation sequence of (seed, plan, rec); the
//                                                                   application journal is injected into the syscall stream as write(/dev/null,"MARK ..."):
//                                                                     OB <n> <name> <class> <detail>   operation begins (class atomic = one DB transaction)
//                                                                     OE <n> <name> <result>           operation ended
//                                                                     A <addr> <recv|change> <type>    address *returned* by GetNew(Change)Destination
//                                                                     AF <recv|change> <type>          request failed (legal: keypool ran out)
//                                                                     D <raw digest> <canon digest>    snapshot (texts in D.side/dumps.txt)
//   wcrash_recover --p dir=IMG | --p list=FILE (lines "<image id> <dir>": several images on one node process)
//                  --p side=S [--p pass=HEX] [--p keys=FILE] [--p naddr=N] [--p sync=1]
//                                                                   load a wallet image read-write exactly as the loader does (MakeWalletDatabase ->
//                                                                   CWallet::LoadExisting -> NotifyWalletLoaded -> postInitProcess) and report load status,
//                                                                   raw record dump (taken through a cursor before the load), canonical dump, encryption state,
//                                                                   key usability, N new addresses per type and the offsets of given secrets in the files.
//   wallet_encrypt (C42, in-process)  per case one wallet: import descriptors, EncryptWallet, file scans, locked / wrong / right passphrase, change, reload.
//   wallet_restart (C43, in-process)  per case one funded wallet: random operations with clean unload/reload; dumps before unload / after reload.
//
// Workload decisions use vh::Rng only.
#include <common/vh.h>
#include <sim_wallet.h>

#include <chain.h>
#include <common/args.h>
#include <consensus/validation.h>
#include <crypto/sha256.h>
#include <kernel/mempool_removal_reason.h>
#include <key_io.h>
#include <node/blockstorage.h>
#include <policy/policy.h>
#include <rpc/request.h>
#include <rpc/server.h>
#include <script/descriptor.h>
#include <script/interpreter.h>
#include <script/sign.h>
#include <script/signingprovider.h>
#include <streams.h>
#include <support/allocators/secure.h>
#include <test/util/setup_common.h>
#include <txmempool.h>
#include <univalue.h>
#include <util/fs.h>
#include <util/strencodings.h>
#include <util/translation.h>
#include <wallet/coincontrol.h>
#include <wallet/context.h>
#include <wallet/db.h>
#include <wallet/rpc/wallet.h>
#include <wallet/scriptpubkeyman.h>
#include <wallet/spend.h>
#include <wallet/test/util.h>
#include <wallet/wallet.h>
#include <wallet/walletdb.h>
#include <wallet/walletutil.h>

#include <fcntl.h>
#include <unistd.h>

#include <algorithm>
#include <chrono>
#include <fstream>
#include <map>
#include <set>
#include <sstream>
#include <string>
#include <vector>

namespace {
using namespace simw;
using wallet::CWallet;
using wallet::DescriptorScriptPubKeyMan;
using wallet::ScriptPubKeyMan;
using wallet::WalletDescriptor;

const OutputType OTYPES[4] = {OutputType::LEGACY, OutputType::P2SH_SEGWIT, OutputType::BECH32, OutputType::BECH32M};
const char* OTYPE_NAME[4] = {"legacy", "p2sh-segwit", "bech32", "bech32m"};

int g_mark_fd = -1;
bool g_journal = false; //!< markers go into the syscall stream (recorded run) as well as into the log
void Mark(const std::string& s)
{
    if (g_journal) {
        if (g_mark_fd < 0) g_mark_fd = ::open("/dev/null", O_WRONLY | O_CLOEXEC);
        const std::string line = "MARK " + s + "\n";
        if (g_mark_fd >= 0) {
            ssize_t r = ::write(g_mark_fd, line.data(), line.size());
            (void)r;
        }
    }
    vh::log().line(vh::J().str("mark", s).done());
}

std::string ShaHex(const unsigned char* p, size_t n)
{
    unsigned char h[32];
    CSHA256().Write(p, n).Finalize(h);
    return vh::Hex(h, 32);
}
std::string ShaHex(const std::string& s) { return ShaHex(reinterpret_cast<const unsigned char*>(s.data()), s.size()); }
std::string Dig(const std::string& s) { return ShaHex(s).substr(0, 24); }

std::string Clean(std::string s)
{
    for (char& c : s) {
        if (c == ' ' || c == '\n' || c == '\r' || c == '\t') c = '_';
    }
    if (s.size() > 160) s.resize(160);
    return s;
}

// ---------------------------------------------------------------------------------------------------------------------------------------
// Dumps
// ---------------------------------------------------------------------------------------------------------------------------------------

//! Every record of the database through a cursor: "<type> <rest of key hex> v:<value hex>|h:<sha of value>:<len>", sorted.
//! Values of key / transaction / cache records are only hashed (size, and no key material in side files).
std::string RawDump(wallet::WalletDatabase& db, std::map<std::string, int>* census = nullptr)
{
    static const std::set<std::string> FULL{"walletdescriptor", "name", "purpose", "lockedutxo", "activeexternalspk", "activeinternalspk", "flags", "minversion",
                                            "orderposnext", "destdata", "version", "settings"};
    std::unique_ptr<wallet::DatabaseBatch> batch = db.MakeBatch();
    std::unique_ptr<wallet::DatabaseCursor> cur = batch->GetNewCursor();
    if (!cur) throw std::runtime_error("RawDump: no cursor");
    std::vector<std::string> lines;
    while (true) {
        DataStream k{}, v{};
        const auto st = cur->Next(k, v);
        if (st == wallet::DatabaseCursor::Status::DONE) break;
        if (st != wallet::DatabaseCursor::Status::MORE) throw std::runtime_error("RawDump: cursor failed");
        const std::string kall(reinterpret_cast<const char*>(k.data()), k.size());
        std::string type = "?";
        std::string rest = kall;
        try {
            DataStream kk{};
            kk.write(std::as_bytes(std::span<const char>(kall.data(), kall.size())));
            kk >> type;
            rest.assign(reinterpret_cast<const char*>(kk.data()), kk.size());
            for (char c : type) {
                if (c < 0x21 || c > 0x7e) {
                    type = "?";
                    rest = kall;
                    break;
                }
            }
        } catch (const std::exception&) {
            type = "?";
            rest = kall;
        }
        if (census) (*census)[type]++;
        std::string val;
        if (FULL.count(type) && v.size() <= 600) {
            val = "v:" + vh::Hex(reinterpret_cast<const unsigned char*>(v.data()), v.size());
        } else {
            val = "h:" + ShaHex(reinterpret_cast<const unsigned char*>(v.data()), v.size()).substr(0, 20) + ":" + std::to_string(v.size());
        }
        lines.push_back(type + " " + vh::Hex(rest) + " " + val);
    }
    cur.reset();
    batch.reset();
    std::sort(lines.begin(), lines.end());
    std::string out;
    for (const auto& l : lines) out += l + "\n";
    return out;
}

struct StateStr {
    std::string operator()(const wallet::TxStateConfirmed& s) const { return "confirmed:" + s.confirmed_block_hash.ToString() + ":" + std::to_string(s.confirmed_block_height) + ":" + std::to_string(s.position_in_block); }
    std::string operator()(const wallet::TxStateInMempool&) const { return "mempool"; }
    std::string operator()(const wallet::TxStateBlockConflicted& s) const { return "conflicted:" + s.conflicting_block_hash.ToString() + ":" + std::to_string(s.conflicting_block_height); }
    std::string operator()(const wallet::TxStateInactive& s) const { return s.abandoned ? "abandoned" : "inactive"; }
    std::string operator()(const wallet::TxStateUnrecognized&) const { return "unrecognized"; }
};

//! Canonical text of what the loaded wallet holds (same facts as WalletSim::Dump, plus master keys, key kinds, cache sizes, tx values;
//! without memory-only coin locks). Fields that a load legitimately changes (keypool look-ahead) come last on a descriptor line:
//! " range=a:b cache=p/d/l".
std::string CanonDump(CWallet& w)
{
    using namespace wallet;
    std::vector<std::string> lines;
    LOCK(w.cs_wallet);
    lines.push_back("flags " + std::to_string(w.GetWalletFlags()));
    lines.push_back(std::string("encrypted ") + (w.HasEncryptionKeys() ? "1" : "0"));
    {
        std::string mk = "mkeys";
        for (const auto& [id, k] : w.mapMasterKeys) mk += " " + std::to_string(id) + ":" + Dig(vh::Hex(k.vchCryptedKey) + vh::Hex(k.vchSalt) + std::to_string(k.nDeriveIterations));
        lines.push_back(mk);
    }
    const auto active = w.GetActiveScriptPubKeyMans();
    for (ScriptPubKeyMan* spkm : w.GetAllScriptPubKeyMans()) {
        auto* d = dynamic_cast<DescriptorScriptPubKeyMan*>(spkm);
        if (!d) {
            lines.push_back("spkm other " + spkm->GetID().ToString());
            continue;
        }
        std::string desc;
        if (!d->GetDescriptorString(desc, /*priv=*/false)) desc = "?";
        LOCK(d->cs_desc_man);
        const WalletDescriptor wd = d->GetWalletDescriptor();
        size_t nder = 0;
        for (const auto& [kp, m] : wd.cache.GetCachedDerivedExtPubKeys()) nder += m.size();
        lines.push_back("desc " + d->GetID().ToString() + " " + desc + " next=" + std::to_string(wd.next_index) + " created=" + std::to_string(wd.creation_time) +
                        " active=" + (active.count(spkm) ? "1" : "0") + " internal=" + (w.IsInternalScriptPubKeyMan(spkm).value_or(false) ? "1" : "0") +
                        " priv=" + (d->HavePrivateKeys() ? "1" : "0") + " crypted=" + (d->HaveCryptedKeys() ? "1" : "0") +
                        " range=" + std::to_string(wd.range_start) + ":" + std::to_string(wd.range_end) +
                        " cache=" + std::to_string(wd.cache.GetCachedParentExtPubKeys().size()) + "/" + std::to_string(nder) + "/" + std::to_string(wd.cache.GetCachedLastHardenedExtPubKeys().size()));
    }
    for (const auto& [txid, wtx] : w.mapWallet) {
        DataStream ss;
        ss << wtx;
        std::string l = "tx " + txid.ToString() + " rec=" + ShaHex(reinterpret_cast<const unsigned char*>(ss.data()), ss.size()).substr(0, 24) +
                        " state=" + std::visit(StateStr{}, wtx.m_state) + " order=" + std::to_string(wtx.nOrderPos);
        if (wtx.m_replaces_txid) l += " replaces=" + wtx.m_replaces_txid->ToString();
        if (wtx.m_replaced_by_txid) l += " replaced_by=" + wtx.m_replaced_by_txid->ToString();
        if (wtx.m_comment) l += " comment=" + Clean(*wtx.m_comment);
        if (wtx.m_comment_to) l += " to=" + Clean(*wtx.m_comment_to);
        lines.push_back(l);
    }
    for (const auto& [dest, data] : w.m_address_book) {
        std::string l = "addr " + vh::Hex(GetScriptForDestination(dest)) + " label=" + (data.label ? "'" + Clean(*data.label) + "'" : "-") +
                        " purpose=" + (data.purpose ? PurposeToString(*data.purpose) : "-") + " spent=" + (data.previously_spent ? "1" : "0");
        for (const auto& [k, v] : data.receive_requests) l += " rr:" + Clean(k) + "=" + Clean(v);
        lines.push_back(l);
    }
    for (const auto& [op, persist] : w.m_locked_coins) {
        if (persist) lines.push_back("locked " + OutpointStr(op));
    }
    std::sort(lines.begin(), lines.end());
    std::string out;
    for (const auto& l : lines) out += l + "\n";
    return out;
}

// ---------------------------------------------------------------------------------------------------------------------------------------
// Keys / signing helpers
// ---------------------------------------------------------------------------------------------------------------------------------------

//! Try to sign a spend of a (made-up) coin paying `spk` with the wallet and verify the result with the script interpreter.
//! 0 = wallet could not sign, 1 = signed and verified, -1 = signed but the interpreter rejects it.
int SignAndVerify(CWallet& w, const CScript& spk)
{
    CMutableTransaction mtx;
    mtx.version = 2;
    unsigned char h[32];
    CSHA256().Write(spk.data(), spk.size()).Finalize(h);
    const COutPoint op(Txid::FromUint256(uint256{std::span<const unsigned char>{h, 32}}), 0);
    mtx.vin.emplace_back(op);
    mtx.vout.emplace_back(90000, WalletSim::BurnScript());
    std::map<COutPoint, Coin> coins;
    coins[op] = Coin(CTxOut(100000, spk), 1, false);
    std::map<int, bilingual_str> errs;
    LOCK(w.cs_wallet);
    const bool complete = w.SignTransaction(mtx, coins, SIGHASH_DEFAULT, errs);
    if (!complete) return 0;
    PrecomputedTransactionData txdata;
    txdata.Init(mtx, {CTxOut(100000, spk)}, true);
    ScriptError serr;
    const bool ok = VerifyScript(mtx.vin[0].scriptSig, spk, &mtx.vin[0].scriptWitness, STANDARD_SCRIPT_VERIFY_FLAGS,
                                 MutableTransactionSignatureChecker(&mtx, 0, 100000, txdata, MissingDataBehavior::FAIL), &serr);
    return ok ? 1 : -1;
}

//! Unload the way the wallet's own unload path does: RemoveWallet() writes the best-block locator before the wallet is released
//! (wallet::TestUnloadWallet, which the fixture uses, leaves that step out).
void CleanUnload(WalletSim& sim)
{
    {
        LOCK(sim.W().cs_wallet);
        sim.W().WriteBestBlock();
    }
    sim.UnloadWallet();
}

//! Load the wallet of the current -walletdir the way the loader does, without the fixture (which cannot report a failed load).
std::shared_ptr<CWallet> SafeLoad(WalletSim& sim, std::string& err)
{
    wallet::DatabaseOptions options;
    options.require_existing = true;
    wallet::ReadDatabaseArgs(*sim.Context().args, options);
    wallet::DatabaseStatus status;
    bilingual_str error;
    std::vector<bilingual_str> warnings;
    std::shared_ptr<CWallet> w;
    try {
        auto database = wallet::MakeWalletDatabase("", options, status, error);
        if (!database) {
            err = "open: " + error.original;
            return nullptr;
        }
        w = CWallet::LoadExisting(sim.Context(), "", std::move(database), error, warnings);
    } catch (const std::exception& e) {
        err = std::string("exception: ") + e.what();
        return nullptr;
    }
    if (!w) {
        err = "load: " + error.original;
        return nullptr;
    }
    wallet::NotifyWalletLoaded(sim.Context(), w);
    w->postInitProcess();
    sim.Drain();
    return w;
}

struct KeyMaterial {
    std::vector<std::pair<std::string, std::vector<unsigned char>>> secrets; //!< (kind, bytes) to look for on disk
    std::map<std::string, std::string> priv;                                  //!< descriptor id -> private descriptor string
    std::vector<CKeyID> keyids;                                               //!< ids of the private keys held
    std::vector<std::pair<int, CScript>> tests;                               //!< (type, scriptPubKey handed out by the wallet)
};

void AddSecret(KeyMaterial& km, const std::string& kind, const std::vector<unsigned char>& b)
{
    for (const auto& s : km.secrets) {
        if (s.second == b) return;
    }
    km.secrets.emplace_back(kind, b);
}

//! Collect what the wallet holds: private descriptor strings, raw 32-byte secrets, WIF and extended-private-key strings.
//! Returns the number of descriptors whose private string could not be produced.
int CaptureKeys(CWallet& w, KeyMaterial& km)
{
    int failed = 0;
    LOCK(w.cs_wallet);
    for (ScriptPubKeyMan* spkm : w.GetAllScriptPubKeyMans()) {
        auto* d = dynamic_cast<DescriptorScriptPubKeyMan*>(spkm);
        if (!d) continue;
        std::string priv;
        if (!d->GetDescriptorString(priv, /*priv=*/true)) {
            ++failed;
            continue;
        }
        km.priv[d->GetID().ToString()] = priv;
        FlatSigningProvider keys;
        std::string err;
        auto parsed = Parse(priv, keys, err, /*require_checksum=*/false);
        if (parsed.empty()) {
            ++failed;
            continue;
        }
        for (const auto& [id, key] : keys.keys) {
            if (std::find(km.keyids.begin(), km.keyids.end(), id) == km.keyids.end()) km.keyids.push_back(id);
            AddSecret(km, "raw32", std::vector<unsigned char>(UCharCast(key.begin()), UCharCast(key.end())));
            const std::string wif = EncodeSecret(key);
            AddSecret(km, "wif", std::vector<unsigned char>(wif.begin(), wif.end()));
        }
        // extended private keys as they appear in the string
        size_t pos = 0;
        while ((pos = priv.find("tprv", pos)) != std::string::npos) {
            size_t e = pos;
            while (e < priv.size() && std::isalnum(static_cast<unsigned char>(priv[e]))) ++e;
            const std::string x = priv.substr(pos, e - pos);
            AddSecret(km, "xprv", std::vector<unsigned char>(x.begin(), x.end()));
            const CExtKey ek = DecodeExtKey(x);
            if (ek.key.IsValid()) AddSecret(km, "raw32", std::vector<unsigned char>(UCharCast(ek.key.begin()), UCharCast(ek.key.end())));
            pos = e;
        }
    }
    return failed;
}

void WriteKeysFile(const std::string& path, const KeyMaterial& km)
{
    std::ofstream f(path, std::ios::trunc);
    for (const auto& [kind, b] : km.secrets) f << "S " << kind << " " << vh::Hex(b) << "\n";
    for (const auto& [id, p] : km.priv) f << "P " << id << " " << p << "\n";
    for (const auto& id : km.keyids) f << "K " << vh::Hex(id) << "\n";
    for (const auto& [t, spk] : km.tests) f << "T " << t << " " << vh::Hex(spk) << "\n";
}

bool ReadKeysFile(const std::string& path, KeyMaterial& km)
{
    std::ifstream f(path);
    if (!f) return false;
    std::string line;
    while (std::getline(f, line)) {
        std::istringstream is(line);
        std::string tag, a, b;
        is >> tag >> a;
        std::getline(is, b);
        if (!b.empty() && b[0] == ' ') b.erase(0, 1);
        if (tag == "S") km.secrets.emplace_back(a, vh::UnHex(b));
        else if (tag == "P") km.priv[a] = b;
        else if (tag == "K") {
            auto v = vh::UnHex(a);
            if (v.size() == 20) km.keyids.emplace_back(uint160(std::span<const unsigned char>(v)));
        } else if (tag == "T") {
            auto v = vh::UnHex(b);
            km.tests.emplace_back(std::atoi(a.c_str()), CScript(v.begin(), v.end()));
        }
    }
    return true;
}

//! Offsets of the secrets in every regular file below dir. Returns JSON array items.
std::vector<std::string> ScanDir(const fs::path& dir, const KeyMaterial& km, int64_t* files = nullptr, int64_t* bytes = nullptr)
{
    std::vector<std::string> hits;
    std::error_code ec;
    for (auto it = fs::recursive_directory_iterator(dir, ec); !ec && it != fs::recursive_directory_iterator(); it.increment(ec)) {
        if (!it->is_regular_file(ec)) continue;
        std::ifstream f(it->path(), std::ios::binary);
        std::string data((std::istreambuf_iterator<char>(f)), std::istreambuf_iterator<char>());
        if (files) ++*files;
        if (bytes) *bytes += data.size();
        const std::string rel = fs::PathToString(it->path().lexically_relative(dir));
        for (size_t i = 0; i < km.secrets.size(); ++i) {
            const auto& [kind, b] = km.secrets[i];
            if (b.empty()) continue;
            const std::string needle(b.begin(), b.end());
            size_t pos = data.find(needle);
            int n = 0;
            size_t first = pos;
            while (pos != std::string::npos) {
                ++n;
                pos = data.find(needle, pos + 1);
            }
            if (n) hits.push_back(vh::J().str("file", rel).str("kind", kind).u("secret", i).u("offset", first).i("count", n).u("file_size", data.size()).done());
        }
    }
    return hits;
}

std::string FileList(const fs::path& dir)
{
    std::vector<std::string> v;
    std::error_code ec;
    for (auto it = fs::recursive_directory_iterator(dir, ec); !ec && it != fs::recursive_directory_iterator(); it.increment(ec)) {
        if (!it->is_regular_file(ec)) continue;
        v.push_back(vh::JStr(fs::PathToString(it->path().lexically_relative(dir)) + ":" + std::to_string(it->file_size(ec))));
    }
    std::sort(v.begin(), v.end());
    return vh::JArr(v);
}

// ---------------------------------------------------------------------------------------------------------------------------------------
// Chain side file (blocks above the fixture's 100-block chain), so that run / recover processes see the chain the base wallet saw
// ---------------------------------------------------------------------------------------------------------------------------------------
void SaveChain(WalletSim& sim, const std::string& path)
{
    std::ofstream f(path, std::ios::trunc);
    const int tip = sim.TipHeight();
    for (int h = 101; h <= tip; ++h) {
        const CBlockIndex* pi = WITH_LOCK(cs_main, return sim.Chainman().ActiveChain()[h]);
        CBlock block;
        if (!sim.Chainman().m_blockman.ReadBlock(block, *pi)) throw std::runtime_error("SaveChain: cannot read block");
        DataStream ss;
        ss << TX_WITH_WITNESS(block);
        f << vh::Hex(ss) << "\n";
    }
    f << "now " << GetTime() << "\n";
}

void ReplayChain(WalletSim& sim, const std::string& path)
{
    std::ifstream f(path);
    if (!f) return;
    std::string line;
    int64_t now = 0;
    std::vector<std::shared_ptr<const CBlock>> blocks;
    while (std::getline(f, line)) {
        if (line.rfind("now ", 0) == 0) {
            now = std::atoll(line.c_str() + 4);
            continue;
        }
        if (line.empty()) continue;
        auto raw = vh::UnHex(line);
        DataStream ss{};
        ss.write(std::as_bytes(std::span<const unsigned char>(raw)));
        auto b = std::make_shared<CBlock>();
        ss >> TX_WITH_WITNESS(*b);
        blocks.push_back(b);
    }
    if (now > GetTime()) sim.AdvanceTime(static_cast<int>(now - GetTime()));
    for (const auto& b : blocks) {
        bool nb = false;
        if (!sim.Chainman().ProcessNewBlock(b, /*force_processing=*/true, /*min_pow_checked=*/true, &nb)) throw std::runtime_error("ReplayChain: block refused");
    }
    sim.Drain();
    if (!blocks.empty() && sim.TipHash() != blocks.back()->GetHash()) throw std::runtime_error("ReplayChain: tip differs from the stored chain");
}

// ---------------------------------------------------------------------------------------------------------------------------------------
// Operation runner
// ---------------------------------------------------------------------------------------------------------------------------------------
SecureString ToSecure(const std::vector<unsigned char>& b) { return SecureString(b.begin(), b.end()); }

enum OpKind { NEWADDR, NEWCHANGE, SETLABEL, DELLABEL, LOCKCOIN, UNLOCKCOIN, TOPUP, IMPORT, REMOVETX, SEND, RELOAD, ENCRYPT, WLOCK, WUNLOCK, SETFLAG, N_OPS };
const char* OP_NAME[N_OPS] = {"newaddr", "newchange", "setlabel", "dellabel", "lockcoin", "unlockcoin", "topup", "import", "removetx", "send", "reload", "encrypt", "wlock", "wunlock", "setflag"};

struct Runner {
    WalletSim& sim;
    vh::Rng rng;
    std::string side;      //!< side directory ("" = no side files)
    std::vector<unsigned char> pass;
    int opn{0};
    int nimport{0};
    std::set<std::string> dumps_written;
    std::vector<CTxDestination> book;             //!< foreign addresses with an address-book entry
    std::vector<uint256> hard_ids;                //!< imported descriptors with hardened range derivation
    std::string last_raw, last_canon;
    std::map<std::string, int64_t> count;
    KeyMaterial km;
    bool keys_captured{false};

    Runner(WalletSim& s, uint64_t seed, uint64_t stream, const std::string& side_dir) : sim(s), rng(seed, stream), side(side_dir) {}

    CWallet& W() { return sim.W(); }

    void Snap()
    {
        const std::string raw = RawDump(W().GetDatabase());
        const std::string canon = CanonDump(W());
        last_raw = Dig(raw);
        last_canon = Dig(canon);
        if (!side.empty()) {
            std::ofstream f(side + "/dumps.txt", std::ios::app);
            if (dumps_written.insert("r" + last_raw).second) f << "### raw " << last_raw << "\n" << raw;
            if (dumps_written.insert("c" + last_canon).second) f << "### canon " << last_canon << "\n" << canon;
        }
        Mark("D " + last_raw + " " + last_canon);
    }

    void Begin(OpKind k, const char* cls, const std::string& detail)
    {
        ++opn;
        Mark("OB " + std::to_string(opn) + " " + OP_NAME[k] + " " + cls + " " + Clean(detail));
    }
    void End(OpKind k, const std::string& result)
    {
        Mark("OE " + std::to_string(opn) + " " + OP_NAME[k] + " " + Clean(result));
        count[std::string("op_") + OP_NAME[k]]++;
        Snap();
    }

    // ---- single operations (each returns a result word)
    std::string NewAddr(int t, bool change)
    {
        auto r = change ? W().GetNewChangeDestination(OTYPES[t]) : W().GetNewDestination(OTYPES[t], rng.chance(1, 3) ? "l" + std::to_string(opn) : "");
        if (!r) {
            Mark(std::string("AF ") + (change ? "change " : "recv ") + OTYPE_NAME[t] + " " + Clean(util::ErrorString(r).original));
            count["addr_failed"]++;
            return "failed";
        }
        Mark("A " + EncodeDestination(*r) + (change ? " change " : " recv ") + OTYPE_NAME[t]);
        count[change ? "addr_change" : "addr_recv"]++;
        if (!change) km.tests.emplace_back(t, GetScriptForDestination(*r));
        return "ok";
    }

    std::string ImportDesc(int kind, bool active, std::string* desc_out = nullptr)
    {
        // own key material from the harness generator
        CKey k;
        do {
            auto b = rng.bytes(32);
            k.Set(b.begin(), b.end(), true);
        } while (!k.IsValid());
        CExtKey ek;
        ek.SetSeed(std::as_bytes(std::span<const unsigned char>(rng.bytes(32))));
        const std::string x = EncodeExtKey(ek);
        std::string ds, label;
        bool hard = false;
        switch (kind) {
        case 0: ds = "wpkh(" + EncodeSecret(k) + ")"; label = "imp" + std::to_string(nimport); break;          // single key, labelled
        case 1: ds = "tr(" + x + "/86h/1h/0h/0/*)"; break;                                                       // ranged, unhardened
        case 2: ds = "pkh(" + x + "/44h/*h)"; hard = true; break;                                                // ranged, hardened: one cache record per index
        case 3: ds = "wpkh(" + x + "/*h)"; hard = true; break;
        case 4: ds = "sh(wpkh(" + x + "/1h/*h))"; hard = true; break;
        default: ds = "pkh(" + EncodeSecret(k) + ")"; label = "imp" + std::to_string(nimport); break;
        }
        ++nimport;
        if (desc_out) *desc_out = ds;
        FlatSigningProvider keys;
        std::string err;
        auto parsed = Parse(ds, keys, err, false);
        if (parsed.empty()) return "parse:" + err;
        const bool ranged = parsed[0]->IsRange();
        const int kp = static_cast<int>(sim.Context().args->GetIntArg("-keypool", 3));
        WalletDescriptor wd(std::move(parsed[0]), static_cast<uint64_t>(GetTime()), 0, ranged ? kp : 0, 0);
        uint256 id;
        std::optional<OutputType> ot = wd.descriptor->GetOutputType();
        {
            LOCK(W().cs_wallet);
            auto res = W().AddWalletDescriptor(wd, keys, label, /*internal=*/false);
            if (!res) return "error:" + util::ErrorString(res).original;
            id = res->get().GetID();
            if (active && ranged && ot) W().AddActiveScriptPubKeyMan(id, *ot, /*internal=*/false);
        }
        if (hard) hard_ids.push_back(id);
        // a scriptPubKey of it for the signing checks
        {
            LOCK(W().cs_wallet);
            auto* d = dynamic_cast<DescriptorScriptPubKeyMan*>(W().GetScriptPubKeyMan(id));
            if (d) {
                auto spks = d->GetScriptPubKeys();
                if (!spks.empty()) {
                    std::vector<CScript> v(spks.begin(), spks.end());
                    std::sort(v.begin(), v.end());
                    km.tests.emplace_back(9, v.front());
                }
            }
        }
        count["imports"]++;
        return std::string("ok:") + (ranged ? (hard ? "hardrange" : "range") : "single") + (active && ranged ? ":active" : "");
    }

    std::vector<COutPoint> WalletCoins()
    {
        std::vector<COutPoint> v;
        LOCK(W().cs_wallet);
        wallet::CCoinControl cc;
        cc.m_include_unsafe_inputs = true;
        for (const auto& o : wallet::AvailableCoins(W(), &cc).All()) v.push_back(o.outpoint);
        std::sort(v.begin(), v.end());
        return v;
    }

    std::string Encrypt()
    {
        if (W().HasEncryptionKeys()) return "already";
        if (!side.empty() && !keys_captured) {
            CaptureKeys(W(), km);
            WriteKeysFile(side + "/keys.txt", km);
            keys_captured = true;
        }
        const bool ok = W().EncryptWallet(ToSecure(pass));
        count["encryptions"]++;
        return ok ? "ok" : "refused";
    }

    //! One random operation according to the weights.
    void Step(const std::vector<uint32_t>& weights)
    {
        const OpKind k = static_cast<OpKind>(rng.weighted(weights));
        const bool enc = W().HasEncryptionKeys();
        const bool locked = W().IsLocked();
        try {
            switch (k) {
            case NEWADDR:
            case NEWCHANGE: {
                const int t = static_cast<int>(rng.below(4));
                Begin(k, "multi", OTYPE_NAME[t]);
                End(k, NewAddr(t, k == NEWCHANGE));
                break;
            }
            case SETLABEL: {
                const CTxDestination d = WalletSim::ForeignDest(rng, rng.coin() ? ForeignKind::P2WPKH : ForeignKind::P2PKH);
                Begin(k, "multi", EncodeDestination(d));
                bool ok = W().SetAddressBook(d, "send" + std::to_string(opn), wallet::AddressPurpose::SEND);
                if (rng.coin()) {
                    LOCK(W().cs_wallet);
                    wallet::WalletBatch batch(W().GetDatabase());
                    ok = W().SetAddressReceiveRequest(batch, d, "rq" + std::to_string(opn % 3), "v" + std::to_string(opn)) && ok;
                }
                book.push_back(d);
                End(k, ok ? "ok" : "failed");
                break;
            }
            case DELLABEL: {
                if (book.empty()) return Step({1, 1, 3, 0, 0, 0, 0, 0, 0, 0, 0, 0, 0, 0, 0});
                const size_t i = rng.below(book.size());
                const CTxDestination d = book[i];
                book.erase(book.begin() + i);
                Begin(k, "atomic", EncodeDestination(d));
                End(k, W().DelAddressBook(d) ? "ok" : "failed");
                break;
            }
            case LOCKCOIN: {
                auto coins = WalletCoins();
                if (coins.empty()) return Step({1, 1, 1, 0, 0, 0, 0, 0, 0, 0, 0, 0, 0, 0, 0});
                const COutPoint op = coins[rng.below(coins.size())];
                Begin(k, "multi", OutpointStr(op));
                End(k, sim.Lock(op, /*persist=*/true) ? "ok" : "failed");
                break;
            }
            case UNLOCKCOIN: {
                std::vector<COutPoint> l(sim.Locked().begin(), sim.Locked().end());
                if (l.empty()) return Step({1, 1, 1, 0, 0, 0, 0, 0, 0, 0, 0, 0, 0, 0, 0});
                const COutPoint op = l[rng.below(l.size())];
                Begin(k, "multi", OutpointStr(op));
                End(k, sim.Unlock(op) ? "ok" : "failed");
                break;
            }
            case TOPUP: {
                // one DescriptorScriptPubKeyMan::TopUp = one DB transaction; prefer a descriptor with one cache record per index
                DescriptorScriptPubKeyMan* d = nullptr;
                {
                    LOCK(W().cs_wallet);
                    if (!hard_ids.empty() && rng.chance(3, 4)) d = dynamic_cast<DescriptorScriptPubKeyMan*>(W().GetScriptPubKeyMan(hard_ids[rng.below(hard_ids.size())]));
                    if (!d) {
                        auto all = W().GetAllScriptPubKeyMans();
                        std::vector<ScriptPubKeyMan*> v(all.begin(), all.end());
                        std::sort(v.begin(), v.end(), [](ScriptPubKeyMan* a, ScriptPubKeyMan* b) { return a->GetID() < b->GetID(); });
                        d = dynamic_cast<DescriptorScriptPubKeyMan*>(v[rng.below(v.size())]);
                    }
                }
                if (!d) return;
                const int32_t end = d->GetEndRange();
                const unsigned n = static_cast<unsigned>(end + 1 + rng.below(4));
                Begin(k, "atomic", d->GetID().ToString().substr(0, 12) + "_to_" + std::to_string(n));
                bool r;
                {
                    LOCK(W().cs_wallet);
                    r = d->TopUp(n);
                }
                End(k, r ? "ok" : "false");
                break;
            }
            case IMPORT: {
                if (locked) return Step({1, 1, 1, 0, 0, 0, 0, 0, 0, 0, 0, 0, 0, 1, 0});
                const int kind = static_cast<int>(rng.below(6));
                Begin(k, "import", "kind" + std::to_string(kind));
                End(k, ImportDesc(kind, /*active=*/false));
                break;
            }
            case REMOVETX: {
                std::vector<Txid> all;
                {
                    LOCK(W().cs_wallet);
                    // not the ones the node's mempool still holds: a loading wallet asks the mempool for its transactions and would take them back
                    for (const auto& [id, wtx] : W().mapWallet) {
                        if (!wtx.InMempool()) all.push_back(id);
                    }
                }
                if (all.empty()) return Step({1, 1, 1, 0, 0, 0, 0, 0, 0, 0, 0, 0, 0, 0, 0});
                rng.shuffle(all);
                all.resize(std::min<size_t>(all.size(), 1 + rng.below(3)));
                Begin(k, "atomic", std::to_string(all.size()) + "tx");
                std::string r;
                {
                    LOCK(W().cs_wallet);
                    auto res = W().RemoveTxs(all);
                    r = res ? "ok" : "error:" + util::ErrorString(res).original;
                }
                End(k, r);
                break;
            }
            case SEND: {
                Begin(k, "multi", "");
                std::vector<wallet::CRecipient> rcp;
                rcp.push_back(wallet::CRecipient{WalletSim::ForeignDest(rng, ForeignKind::P2WPKH), static_cast<CAmount>(rng.range(20000, 3000000)), false});
                wallet::CCoinControl cc;
                cc.m_feerate = CFeeRate(static_cast<CAmount>(rng.range(2000, 20000)));
                cc.fOverrideFeeRate = true;
                std::string err;
                auto res = sim.Create(rcp, std::nullopt, cc, /*sign=*/true, &err);
                if (res) {
                    sim.Commit(res->tx);
                    sim.Drain();
                    count["sends"]++;
                }
                End(k, res ? "ok" : "failed:" + err);
                break;
            }
            case RELOAD: {
                Begin(k, "multi", "");
                // before-dump of the clean-restart clause
                const std::string before = CanonDump(W());
                const std::string before_raw = RawDump(W().GetDatabase());
                Mark("RB " + Dig(before));
                if (!side.empty()) {
                    std::ofstream f(side + "/dumps.txt", std::ios::app);
                    if (dumps_written.insert("c" + Dig(before)).second) f << "### canon " << Dig(before) << "\n" << before;
                }
                const std::set<COutPoint> mem_locks = sim.Locked();
                CleanUnload(sim);
                Mark("RU");
                sim.LoadWallet();
                sim.Drain();
                // WalletSim's lock bookkeeping: every lock taken here was persistent
                (void)mem_locks;
                const std::string after = CanonDump(W());
                if (!side.empty()) {
                    std::ofstream f(side + "/dumps.txt", std::ios::app);
                    if (dumps_written.insert("c" + Dig(after)).second) f << "### canon " << Dig(after) << "\n" << after;
                }
                Mark("RA " + Dig(after));
                vh::log().rec(vh::J().str("reload", "1").i("op", opn).str("before", before).str("after", after).b("encrypted", enc));
                count["reloads"]++;
                End(k, "ok");
                break;
            }
            case ENCRYPT: {
                if (enc) return Step({1, 1, 1, 0, 0, 0, 0, 0, 0, 0, 0, 0, 0, 0, 0});
                Begin(k, "encrypt", "");
                End(k, Encrypt());
                break;
            }
            case WLOCK: {
                if (!enc || locked) return Step({1, 1, 1, 0, 0, 0, 0, 0, 0, 0, 0, 0, 0, 0, 0});
                Begin(k, "mem", "");
                End(k, W().Lock() ? "ok" : "failed");
                break;
            }
            case WUNLOCK: {
                if (!enc || !locked) return Step({1, 1, 1, 0, 0, 0, 0, 0, 0, 0, 0, 0, 0, 0, 0});
                Begin(k, "mem", "");
                End(k, W().Unlock(ToSecure(pass)) ? "ok" : "failed");
                break;
            }
            case SETFLAG: {
                const bool on = W().IsWalletFlagSet(wallet::WALLET_FLAG_AVOID_REUSE);
                Begin(k, "multi", on ? "unset" : "set");
                if (on) W().UnsetWalletFlag(wallet::WALLET_FLAG_AVOID_REUSE);
                else W().SetWalletFlag(wallet::WALLET_FLAG_AVOID_REUSE);
                End(k, "ok");
                break;
            }
            default: break;
            }
        } catch (const std::runtime_error& e) {
            // documented failure mode of wallet writes (e.g. "Wallet is locked, cannot setup new descriptors"): data, not a harness failure
            End(k, std::string("exception:") + e.what());
            count["op_exceptions"]++;
        }
    }
};

struct Plan {
    int keypool{3};
    bool fund{false};
    bool encrypt_in_init{false};
    int init_imports{0};
    bool init_active_hard{false};
    int steps{30};
    std::vector<uint32_t> w; //!< weights per OpKind
    int encrypt_at{-1};      //!< step at which the wallet is encrypted (-1: by weight only)
    std::map<int, int> forced_imports; //!< step -> descriptor kind
    bool avoid_reuse{false}; //!< wallet created with the avoid-reuse flag (a flag set later changes what a reload derives from the mempool)
};

Plan MakePlan(int plan, int rec, uint64_t seed, int64_t steps_override)
{
    vh::Rng r(seed, 7700 + static_cast<uint64_t>(plan) * 16 + static_cast<uint64_t>(rec));
    Plan p;
    //            NEWADDR NEWCHG SETLBL DELLBL LOCK UNLOCK TOPUP IMPORT REMTX SEND RELOAD ENCRYPT WLOCK WUNLOCK SETFLAG
    if (plan == 42) {
        p.keypool = 2 + static_cast<int>(r.below(3));
        p.init_imports = static_cast<int>(r.below(4));
        p.steps = 12;
        p.w = {4, 2, 1, 0, 0, 0, 1, 0, 0, 0, 0, 0, 0, 0, 0};
        p.encrypt_at = 4 + static_cast<int>(r.below(3));
    } else if (plan == 43) {
        p.keypool = 2 + static_cast<int>(r.below(3));
        p.fund = true;
        p.init_imports = 2;
        p.steps = 34;
        p.w = {5, 3, 5, 5, 3, 2, 7, 4, 3, 4, 2, 0, 1, 2, 0};
        p.avoid_reuse = (rec % 3) == 2;
        p.forced_imports = {{2, (rec % 2) ? 0 : 5}, {7, 2 + rec % 3}};
        p.encrypt_at = (rec % 2) ? 12 + static_cast<int>(r.below(8)) : -1;
    } else { // 62
        p.keypool = 1 + static_cast<int>((seed + static_cast<uint64_t>(rec)) % 5);
        p.init_imports = 0;
        p.init_active_hard = true;
        p.encrypt_in_init = (rec % 2) == 0;
        p.steps = 46;
        p.w = {14, 9, 1, 0, 0, 0, 3, 0, 0, 0, 3, 0, 4, 1, 0};
    }
    if (steps_override > 0) p.steps = static_cast<int>(steps_override);
    return p;
}

void FundWallet(WalletSim& sim, Runner& R)
{
    vh::Rng& rng = R.rng;
    sim.Sync();
    // one faucet transaction paying several wallet addresses of all types, mined; then two more rounds through faucet change
    for (int round = 0; round < 3; ++round) {
        std::vector<CTxOut> outs;
        const int n = 3 + static_cast<int>(rng.below(3));
        for (int i = 0; i < n; ++i) {
            const int t = static_cast<int>(rng.below(4));
            auto d = sim.W().GetNewDestination(OTYPES[t], rng.coin() ? "fund" + std::to_string(round) : "");
            if (!d) throw std::runtime_error("FundWallet: no address");
            Mark("A " + EncodeDestination(*d) + " recv " + OTYPE_NAME[t]);
            outs.emplace_back(rng.range(500000, 80000000), GetScriptForDestination(*d));
        }
        auto tx = sim.FaucetTx(outs, 20000);
        if (!tx) throw std::runtime_error("FundWallet: faucet dry");
        if (!sim.Submit(tx).ok) throw std::runtime_error("FundWallet: faucet tx rejected");
        if (round < 2) {
            sim.MineMempool(WalletSim::BurnScript());
        }
        sim.Sync();
    }
    // two wallet sends: one gets mined, one stays unconfirmed
    for (int i = 0; i < 2; ++i) {
        std::vector<wallet::CRecipient> rcp;
        rcp.push_back(wallet::CRecipient{WalletSim::ForeignDest(rng, ForeignKind::P2WPKH), static_cast<CAmount>(rng.range(20000, 3000000)), false});
        wallet::CCoinControl cc;
        cc.m_feerate = CFeeRate(5000);
        cc.fOverrideFeeRate = true;
        std::string err;
        auto res = sim.Create(rcp, std::nullopt, cc, true, &err);
        if (!res) throw std::runtime_error("FundWallet: wallet send failed: " + err);
        sim.Commit(res->tx);
        sim.Drain();
        if (i == 0) sim.MineMempool(WalletSim::BurnScript());
        sim.Sync();
    }
    sim.MineEmpty(1);
    sim.Sync();
}

//! phase init on an existing WalletSim without wallet: returns after the clean unload
void DoInit(WalletSim& sim, Runner& R, const Plan& p)
{
    sim.CreateWallet();
    if (p.encrypt_in_init) {
        // EncryptWallet creates and activates a fresh descriptor set: encrypt first, import the active hardened descriptors afterwards
        CaptureKeys(sim.W(), R.km);
        if (!R.side.empty()) WriteKeysFile(R.side + "/keys.txt", R.km);
        R.keys_captured = true;
        if (!sim.W().EncryptWallet(ToSecure(R.pass))) throw std::runtime_error("init: EncryptWallet failed");
        if (!sim.W().Unlock(ToSecure(R.pass))) throw std::runtime_error("init: Unlock failed");
    }
    for (int i = 0; i < p.init_imports; ++i) {
        std::string ds;
        const int kind = p.fund ? (i == 0 ? 2 : 0) : static_cast<int>(R.rng.below(6));
        const std::string r = R.ImportDesc(kind, false, &ds);
        Mark("I import " + Clean(r));
    }
    if (p.init_active_hard) {
        // active descriptors with hardened range derivation for two output types: a locked wallet cannot top them up
        const std::string r1 = R.ImportDesc(3, true);
        const std::string r2 = R.ImportDesc(2, true);
        Mark("I import-active " + Clean(r1) + " " + Clean(r2));
    }
    if (p.fund) FundWallet(sim, R);
    for (int t = 0; t < 4; ++t) R.NewAddr(t, false);
    if (p.fund) {
        // address book entries for foreign addresses, persistent coin locks
        for (int i = 0; i < 3; ++i) {
            const CTxDestination d = WalletSim::ForeignDest(R.rng, ForeignKind::P2WPKH);
            sim.W().SetAddressBook(d, "base" + std::to_string(i), wallet::AddressPurpose::SEND);
            R.book.push_back(d);
        }
        auto coins = R.WalletCoins();
        for (size_t i = 0; i < coins.size() && i < 2; ++i) sim.Lock(coins[i], true);
    }
    if (p.encrypt_in_init) sim.W().Lock();
    sim.Drain();
}

//! book / lock bookkeeping of a freshly loaded wallet (phase run starts in a new process)
void Adopt(WalletSim& sim, Runner& R)
{
    LOCK(sim.W().cs_wallet);
    for (const auto& [dest, data] : sim.W().m_address_book) {
        if (data.purpose && *data.purpose == wallet::AddressPurpose::SEND && !sim.W().IsMine(dest)) R.book.push_back(dest);
    }
    for (ScriptPubKeyMan* spkm : sim.W().GetAllScriptPubKeyMans()) {
        auto* d = dynamic_cast<DescriptorScriptPubKeyMan*>(spkm);
        if (!d) continue;
        std::string s;
        if (d->GetDescriptorString(s, false) && s.find("h)") != std::string::npos && s.find("*h") != std::string::npos) R.hard_ids.push_back(d->GetID());
    }
    std::sort(R.hard_ids.begin(), R.hard_ids.end());
}

void RunSteps(WalletSim& sim, Runner& R, const Plan& p)
{
    R.Snap();
    for (int s = 0; s < p.steps; ++s) {
        if (auto it = p.forced_imports.find(s); it != p.forced_imports.end() && !sim.W().IsLocked()) {
            // directed: every recording contains a labelled single-key import and a hardened-range import
            R.Begin(IMPORT, "import", "kind" + std::to_string(it->second));
            try {
                R.End(IMPORT, R.ImportDesc(it->second, /*active=*/false));
            } catch (const std::runtime_error& e) {
                R.End(IMPORT, std::string("exception:") + e.what());
            }
            continue;
        }
        if (s == p.encrypt_at && !sim.W().HasEncryptionKeys()) {
            R.Begin(ENCRYPT, "encrypt", "");
            R.End(ENCRYPT, R.Encrypt());
            continue;
        }
        R.Step(p.w);
    }
}

std::vector<unsigned char> PassFor(uint64_t seed, int plan, int rec)
{
    vh::Rng r(seed, 9100 + static_cast<uint64_t>(plan) * 16 + static_cast<uint64_t>(rec));
    switch ((seed + static_cast<uint64_t>(rec)) % 4) {
    case 0: return {'x'};
    case 1: {
        std::vector<unsigned char> v = {0xc3, 0xa9, 0xe2, 0x82, 0xac, ' ', 0xf0, 0x9f, 0x94, 0x91, 'p'};
        return v;
    }
    case 2: return r.bytes(1024);
    default: {
        std::vector<unsigned char> v;
        const size_t n = 8 + r.below(24);
        for (size_t i = 0; i < n; ++i) v.push_back(static_cast<unsigned char>(0x21 + r.below(0x5e)));
        return v;
    }
    }
}

void EmitCounts(const Runner& R)
{
    for (const auto& [k, v] : R.count) vh::log().obs(k, v);
}

} // namespace

// =========================================================================================================================================
// wcrash_load
// =========================================================================================================================================
VH_CMD(wcrash_load)
{
    const std::string phase = args.gets("phase", "");
    const std::string dir = args.gets("dir", "");
    const int plan = static_cast<int>(args.geti("plan", 43));
    const int rec = static_cast<int>(args.geti("rec", 1));
    if (dir.empty() || (phase != "init" && phase != "run")) {
        std::fprintf(stderr, "wcrash_load: need --p phase=init|run --p dir=PATH\n");
        return 2;
    }
    const std::string side = dir + ".side";
    const Plan p = MakePlan(plan, rec, args.seed, args.geti("steps", 0));
    Options o;
    o.keypool = p.keypool;
    o.unsafe_sqlite_sync = false; // real fsyncs
    o.create_wallet = false;
    o.avoid_reuse = p.avoid_reuse;
    fs::create_directories(fs::PathFromString(dir));
    fs::create_directories(fs::PathFromString(side));
    WalletSim sim(o);
    gArgs.ForceSetArg("-walletdir", dir);
    Runner R(sim, args.seed, 7000 + static_cast<uint64_t>(plan) * 16 + static_cast<uint64_t>(rec) + (phase == "run" ? 500 : 0), side);
    R.pass = PassFor(args.seed, plan, rec);
    if (phase == "init") {
        g_journal = false;
        DoInit(sim, R, p);
        WITH_LOCK(sim.W().cs_wallet, sim.W().WriteBestBlock());
        const std::string canon = CanonDump(sim.W());
        const std::string raw = RawDump(sim.W().GetDatabase());
        CleanUnload(sim);
        SaveChain(sim, side + "/chain.dat");
        {
            std::ofstream f(side + "/dumps.txt", std::ios::app);
            f << "### raw " << Dig(raw) << "\n" << raw << "### canon " << Dig(canon) << "\n" << canon;
        }
        vh::log().rec(vh::J().u("case", 0).str("phase", "init").i("plan", plan).i("rec", rec).i("keypool", p.keypool).str("pass", vh::Hex(R.pass)).str("raw", Dig(raw)).str("canon", Dig(canon))
                          .b("encrypted", p.encrypt_in_init).i("height", sim.TipHeight()).raw("files", FileList(fs::PathFromString(dir))));
        EmitCounts(R);
        return 0;
    }
    // ---- run: restart on the base image
    ReplayChain(sim, side + "/chain.dat");
    g_journal = true;
    if (p.encrypt_in_init) R.keys_captured = true;
    Mark("OB 0 load multi");
    sim.LoadWallet();
    sim.Drain();
    Mark("OE 0 load ok");
    Adopt(sim, R);
    RunSteps(sim, R, p);
    Mark("OB 999 unload multi");
    CleanUnload(sim);
    Mark("OE 999 unload ok");
    g_journal = false;
    vh::log().rec(vh::J().u("case", 0).str("phase", "run").i("plan", plan).i("rec", rec).i("keypool", p.keypool).str("pass", vh::Hex(R.pass)).i("ops", R.opn)
                      .raw("files", FileList(fs::PathFromString(dir))));
    EmitCounts(R);
    return 0;
}

// =========================================================================================================================================
// wcrash_recover
// =========================================================================================================================================
namespace {
struct RecoverCfg {
    std::string side;
    int naddr{0};
    std::vector<unsigned char> pass;
    KeyMaterial km;
    bool have_keys{false};
};

void ClearMempool(WalletSim& sim)
{
    for (int round = 0; round < 50; ++round) {
        auto all = sim.Pool().infoAll();
        if (all.empty()) break;
        LOCK2(cs_main, sim.Pool().cs);
        for (const auto& info : all) sim.Pool().removeRecursive(*info.tx, MemPoolRemovalReason::EXPIRY);
    }
    sim.Drain();
}

//! load one image on the running node and report
void RecoverOne(WalletSim& sim, uint64_t img, const std::string& dir, const RecoverCfg& cfg)
{
    const int naddr = cfg.naddr;
    const std::vector<unsigned char>& pass = cfg.pass;
    const KeyMaterial& km = cfg.km;
    const bool have_keys = cfg.have_keys;
    const auto t_start = std::chrono::steady_clock::now();
    auto stage = [&](const char* s) {
        vh::log().line(vh::J().str("stage", s).u("img", img).i("ms", std::chrono::duration_cast<std::chrono::milliseconds>(std::chrono::steady_clock::now() - t_start).count()).done());
    };
    vh::set_case(img);
    vh::J res;
    res.u("case", img);
    // the image as found: secrets in its files
    {
        int64_t files = 0, bytes = 0;
        const auto hits = ScanDir(fs::PathFromString(dir), km, &files, &bytes);
        res.raw("scan_before_load", vh::JArr(hits)).i("scan_files", files).i("scan_bytes", bytes).raw("files", FileList(fs::PathFromString(dir)));
    }
    gArgs.ForceSetArg("-walletdir", dir);
    std::string failed, detail;
    std::vector<std::string> warn;
    std::shared_ptr<CWallet> w;
    stage("open");
    std::unique_ptr<wallet::WalletDatabase> database;
    {
        wallet::DatabaseOptions options;
        options.require_existing = true;
        wallet::ReadDatabaseArgs(*sim.Context().args, options);
        wallet::DatabaseStatus status;
        bilingual_str error;
        try {
            database = wallet::MakeWalletDatabase("", options, status, error);
            if (!database) {
                failed = "open";
                detail = error.original;
            }
        } catch (const std::exception& e) {
            failed = "open";
            detail = std::string("exception: ") + e.what();
        }
    }
    if (failed.empty()) {
        stage("raw");
        try {
            std::map<std::string, int> census;
            const std::string raw = RawDump(*database, &census);
            res.str("raw", raw);
            std::vector<std::string> cs;
            for (const auto& [t, n] : census) cs.push_back(vh::JStr(t + ":" + std::to_string(n)));
            res.raw("census", vh::JArr(cs));
        } catch (const std::exception& e) {
            failed = "raw";
            detail = e.what();
        }
    }
    if (failed.empty()) {
        stage("load");
        bilingual_str error;
        std::vector<bilingual_str> warnings;
        try {
            w = CWallet::LoadExisting(sim.Context(), "", std::move(database), error, warnings);
            if (!w) {
                failed = "load";
                detail = error.original;
            }
        } catch (const std::exception& e) {
            failed = "load";
            detail = std::string("exception: ") + e.what();
        }
        for (const auto& x : warnings) warn.push_back(vh::JStr(x.original));
    }
    if (failed.empty()) {
        stage("postinit");
        wallet::NotifyWalletLoaded(sim.Context(), w);
        w->postInitProcess();
        sim.Drain();
        stage("dump");
        res.str("canon", CanonDump(*w));
        res.b("encrypted", w->HasEncryptionKeys()).b("locked", w->IsLocked());
        // ---- new addresses in the state a restart leaves the wallet in (an encrypted wallet is locked)
        if (naddr > 0) {
            stage("addresses");
            std::vector<std::string> got;
            int failures = 0;
            for (int round = 0; round < naddr; ++round) {
                for (int t = 0; t < 4; ++t) {
                    for (int change = 0; change < 2; ++change) {
                        auto r = change ? w->GetNewChangeDestination(OTYPES[t]) : w->GetNewDestination(OTYPES[t], "");
                        if (r) got.push_back(vh::JStr(EncodeDestination(*r)));
                        else ++failures;
                    }
                }
            }
            res.raw("new_addresses", vh::JArr(got)).i("new_address_failures", failures);
        }
        // ---- keys
        if (have_keys) {
            stage("keys");
            const bool enc = w->HasEncryptionKeys();
            auto sign_all = [&](int& ok, int& bad, int& none) {
                ok = bad = none = 0;
                for (const auto& [t, spk] : km.tests) {
                    const int r = SignAndVerify(*w, spk);
                    (r == 1 ? ok : r == 0 ? none : bad)++;
                }
            };
            auto getkeys = [&] {
                int n = 0;
                LOCK(w->cs_wallet);
                for (const auto& id : km.keyids) {
                    if (w->GetKey(id)) ++n;
                }
                return n;
            };
            auto priv_match = [&](int& same, int& missing, int& differ) {
                same = missing = differ = 0;
                KeyMaterial now;
                CaptureKeys(*w, now);
                for (const auto& [id, p] : km.priv) {
                    auto it = now.priv.find(id);
                    if (it == now.priv.end()) ++missing;
                    else if (it->second == p) ++same;
                    else ++differ;
                }
            };
            int ok, bad, none, same, missing, differ;
            res.i("tests", km.tests.size()).i("orig_descs", km.priv.size()).i("orig_keys", km.keyids.size());
            if (enc) {
                sign_all(ok, bad, none);
                res.i("locked_sign_ok", ok + bad).i("locked_getkey", getkeys());
                SecureString wrong = ToSecure(pass);
                wrong.push_back('!');
                const bool uw = w->Unlock(wrong);
                res.b("unlock_wrong", uw);
                if (uw) w->Lock();
                const bool ur = w->Unlock(ToSecure(pass));
                res.b("unlock_right", ur);
            }
            sign_all(ok, bad, none);
            priv_match(same, missing, differ);
            res.i("sign_ok", ok).i("sign_bad", bad).i("sign_none", none).i("getkey", getkeys()).i("priv_same", same).i("priv_missing", missing).i("priv_differ", differ);
            if (enc) w->Lock();
        }
        stage("unload");
        wallet::TestUnloadWallet(std::move(w));
        w.reset();
        {
            const auto hits = ScanDir(fs::PathFromString(dir), km);
            res.raw("scan_after_unload", vh::JArr(hits));
        }
    }
    stage("done");
    res.b("ok", failed.empty()).str("failed", failed).str("detail", detail).raw("warnings", vh::JArr(warn));
    vh::log().rec(res);
    ClearMempool(sim);
}
} // namespace

// One node per process; images: --p dir=IMG (one image, case index = --from) or --p list=FILE with lines "<image id> <directory>".
VH_CMD(wcrash_recover)
{
    RecoverCfg cfg;
    cfg.side = args.gets("side", "");
    cfg.naddr = static_cast<int>(args.geti("naddr", 0));
    cfg.pass = vh::UnHex(args.gets("pass", ""));
    cfg.have_keys = !args.gets("keys", "").empty() && ReadKeysFile(args.gets("keys", ""), cfg.km);
    std::vector<std::pair<uint64_t, std::string>> images;
    if (!args.gets("list", "").empty()) {
        std::ifstream f(args.gets("list", ""));
        uint64_t id;
        std::string d;
        while (f >> id >> d) images.emplace_back(id, d);
    } else if (!args.gets("dir", "").empty()) {
        images.emplace_back(args.from, args.gets("dir", ""));
    }
    if (images.empty()) return 2;
    vh::log().line(vh::J().str("stage", "node").u("img", images.front().first).i("ms", 0).done());
    Options o;
    o.keypool = static_cast<int>(args.geti("keypool", 3));
    // durability of what the recovery itself writes is irrelevant: PRAGMA synchronous=OFF only removes the fsync calls (sync=1: keep them)
    o.unsafe_sqlite_sync = args.geti("sync", 0) == 0;
    o.create_wallet = false;
    WalletSim sim(o);
    if (!cfg.side.empty()) ReplayChain(sim, cfg.side + "/chain.dat");
    for (const auto& [id, d] : images) RecoverOne(sim, id, d, cfg);
    return 0;
}

// =========================================================================================================================================
// wallet_encrypt (C42, in-process)
// =========================================================================================================================================
namespace {
std::vector<unsigned char> PassClass(vh::Rng& rng, int cls)
{
    switch (cls) {
    case 0: return {};
    case 1: return {static_cast<unsigned char>(0x21 + rng.below(0x5e))};
    case 2: {
        auto v = rng.bytes(1024);
        for (auto& c : v) c = static_cast<unsigned char>(0x20 + c % 0x5f);
        return v;
    }
    case 3: return {0xce, 0xba, 0xce, 0xbb, 0xce, 0xb5, 0xce, 0xb9, 0xce, 0xb4, 0xce, 0xaf, ' ', 0xe9, 0x92, 0xa5, 0xe5, 0x8c, 0x99, 0xf0, 0x9f, 0x94, 0x90};
    case 4: {
        auto v = rng.bytes(12 + rng.below(20));
        v[3] = 0; // NUL inside
        v.back() = 0;
        return v;
    }
    default: {
        std::vector<unsigned char> v;
        const size_t n = 6 + rng.below(40);
        for (size_t i = 0; i < n; ++i) v.push_back(static_cast<unsigned char>(0x20 + rng.below(0x5f)));
        return v;
    }
    }
}

//! wallet RPC handler by name, called the way the RPC server calls it. Returns "ok" or the error message.
std::string CallWalletRpc(wallet::WalletContext& ctx, const std::string& method, const std::vector<std::string>& params)
{
    for (const CRPCCommand& c : wallet::GetWalletRPCCommands()) {
        if (c.name != method) continue;
        JSONRPCRequest req;
        req.context = &ctx;
        req.strMethod = method;
        req.params = UniValue(UniValue::VARR);
        for (const auto& p : params) req.params.push_back(p);
        UniValue result;
        try {
            c.actor(req, result, true);
            return "ok";
        } catch (const UniValue& e) {
            const UniValue& m = e.find_value("message");
            return "error:" + (m.isStr() ? m.get_str() : e.write());
        } catch (const std::exception& e) {
            return std::string("exception:") + e.what();
        }
    }
    return "no-such-method";
}
} // namespace

VH_CMD(wallet_encrypt)
{
    const char* tmp = std::getenv("TMPDIR");
    for (uint64_t c = args.from; c < args.to; ++c) {
        vh::set_case(c);
        vh::Rng rng(args.seed, c);
        const fs::path dir = fs::PathFromString(std::string(tmp ? tmp : "/var/tmp") + "/we" + std::to_string(c) + "_" + std::to_string(::getpid()));
        fs::remove_all(dir);
        fs::create_directories(dir);
        Options o;
        o.keypool = 2 + static_cast<int>(rng.below(3));
        o.unsafe_sqlite_sync = (c % 2) == 1;
        o.create_wallet = false;
        const int cls = static_cast<int>(c % 6);
        const int nimp = static_cast<int>(rng.below(4));
        vh::J rec;
        rec.u("case", c).i("pass_class", cls).i("imports", nimp).b("unsafe_sync", o.unsafe_sqlite_sync);
        bool continue_outer = false;
        std::vector<std::string> problems; // "key|text"
        auto bad = [&](const std::string& key, const std::string& text) { problems.push_back(vh::J().str("key", key).str("msg", text).done()); };
        {
            WalletSim sim(o);
            gArgs.ForceSetArg("-walletdir", fs::PathToString(dir));
            sim.CreateWallet();
            Runner R(sim, args.seed, c ^ 0x5a5a0000, "");
            for (int i = 0; i < nimp; ++i) R.ImportDesc(static_cast<int>(rng.below(6)), false);
            for (int t = 0; t < 4; ++t) {
                R.NewAddr(t, false);
                if (rng.coin()) R.NewAddr(t, true);
            }
            KeyMaterial& km = R.km;
            if (CaptureKeys(sim.W(), km) != 0) bad("HARNESS", "private descriptor string unavailable before encryption");
            const std::vector<unsigned char> pass = PassClass(rng, cls);
            rec.i("descs", km.priv.size()).i("keys", km.keyids.size()).i("secrets", km.secrets.size()).i("tests", km.tests.size()).i("pass_len", pass.size());
            // the plain database must contain the raw secrets, otherwise the scan below would be vacuous
            {
                const auto hits = ScanDir(dir, km);
                std::set<std::string> raw_found;
                for (const auto& h : hits) {
                    if (h.find("\"kind\":\"raw32\"") != std::string::npos && h.find("\"file\":\"wallet.dat\"") != std::string::npos) raw_found.insert(h.substr(h.find("\"secret\":"), 14));
                }
                size_t nraw = 0;
                for (const auto& s : km.secrets) nraw += s.first == "raw32";
                rec.i("plain_raw_found", raw_found.size()).i("plain_raw_total", nraw);
                if (raw_found.size() == nraw) vh::log().obs("plaintext_found_before_encrypt");
            }
            const std::string dump0 = CanonDump(sim.W());
            // unencrypted wallet: all signing works
            int base_ok = 0;
            for (const auto& [t, spk] : km.tests) base_ok += SignAndVerify(sim.W(), spk) == 1;
            rec.i("base_sign_ok", base_ok);
            if (base_ok != static_cast<int>(km.tests.size())) bad("HARNESS", "unencrypted wallet cannot sign for its own scripts");

            bool encrypted = false;
            if (pass.empty()) {
                // the refusal of an empty passphrase lives in the RPC layer (encryptwallet / walletpassphrasechange)
                wallet::AddWallet(sim.Context(), sim.WalletPtr());
                const std::string r = CallWalletRpc(sim.Context(), "encryptwallet", {""});
                rec.str("rpc_empty", r);
                if (r.rfind("error:", 0) != 0 || sim.W().HasEncryptionKeys()) bad("empty-passphrase-accepted", "encryptwallet \"\" -> " + r);
                else vh::log().obs("empty_passphrase_refused");
                wallet::RemoveWallet(sim.Context(), sim.WalletPtr(), std::nullopt);
                // go on with a one-character passphrase so that the rest of the case is not wasted
            }
            const std::vector<unsigned char> pw = pass.empty() ? std::vector<unsigned char>{'e'} : pass;
            encrypted = sim.W().EncryptWallet(ToSecure(pw));
            rec.b("encrypt_ok", encrypted);
            if (!encrypted) bad("encrypt-failed", "EncryptWallet returned false");
            if (encrypted) {
                vh::log().obs("encryptions");
                CWallet& w = sim.W();
                auto scan = [&](const char* when) {
                    int64_t files = 0, bytes = 0;
                    const auto hits = ScanDir(dir, km, &files, &bytes);
                    rec.raw(std::string("scan_") + when, vh::JArr(hits)).raw(std::string("files_") + when, FileList(dir));
                    vh::log().obs("file_scans");
                    vh::log().obs("bytes_scanned", bytes);
                    return hits.size();
                };
                scan("after_encrypt");
                auto sign_all = [&](int& ok, int& badv, int& none) {
                    ok = badv = none = 0;
                    for (const auto& [t, spk] : km.tests) {
                        const int r = SignAndVerify(w, spk);
                        (r == 1 ? ok : r == 0 ? none : badv)++;
                    }
                };
                auto getkeys = [&] {
                    int n = 0;
                    LOCK(w.cs_wallet);
                    for (const auto& id : km.keyids) n += bool(w.GetKey(id));
                    return n;
                };
                auto priv_same = [&] {
                    KeyMaterial now;
                    CaptureKeys(w, now);
                    int same = 0;
                    for (const auto& [id, p] : km.priv) {
                        auto it = now.priv.find(id);
                        same += it != now.priv.end() && it->second == p;
                    }
                    return same;
                };
                int ok, bv, none;
                // locked
                rec.b("locked_after_encrypt", w.IsLocked());
                sign_all(ok, bv, none);
                rec.i("locked_signed", ok + bv).i("locked_getkey", getkeys()).i("locked_priv", priv_same());
                vh::log().obs("locked_sign_attempts", km.tests.size());
                // wrong passphrases
                std::vector<std::vector<unsigned char>> wrongs;
                {
                    auto a = pw; a.push_back('x'); wrongs.push_back(a);
                    auto b = pw; b[b.size() / 2] ^= 0x20; wrongs.push_back(b);
                    if (pw.size() > 1) { auto d = pw; d.pop_back(); wrongs.push_back(d); }
                    wrongs.push_back({});
                    auto e = pw; e.push_back(0); wrongs.push_back(e);
                }
                int wrong_accepted = 0, wrong_signed = 0;
                for (const auto& wp : wrongs) {
                    if (wp == pw) continue;
                    const bool u = w.Unlock(ToSecure(wp));
                    wrong_accepted += u;
                    sign_all(ok, bv, none);
                    wrong_signed += ok + bv;
                    if (!w.IsLocked()) w.Lock();
                    vh::log().obs("wrong_passphrase_attempts");
                }
                rec.i("wrong_accepted", wrong_accepted).i("wrong_signed", wrong_signed);
                // right passphrase
                const bool ur = w.Unlock(ToSecure(pw));
                sign_all(ok, bv, none);
                rec.b("unlock_right", ur).i("unlocked_sign_ok", ok).i("unlocked_sign_bad", bv).i("unlocked_getkey", getkeys()).i("unlocked_priv_same", priv_same());
                w.Lock();
                // change of passphrase
                std::vector<unsigned char> pw2 = PassClass(rng, 1 + static_cast<int>(rng.below(5)));
                if (pw2 == pw) pw2.push_back('2');
                auto wrong_old = pw; wrong_old.push_back('q');
                const bool ch_wrong = w.ChangeWalletPassphrase(ToSecure(wrong_old), ToSecure(pw2));
                const bool ch = w.ChangeWalletPassphrase(ToSecure(pw), ToSecure(pw2));
                rec.b("change_with_wrong_old", ch_wrong).b("change_ok", ch).i("pass2_len", pw2.size());
                if (!w.IsLocked()) w.Lock();
                const bool old_after = w.Unlock(ToSecure(pw));
                if (!w.IsLocked()) w.Lock();
                const bool new_after = w.Unlock(ToSecure(pw2));
                sign_all(ok, bv, none);
                rec.b("old_after_change", old_after).b("new_after_change", new_after).i("changed_sign_ok", ok).i("changed_priv_same", priv_same());
                w.Lock();
                vh::log().obs("passphrase_changes");
                scan("after_change");
                const std::string dump1 = CanonDump(w);
                // reload
                sim.UnloadWallet();
                scan("after_unload");
                std::string load_err;
                std::shared_ptr<CWallet> reloaded = SafeLoad(sim, load_err);
                if (!reloaded) {
                    bad("wallet-load-failed-after-encrypt", "encrypted wallet does not load after a clean unload: " + load_err);
                    rec.raw("problems", vh::JArr(problems)).str("sig", std::to_string(cls) + "/" + std::to_string(nimp) + "/" + std::to_string(o.keypool) + "/" + std::to_string(o.unsafe_sqlite_sync));
                    vh::log().rec(rec);
                    continue_outer = true;
                }
                if (reloaded) {
                CWallet& w2 = *reloaded;
                const std::string dump2 = CanonDump(w2);
                rec.b("reload_encrypted", w2.HasEncryptionKeys()).b("reload_locked", w2.IsLocked()).str("dump_before_unload", dump1).str("dump_after_reload", dump2);
                {
                    int ok2 = 0;
                    for (const auto& [t, spk] : km.tests) ok2 += SignAndVerify(w2, spk) != 0;
                    int gk = 0;
                    {
                        LOCK(w2.cs_wallet);
                        for (const auto& id : km.keyids) gk += bool(w2.GetKey(id));
                    }
                    rec.i("reload_locked_signed", ok2).i("reload_locked_getkey", gk);
                    const bool o2 = w2.Unlock(ToSecure(pw));
                    if (!w2.IsLocked()) w2.Lock();
                    const bool n2 = w2.Unlock(ToSecure(pw2));
                    int ok3 = 0;
                    for (const auto& [t, spk] : km.tests) ok3 += SignAndVerify(w2, spk) == 1;
                    KeyMaterial now;
                    CaptureKeys(w2, now);
                    int same = 0;
                    for (const auto& [id, p] : km.priv) {
                        auto it = now.priv.find(id);
                        same += it != now.priv.end() && it->second == p;
                    }
                    rec.b("reload_old_pass", o2).b("reload_new_pass", n2).i("reload_sign_ok", ok3).i("reload_priv_same", same);
                    w2.Lock();
                    vh::log().obs("reloads");
                }
                wallet::TestUnloadWallet(std::move(reloaded));
                reloaded.reset();
                scan("final");
                }
            }
            (void)dump0;
        }
        if (continue_outer) {
            fs::remove_all(dir);
            continue;
        }
        rec.raw("problems", vh::JArr(problems)).str("sig", std::to_string(cls) + "/" + std::to_string(nimp) + "/" + std::to_string(o.keypool) + "/" + std::to_string(o.unsafe_sqlite_sync));
        vh::log().rec(rec);
        fs::remove_all(dir);
    }
    return 0;
}

// =========================================================================================================================================
// wallet_restart (C43 clean-restart clause, in-process)
// =========================================================================================================================================
VH_CMD(wallet_restart)
{
    const char* tmp = std::getenv("TMPDIR");
    for (uint64_t c = args.from; c < args.to; ++c) {
        vh::set_case(c);
        const fs::path dir = fs::PathFromString(std::string(tmp ? tmp : "/var/tmp") + "/wr" + std::to_string(c) + "_" + std::to_string(::getpid()));
        fs::remove_all(dir);
        fs::create_directories(dir);
        Plan p = MakePlan(43, static_cast<int>(c % 6), args.seed + c, args.geti("steps", 0));
        p.w[RELOAD] = 6;
        Options o;
        o.keypool = p.keypool;
        o.unsafe_sqlite_sync = true;
        o.create_wallet = false;
        o.avoid_reuse = p.avoid_reuse;
        {
            WalletSim sim(o);
            gArgs.ForceSetArg("-walletdir", fs::PathToString(dir));
            Runner R(sim, args.seed, 0x770000 + c, "");
            R.pass = PassFor(args.seed + c, 43, static_cast<int>(c % 6));
            g_journal = false;
            DoInit(sim, R, p);
            RunSteps(sim, R, p);
            // final restart
            R.Step({0, 0, 0, 0, 0, 0, 0, 0, 0, 0, 1, 0, 0, 0, 0});
            vh::log().rec(vh::J().u("case", c).str("summary", "1").i("ops", R.opn).i("keypool", p.keypool));
            EmitCounts(R);
        }
        fs::remove_all(dir);
    }
    return 0;
}
