// VH_FLAVOURS: asan tsan
// E7 `conc` — C65: waiting for a new block template returns only what it promises.
//   c65_waitnext : a TestChain100Setup node, interfaces::Mining from MakeMining(); driver threads — waiters calling
//                  BlockTemplate::waitNext with random timeout / fee threshold, a miner connecting blocks, a submitter adding
//                  fee-paying transactions, an interrupter calling interruptWait() on the waiters' current templates, a clock
//                  thread stepping mock time. Every driver action and every waiter call/return is logged with a logical clock
//                  (begin/end stamps around each action); the trace specification is evaluated offline (checks/C65.py).
#include <common/vh.h>
#include <e7_conc.h>

#include <consensus/merkle.h>
#include <interfaces/mining.h>
#include <node/context.h>
#include <node/miner.h>
#include <pow.h>
#include <primitives/block.h>
#include <test/util/setup_common.h>
#include <txmempool.h>
#include <util/time.h>
#include <validation.h>

#include <atomic>
#include <chrono>
#include <map>
#include <memory>
#include <mutex>
#include <thread>

namespace {

// Logical clock. Relaxed on purpose: a release/acquire counter touched around every action would give ThreadSanitizer a
// happens-before edge between all driver threads and hide races of the code under test.
std::atomic<uint64_t> g_lc{1};
uint64_t Tick() { return g_lc.fetch_add(1, std::memory_order_relaxed); }

struct EvLog {
    std::vector<std::pair<uint64_t, std::string>> ev; // thread-confined until join
    void add(uint64_t lc, vh::J& j) { ev.emplace_back(lc, j.u("lc", lc).done()); }
};

enum HTag : uint16_t { H_CALL = e7::T_H_BASE, H_RET, H_MINE_B, H_MINE_E, H_SUB_B, H_SUB_E, H_INT_B, H_INT_E, H_CLK };

int64_t MockNowS() { return std::chrono::duration_cast<std::chrono::seconds>(NodeClock::now().time_since_epoch()).count(); }

void RealSleepUs(uint64_t us)
{
    struct timespec ts {static_cast<time_t>(us / 1000000), static_cast<long>((us % 1000000) * 1000)};
    nanosleep(&ts, nullptr);
}

struct Shared {
    std::mutex mu; // harness state below
    std::vector<std::shared_ptr<interfaces::BlockTemplate>> cur;
    std::vector<std::string> cur_id;
    std::vector<std::string> pending_call; // description of the waiter's outstanding call ("" when not waiting)
    std::atomic<bool> finish{false};
    std::atomic<int> waiters_done{0};
    std::atomic<int64_t> mock_s{0};
};

struct Spend {
    CTransactionRef tx;
    uint32_t vout;
    int height;
    CAmount value;
};

std::string TxidList(const CBlock& b)
{
    std::vector<std::string> v;
    for (size_t i = 1; i < b.vtx.size(); ++i) v.push_back(vh::JStr(b.vtx[i]->GetHash().ToString()));
    return vh::JArr(v);
}

int RunCase(const vh::Args& args, uint64_t c, e7::Affinity& aff)
{
    vh::Rng rng(args.seed, c);
    static const int CPUS[] = {1, 2, 16};
    static const uint32_t PROBS[] = {0, 100, 300, 600};
    const int ncpu = aff.Pin(CPUS[rng.below(3)], rng);
    const uint32_t prob = PROBS[rng.below(4)];
    const int n_waiters = rng.range(1, 3);
    const int waits_each = static_cast<int>(args.geti("waits", 6));
    const int n_blocks = rng.range(2, 5);
    const int n_txs = rng.range(6, 20);
    const int n_ints = rng.range(2, 8);
    const bool allow_big_jump = rng.chance(1, 2);
    // "slow clock" cases: mock time advances about as fast as real time, so that a wait really spans several of the
    // one-second ticks of WaitAndCreateNewBlock before its mock deadline (otherwise the deadline always passes within the first tick)
    const bool slow_clock = rng.chance(1, 3);

    TestOpts opts;
    opts.extra_args = {"-nodebuglogfile", "-nodebug"};
    opts.min_validation_cache = true; // avoids initialising 32 MiB of signature/script caches per node (slow under TSan)
    TestChain100Setup setup{ChainType::REGTEST, opts};
    setup.mineBlocks(20);
    auto mining = interfaces::MakeMining(setup.m_node);
    ChainstateManager& chainman = *setup.m_node.chainman;
    const CScript p2pk = CScript() << ToByteVector(setup.coinbaseKey.GetPubKey()) << OP_CHECKSIG;

    Shared sh;
    sh.cur.resize(n_waiters);
    sh.cur_id.resize(n_waiters);
    sh.pending_call.resize(n_waiters);
    sh.mock_s.store(MockNowS());
    g_lc.store(1);

    {
        LOCK(cs_main);
        const CBlockIndex* tip = chainman.ActiveChain().Tip();
        vh::log().rec(vh::J().u("case", c).str("ev", "init").str("tip", tip->GetBlockHash().ToString()).i("height", tip->nHeight).i("tip_time", tip->GetBlockTime())
                          .i("mock", MockNowS()).i("waiters", n_waiters).i("cpus", ncpu).u("prob", prob).b("slow_clock", slow_clock).b("min_difficulty_chain", chainman.GetParams().GetConsensus().fPowAllowMinDifficultyBlocks));
    }
    e7::Begin(args.seed * 31 + c, prob);

    std::vector<EvLog> logs(n_waiters + 4);
    std::vector<std::thread> threads;

    // ---- waiters --------------------------------------------------------------------------------------------------------
    for (int w = 0; w < n_waiters; ++w) {
        threads.emplace_back([&, w] {
            vh::Rng r(args.seed, c * 100 + 10 + w);
            EvLog& L = logs[w];
            int serial = 0;
            std::shared_ptr<interfaces::BlockTemplate> tmpl{mining->createNewBlock({}, /*cooldown=*/false)};
            std::string id = "w" + std::to_string(w) + "." + std::to_string(serial++);
            {
                std::lock_guard<std::mutex> l(sh.mu);
                sh.cur[w] = tmpl;
                sh.cur_id[w] = id;
            }
            for (int k = 0; k < waits_each && !sh.finish.load(); ++k) {
                static const double TO[] = {0, 300, 1500, 4000, 10000, 60000, 1800000};
                static const CAmount TH[] = {MAX_MONEY, MAX_MONEY, 0, 1, 1000, 20000, 150000, 2000000};
                node::BlockWaitOptions wo;
                const double to_ms = TO[r.below(slow_clock ? 4 : 7)];
                wo.timeout = MillisecondsDouble{to_ms};
                wo.fee_threshold = TH[r.below(8)];
                const CBlock pb = tmpl->getBlock();
                CAmount api_fees = 0;
                for (CAmount f : tmpl->getTxFees()) api_fees += f;
                const std::string desc = id + " timeout_ms=" + std::to_string(to_ms) + " threshold=" + std::to_string(wo.fee_threshold);
                {
                    std::lock_guard<std::mutex> l(sh.mu);
                    sh.pending_call[w] = desc;
                }
                e7::PointId(H_CALL);
                const int64_t mock_before = MockNowS();
                {
                    vh::J j;
                    j.u("case", c).str("ev", "call").i("w", w).str("tmpl", id).str("prev", pb.hashPrevBlock.ToString()).raw("txs", TxidList(pb)).i("api_fees", api_fees)
                        .raw("timeout_ms", std::to_string(to_ms)).i("threshold", wo.fee_threshold).i("mock", mock_before);
                    L.add(Tick(), j);
                }
                std::unique_ptr<interfaces::BlockTemplate> next = tmpl->waitNext(wo);
                const int64_t mock_after = MockNowS();
                const uint64_t lc_ret = Tick();
                e7::PointId(H_RET);
                {
                    std::lock_guard<std::mutex> l(sh.mu);
                    sh.pending_call[w].clear();
                }
                vh::J j;
                j.u("case", c).str("ev", "ret").i("w", w).str("tmpl", id).i("mock", mock_after).b("null", !next);
                if (next) {
                    const CBlock nb = next->getBlock();
                    CAmount nfees = 0;
                    for (CAmount f : next->getTxFees()) nfees += f;
                    std::string reason, debug;
                    const bool ok = mining->checkBlock(nb, {.check_merkle_root = false, .check_pow = false}, reason, debug);
                    const std::string tip_now = WITH_LOCK(cs_main, return chainman.ActiveChain().Tip()->GetBlockHash().ToString());
                    const std::string nid = "w" + std::to_string(w) + "." + std::to_string(serial++);
                    j.str("new_tmpl", nid).str("prev", nb.hashPrevBlock.ToString()).raw("txs", TxidList(nb)).i("api_fees", nfees).i("block_time", nb.nTime)
                        .b("check_ok", ok).str("check_reason", reason).str("tip_at_check", tip_now);
                    tmpl = std::move(next);
                    id = nid;
                    std::lock_guard<std::mutex> l(sh.mu);
                    sh.cur[w] = tmpl;
                    sh.cur_id[w] = id;
                }
                L.add(lc_ret, j);
                if (r.chance(1, 3)) RealSleepUs(r.below(20000));
            }
            {
                std::lock_guard<std::mutex> l(sh.mu);
                sh.cur[w].reset();
            }
            sh.waiters_done.fetch_add(1);
        });
    }

    // ---- miner ------------------------------------------------------------------------------------------------------------
    threads.emplace_back([&] {
        vh::Rng r(args.seed, c * 100 + 1);
        EvLog& L = logs[n_waiters];
        for (int b = 0; b < n_blocks; ++b) {
            RealSleepUs(r.range(30000, 350000));
            auto t = mining->createNewBlock({.use_mempool = !r.chance(1, 4)}, /*cooldown=*/false);
            if (!t) continue;
            CBlock block = t->getBlock();
            block.hashMerkleRoot = BlockMerkleRoot(block);
            while (!CheckProofOfWork(block.GetHash(), block.nBits, chainman.GetConsensus())) ++block.nNonce;
            auto sp = std::make_shared<const CBlock>(block);
            e7::PointId(H_MINE_B);
            {
                vh::J j;
                j.u("case", c).str("ev", "mine_b").str("hash", sp->GetHash().ToString()).str("prev", sp->hashPrevBlock.ToString());
                L.add(Tick(), j);
            }
            const bool acc = chainman.ProcessNewBlock(sp, /*force_processing=*/true, /*min_pow_checked=*/true, nullptr);
            const std::string tip = WITH_LOCK(cs_main, return chainman.ActiveChain().Tip()->GetBlockHash().ToString());
            {
                vh::J j;
                j.u("case", c).str("ev", "mine_e").str("hash", sp->GetHash().ToString()).str("tip", tip).b("accepted", acc).i("block_time", sp->nTime).u("ntx", sp->vtx.size() - 1);
                L.add(Tick(), j);
            }
            e7::PointId(H_MINE_E);
        }
    });

    // ---- submitter --------------------------------------------------------------------------------------------------------
    threads.emplace_back([&] {
        vh::Rng r(args.seed, c * 100 + 2);
        EvLog& L = logs[n_waiters + 1];
        std::vector<Spend> pool;
        for (int i = 0; i < 20; ++i) pool.push_back(Spend{setup.m_coinbase_txns[i], 0, i + 1, setup.m_coinbase_txns[i]->vout[0].nValue});
        for (int t = 0; t < n_txs && !pool.empty(); ++t) {
            RealSleepUs(r.range(2000, 60000));
            const size_t k = r.below(pool.size());
            const Spend sp = pool[k];
            pool.erase(pool.begin() + k);
            static const CAmount FEES[] = {1000, 5000, 20000, 100000, 1000000};
            const CAmount fee = FEES[r.below(5)];
            if (sp.value <= fee + 1000) continue;
            CMutableTransaction mtx = setup.CreateValidMempoolTransaction(sp.tx, sp.vout, sp.height, setup.coinbaseKey, p2pk, sp.value - fee, /*submit=*/false);
            CTransactionRef tx = MakeTransactionRef(mtx);
            e7::PointId(H_SUB_B);
            {
                vh::J j;
                j.u("case", c).str("ev", "sub_b").str("txid", tx->GetHash().ToString()).i("fee", fee);
                L.add(Tick(), j);
            }
            bool ok;
            std::string why;
            {
                LOCK(cs_main);
                const MempoolAcceptResult res = chainman.ProcessTransaction(tx);
                ok = res.m_result_type == MempoolAcceptResult::ResultType::VALID;
                if (!ok) why = res.m_state.ToString();
            }
            {
                vh::J j;
                j.u("case", c).str("ev", "sub_e").str("txid", tx->GetHash().ToString()).b("accepted", ok).str("why", why);
                L.add(Tick(), j);
            }
            e7::PointId(H_SUB_E);
            if (ok) pool.push_back(Spend{tx, 0, 0, sp.value - fee});
        }
    });

    // ---- interrupter ------------------------------------------------------------------------------------------------------
    threads.emplace_back([&] {
        vh::Rng r(args.seed, c * 100 + 3);
        EvLog& L = logs[n_waiters + 2];
        for (int i = 0; i < n_ints; ++i) {
            RealSleepUs(r.range(10000, 250000));
            std::shared_ptr<interfaces::BlockTemplate> t;
            std::string id;
            {
                std::lock_guard<std::mutex> l(sh.mu);
                const int w = static_cast<int>(r.below(n_waiters));
                t = sh.cur[w];
                id = sh.cur_id[w];
            }
            if (!t) continue;
            e7::PointId(H_INT_B);
            {
                vh::J j;
                j.u("case", c).str("ev", "int_b").str("tmpl", id);
                L.add(Tick(), j);
            }
            t->interruptWait();
            {
                vh::J j;
                j.u("case", c).str("ev", "int_e").str("tmpl", id);
                L.add(Tick(), j);
            }
            e7::PointId(H_INT_E);
        }
    });

    // ---- clock ------------------------------------------------------------------------------------------------------------
    std::atomic<bool> clock_stop{false};
    std::thread clock([&] {
        vh::Rng r(args.seed, c * 100 + 4);
        EvLog& L = logs[n_waiters + 3];
        while (!clock_stop.load()) {
            const bool fin = sh.finish.load();
            RealSleepUs(slow_clock && !fin ? r.range(300000, 700000) : r.range(5000, 40000));
            int64_t step = slow_clock ? r.range(0, 1) : r.range(0, 3);
            if (sh.finish.load()) step = 7200;
            else if (slow_clock) {}
            else if (allow_big_jump && r.chance(1, 30)) step = 1260 + r.range(0, 60);
            else if (r.chance(1, 25)) step = 30;
            const int64_t t = sh.mock_s.load() + step;
            sh.mock_s.store(t);
            SetMockTime(std::chrono::seconds{t});
            e7::PointId(H_CLK);
            vh::J j;
            j.u("case", c).str("ev", "clk").i("mock", t).i("step", step);
            L.add(Tick(), j);
        }
    });

    // ---- join -------------------------------------------------------------------------------------------------------------
    for (size_t i = n_waiters; i < threads.size(); ++i) threads[i].join();
    if (slow_clock) {
        // let the waiters run against the slow clock for a while before the clock is fast-forwarded
        for (int ms = 0; ms < 25000 && sh.waiters_done.load() < n_waiters; ms += 50) RealSleepUs(50000);
    }
    sh.finish.store(true);
    const int stuck_s = static_cast<int>(args.geti("stuck_s", 180));
    for (int waited_ms = 0; sh.waiters_done.load() < n_waiters; waited_ms += 50) {
        RealSleepUs(50000);
        if (waited_ms > stuck_s * 1000) {
            std::string pend;
            {
                std::lock_guard<std::mutex> l(sh.mu);
                for (auto& p : sh.pending_call) {
                    if (!p.empty()) pend += p + "; ";
                }
            }
            vh::log().violation("wait-does-not-return", "waitNext did not return although the mock deadline has long passed (mock clock was advanced by hours)",
                                vh::J().str("pending", pend).i("real_seconds", stuck_s));
            vh::log().close();
            _exit(0);
        }
    }
    for (int w = 0; w < n_waiters; ++w) threads[w].join();
    clock_stop.store(true);
    clock.join();

    std::vector<std::pair<uint64_t, std::string>> all;
    for (auto& l : logs) all.insert(all.end(), l.ev.begin(), l.ev.end());
    std::sort(all.begin(), all.end(), [](auto& a, auto& b) { return a.first < b.first; });
    for (auto& e : all) vh::log().line(e.second);
    const auto evs = e7::Collect();
    const uint64_t fp = e7::Fingerprint(evs);
    vh::log().obs("perturbations", e7::g_perturbations.exchange(0));
    vh::log().rec(vh::J().u("case", c).str("ev", "case_end").u("events", all.size()).str("fp", vh::Hex(reinterpret_cast<const unsigned char*>(&fp), 8)));
    aff.Restore();
    return 0;
}

} // namespace

VH_CMD(c65_waitnext)
{
    e7::Affinity aff;
    for (uint64_t c = args.from; c < args.to; ++c) {
        vh::set_case(c);
        RunCase(args, c, aff);
    }
    return 0;
}
