// sim_mempool: reusable building blocks of engine E2 `mempoolsim` (DESIGN §3-E2), layered on sim_chain.h.
//
//   MpOpts / InstallMempool   mempool options as case parameters (sub-megabyte -maxmempool, cluster count/size limits,
//                             expiry) - the node's CTxMemPool is rebuilt from them while the chain is still at genesis.
//   MempoolRecorder           CValidationInterface subscriber: TransactionAddedToMempool / TransactionRemovedFromMempool
//                             (reason) / MempoolTransactionsRemovedForBlock / BlockConnected / BlockDisconnected in order.
//   MempoolShadow             own bookkeeping of what was accepted / removed (fed from the recorder); compared with the pool.
//   PoolSnap / SnapPool       copy of the pool's observable state taken under cs_main + pool.cs (entries with fees, sizes,
//                             times, the pool's own parent/child answers, mapDeltas, unbroadcast set, totals, memory usage,
//                             min fee) + a content hash (what test-accept must not change).
//   TxGen                     transaction / package generator (valid, chained, conflicting, TRUC v3 parent/child/sibling and
//                             violations, ephemeral dust, fees at and around every threshold, non-standard, premature,
//                             non-final, missing inputs, broken signatures, stripped witness, witness twins, duplicates,
//                             big / sigop-heavy txs; 1..26-tx packages of random topology incl. ill-formed ones).
//   SubmitTx / SubmitPackage / Prioritise / MakeTemplate   thin wrappers over ChainstateManager::ProcessTransaction,
//                             ProcessNewPackage, CTxMemPool::PrioritiseTransaction, node::BlockAssembler.
//   Monitors                  M-mp-consistent (CheckMempoolConsistent), M-mp-asblock (CheckMempoolAsBlock), CheckShadow,
//                             CheckLimits (C27 topology/resource clauses), CheckTemplate (C23), own package predicates.
//
// Everything lives in namespace `sim`. Layers above (RBF, cache twins, mempool persistence) add to it; do not rename.
//
// Typical use (see e2_mempoolsim.cpp):
//     sim::NodeOpts no; sim::SimNode node(no);
//     sim::MpOpts mo; mo.max_size_bytes = 300'000; mo.cluster_count = 8;  sim::InstallMempool(node, mo);
//     sim::RefLedger led(sim::RefParams::FromNodeOpts(no)); sim::KeyRing keys(rng, 6); sim::BlockBuilder bb(led, keys);
//     sim::MpSim mp(node, led, keys, rng);                    // recorder + shadow + generator + script memo
//     ... build a base chain with mp.gen.BaseBlockSpec()/Deliver ...
//     sim::PoolSnap snap = sim::SnapPool(node, true);
//     sim::GenTx g = mp.gen.Make(sim::TxKind::VALID, snap);
//     sim::TxResult t = sim::SubmitTx(node, g.tx, /*test_accept=*/true), r = sim::SubmitTx(node, g.tx, false);
//     mp.Absorb();                                            // drain events into the shadow
//     snap = sim::SnapPool(node, true);
//     auto v = sim::CheckMempoolConsistent(node, led, snap, mp.memo); auto w = sim::CheckMempoolAsBlock(node, led, bb, snap);
#ifndef VERIF_HARNESS_SIM_MEMPOOL_H
#define VERIF_HARNESS_SIM_MEMPOOL_H

#include <sim_chain.h>

#include <kernel/mempool_removal_reason.h>
#include <node/miner.h>
#include <policy/feerate.h>
#include <policy/packages.h>
#include <txmempool.h>

#include <map>
#include <memory>
#include <optional>
#include <set>
#include <string>
#include <vector>

namespace sim {

// ---------------------------------------------------------------------------------------------------------
// Mempool options (case parameters).
struct MpOpts {
    int64_t max_size_bytes{300'000'000};   //!< -maxmempool equivalent in BYTES (the option itself only takes MB)
    unsigned cluster_count{64};            //!< -limitclustercount
    int64_t cluster_size_vbytes{101'000};  //!< -limitclustersize equivalent in vbytes (the option takes kvB)
    int64_t expiry_s{336 * 3600};          //!< -mempoolexpiry equivalent in seconds
    bool require_standard{true};           //!< !-acceptnonstdtxn
    std::string Describe() const;          //!< JSON object
};
//! Replace the node's mempool by one built from `o` (check_ratio=1, signals attached; everything else default) and
//! rebuild the ChainstateManager so that the chainstate points at it. Call right after constructing the SimNode (chain at
//! genesis, in-memory DBs): the chain state is recreated from scratch. Throws if the options are refused by CTxMemPool.
void InstallMempool(SimNode& node, const MpOpts& o);

// ---------------------------------------------------------------------------------------------------------
// Validation-interface events concerning the mempool, in emission order.
struct MpEvent {
    enum Kind { ADDED, REMOVED, BLOCK_REMOVED, CONNECTED, DISCONNECTED } kind;
    CTransactionRef tx;                 //!< ADDED / REMOVED / BLOCK_REMOVED
    MemPoolRemovalReason reason{MemPoolRemovalReason::BLOCK}; //!< REMOVED (BLOCK_REMOVED: BLOCK)
    CAmount fee{0};                     //!< ADDED / BLOCK_REMOVED: base fee reported by the node
    int64_t vsize{0};                   //!< ADDED / BLOCK_REMOVED: virtual size reported by the node
    bool bypassed{false};               //!< ADDED: added without fee limits (reorg re-insertion)
    bool in_package{false};             //!< ADDED: submitted through the package path
    uint64_t seq{0};                    //!< mempool sequence number of the event (ADDED / REMOVED)
    uint256 block;                      //!< CONNECTED / DISCONNECTED / BLOCK_REMOVED
    int height{-1};
};
const char* ReasonName(MemPoolRemovalReason r);

class MempoolRecorder final : public CValidationInterface
{
    mutable std::mutex m_mutex;
    std::vector<MpEvent> m_events;

public:
    std::vector<MpEvent> Take(); //!< take and clear (call SimNode::Sync() first)

protected:
    void TransactionAddedToMempool(const NewMempoolTransactionInfo& tx, uint64_t mempool_sequence) override;
    void TransactionRemovedFromMempool(const CTransactionRef& tx, MemPoolRemovalReason reason, uint64_t mempool_sequence) override;
    void MempoolTransactionsRemovedForBlock(const std::shared_ptr<const CBlock>& block, const std::vector<RemovedMempoolTransactionInfo>& txs_removed_for_block, unsigned int block_height) override;
    void BlockConnected(const kernel::ChainstateRole& role, const std::shared_ptr<const CBlock>& block, const CBlockIndex* pindex) override;
    void BlockDisconnected(const std::shared_ptr<const CBlock>& block, const CBlockIndex* pindex) override;
};

// ---------------------------------------------------------------------------------------------------------
// Shadow: what the event stream says the pool contains.
struct ShadowEntry {
    CTransactionRef tx;
    CAmount fee{0};
    int64_t vsize{0};
    bool bypassed{false};
    bool in_package{false};
    uint64_t seq{0};
};
class MempoolShadow
{
public:
    std::map<Txid, ShadowEntry> entries;
    //! Apply events; returns the number of removals of transactions the shadow did not hold (legitimate only for a
    //! transaction that was added and trimmed/expired within one acceptance call, which emits no ADDED event).
    size_t Apply(const std::vector<MpEvent>& evs);
    bool Has(const Txid& t) const { return entries.count(t) > 0; }
};

// ---------------------------------------------------------------------------------------------------------
// Snapshot of the real pool.
struct PoolEntry {
    CTransactionRef tx;
    CAmount fee{0}, modfee{0};
    int64_t vsize{0};      //!< CTxMemPoolEntry::GetTxSize (sigop-adjusted)
    int64_t weight{0};     //!< GetTxWeight
    int64_t sigops{0};     //!< GetSigOpCost
    int64_t time{0};       //!< entry time (s)
    unsigned height{0};    //!< entry height
    uint64_t seq{0};       //!< entry sequence
    bool spends_coinbase{false};
    std::vector<Txid> pool_parents, pool_children; //!< what CTxMemPool::GetParents/GetChildren answer (sorted); only with_links
};
struct PoolSnap {
    std::map<Txid, PoolEntry> entries;
    std::map<Txid, CAmount> deltas;      //!< mapDeltas
    std::set<Txid> unbroadcast;
    std::map<COutPoint, Txid> next_tx;   //!< mapNextTx: outpoint -> spender
    CAmount total_fee{0};                //!< GetTotalFee()
    uint64_t total_size{0};              //!< GetTotalTxSize()
    size_t count{0};                     //!< size()
    size_t mem_usage{0};                 //!< DynamicMemoryUsage()
    CAmount min_fee_per_k{0};            //!< GetMinFee().GetFeePerK()  (only when with_minfee: reading it updates the rolling fee state)
    uint256 tip;
    int tip_height{-1};
    bool HasSpender(const COutPoint& o) const { return next_tx.count(o) > 0; }
    //! content hash over entries (wtxid, fee, modified fee, time, height, sequence, size, sigops, coinbase flag), mapDeltas, the
    //! unbroadcast set, mapNextTx and the totals. GetTransactionsUpdated and the rolling min fee are not included.
    uint256 Hash() const;
};
PoolSnap SnapPool(SimNode& node, bool with_links, bool with_minfee = false);

// ---------------------------------------------------------------------------------------------------------
// Submission.
struct TxResult {
    MempoolAcceptResult::ResultType type{MempoolAcceptResult::ResultType::INVALID};
    TxValidationResult code{TxValidationResult::TX_RESULT_UNSET};
    std::string reason, debug;
    std::optional<int64_t> vsize;
    std::optional<CAmount> fee;
    std::optional<CAmount> eff_feerate_per_k;
    std::vector<Txid> replaced;
    std::optional<Wtxid> other_wtxid;
    bool Valid() const { return type == MempoolAcceptResult::ResultType::VALID; }
    std::string TypeName() const;
    std::string Str() const;      //!< "VALID" | "INVALID:<code>:<reason>" | "MEMPOOL_ENTRY" | "DIFFERENT_WITNESS"
    std::string ReasonClass() const; //!< reason without the parenthesised interpreter text (stable class for counters)
};
TxResult ToTxResult(const MempoolAcceptResult& r);
//! ChainstateManager::ProcessTransaction under cs_main (also runs the in-tree CTxMemPool::check).
TxResult SubmitTx(SimNode& node, const CTransactionRef& tx, bool test_accept);
struct PkgResult {
    bool state_valid{true};
    PackageValidationResult pres{PackageValidationResult::PCKG_RESULT_UNSET};
    std::string reason, debug;
    std::map<Wtxid, TxResult> tx;
    std::string Str() const;
};
//! ProcessNewPackage under cs_main, followed by the in-tree CTxMemPool::check.
PkgResult SubmitPackage(SimNode& node, const Package& pkg, bool test_accept, const std::optional<CFeeRate>& client_maxfeerate = std::nullopt);
void Prioritise(SimNode& node, const Txid& txid, CAmount delta);
//! CTxMemPool::TrimToSize / Expire called directly (under cs_main + pool.cs); returns nothing, effects arrive as events
void TrimPool(SimNode& node, size_t limit);
int ExpirePool(SimNode& node, int64_t older_than_s);

// ---------------------------------------------------------------------------------------------------------
// Own policy arithmetic (no repo policy code).
int64_t OwnVsize(int64_t weight, int64_t sigop_cost);          //!< ceil(max(weight, 20*sigops)/4)
CAmount OwnFeeAt(CAmount sat_per_kvb, int64_t vsize);          //!< ceil(rate*vsize/1000)
CAmount OwnDustThreshold(const CTxOut& out);                   //!< at the default dust relay rate 3000 sat/kvB
bool OwnIsDust(const CTxOut& out);
//! script verification flags a block at `height` is validated with (P2SH|WITNESS|TAPROOT always; DERSIG/CLTV/CSV/NULLDUMMY by deployment height)
script_verify_flags OwnBlockScriptFlags(const RefParams& p, int height);

// ---------------------------------------------------------------------------------------------------------
// Own package predicates (statement of C29): used by the monitors and by the direct differential test.
struct PkgShape {
    bool count_ok{true};      //!< <= 25 transactions
    bool weight_ok{true};     //!< total weight <= 404000 (only demanded of packages with more than one transaction)
    bool no_dups{true};       //!< no two transactions with the same txid
    bool sorted{true};        //!< no transaction spends an output of a transaction listed later (or of itself)
    bool no_conflict{true};   //!< no outpoint spent by two different list positions; no transaction without inputs
    bool child_with_parents{true}; //!< size 1, or every transaction except the last is spent by the last
    bool WellFormed() const { return count_ok && weight_ok && no_dups && sorted && no_conflict; }
    bool Evaluable() const { return WellFormed() && child_with_parents; }
    std::string Str() const;
};
PkgShape OwnPackageShape(const Package& pkg);

// ---------------------------------------------------------------------------------------------------------
// Generator.
enum class TxKind {
    VALID, CHAIN, CONFLICT, TRUC_PARENT, TRUC_CHILD, TRUC_SIBLING, TRUC_BAD, DUST_PARENT, DUST_BAD, DUST_CHILD_BAD,
    LOWFEE, NONSTD, PREMATURE, MATURE_EDGE, NONFINAL, FINAL_EDGE, MISSING, BADSIG, STRIPPED, DUP, CONFIRMED, WTWIN,
    DROPSPEND, BIG, SIGOPS, AMOUNTS, DUPINPUT, KIND_COUNT
};
const char* TxKindName(TxKind k);

enum class FeeMode { ZERO, RELAY_M1, RELAY, RELAY_P1, POOLMIN_M1, POOLMIN, LOW, RANDOM, HIGH, ABS };

struct GenTx {
    CTransactionRef tx;
    TxKind kind{TxKind::VALID};  //!< what was really built (falls back to VALID when the material for the wish is missing)
    std::string tag;             //!< sub-variant ("relay-1", "v2-child-of-v3", ...)
    CAmount fee{-1};             //!< model fee (inputs known to the generator), -1 unknown
    bool scripts_ok{true};       //!< every input script is satisfied as far as the generator knows
};

enum class PkgKind { CPFP, MULTI_PARENT, TRUC_1P1C, TRUC_BAD, EPHEMERAL, EPHEMERAL_BAD, RANDOM_TOPO, DUPLICATES, CONFLICTING, UNSORTED, TOO_MANY, TOO_HEAVY, NOT_CWP, PARENTS_LINKED, PKG_RBF, SINGLE, WITH_KNOWN, KIND_COUNT };
const char* PkgKindName(PkgKind k);
struct GenPkg {
    Package txs;
    PkgKind kind{PkgKind::CPFP};
    std::string tag;
};

class TxGen
{
public:
    TxGen(SimNode& node, RefLedger& led, const KeyRing& keys, vh::Rng& rng);

    // --- base chain support
    //! coinbase spec for base-chain / generator-mined blocks: pays a random signable script, split into 2..6 outputs
    BlockSpec BaseBlockSpec(const RefBlock* parent, uint32_t time);
    //! random signable (and standard) scriptPubKey; DROPTRUE: P2WSH of "OP_DROP OP_TRUE" (third-party malleable witness)
    CScript RandSpk();
    CScript DropTrueSpk() const { return m_droptrue_spk; }
    bool Signable(const CScript& spk) const { return m_spk.count(spk) > 0 || spk == m_droptrue_spk; }

    // --- coins
    //! unspent model coins at the active tip the generator can sign for and that no pool entry spends (mature unless allow_immature)
    std::vector<Spendable> ConfirmedCoins(const PoolSnap& snap, bool allow_immature = false, bool include_pool_spent = false);
    //! outputs of pool entries the generator can sign for and that no pool entry spends
    std::vector<Spendable> UnconfirmedCoins(const PoolSnap& snap);

    // --- single transactions
    GenTx Make(TxKind wish, const PoolSnap& snap);
    //! weighted random kind (weights indexed by TxKind; missing entries = 0)
    GenTx MakeRandom(const std::vector<uint32_t>& weights, const PoolSnap& snap);
    //! lowest-level builder: spend `ins`, `nout` random outputs (+ fixed_outs first), fee chosen by mode on the final vsize.
    //! Returns null when the inputs cannot pay for it.
    CTransactionRef Build(const std::vector<Spendable>& ins, size_t nout, FeeMode mode, CAmount fee_abs, int32_t version,
                          uint32_t locktime, const std::vector<uint32_t>& seqs, const std::vector<CTxOut>& fixed_outs, CAmount* fee_out,
                          const PoolSnap* snap = nullptr, bool small_outputs = false);
    //! sign every input (DROPTRUE inputs get a random witness item); throws when a signable input cannot be signed
    void SignAll(CMutableTransaction& mtx, const std::vector<CTxOut>& spent);
    //! a conflict with pool entry `victim`, fee at (delta = 0), below (<0) or above the replacement threshold computed from the snapshot
    GenTx MakeConflict(const Txid& victim, const PoolSnap& snap, int64_t fee_delta_from_threshold);

    // --- packages
    GenPkg MakePackage(PkgKind wish, const PoolSnap& snap);
    GenPkg MakeRandomPackage(const std::vector<uint32_t>& weights, const PoolSnap& snap);

    // --- helpers for block construction from arbitrary transactions
    //! greedily keep the candidates (in the given order) that are valid by the model on top of `parent` (inputs available incl.
    //! earlier kept ones, mature, final, BIP68); weight/sigop budget kept far below the block limits
    std::vector<CTransactionRef> SelectValidForBlock(const RefBlock* parent, const std::vector<CTransactionRef>& candidates, int64_t block_mtp_cutoff_unused = 0);

    Spendable OutputOf(const CTransactionRef& tx, uint32_t n, int height) const;
    const RefBlock* Tip();

    // the thresholds the generator aims at (read from the node's options once)
    CAmount min_relay_per_k{100};
    CAmount incremental_per_k{100};

private:
    SimNode& m_node;
    RefLedger& m_led;
    const KeyRing& m_keys;
    vh::Rng& m_rng;
    std::map<CScript, std::pair<OutType, size_t>> m_spk;
    CScript m_droptrue_ws, m_droptrue_spk;
    uint64_t m_salt{1};
    CTxOut RandOut(CAmount v);
    int64_t SigopsOf(const CTransaction& tx, const std::vector<CTxOut>& spent) const;
    GenTx Fallback(const PoolSnap& snap, const char* why);
    std::vector<Spendable> Take(std::vector<Spendable>& from, size_t n);
};

// ---------------------------------------------------------------------------------------------------------
// Templates (C23).
struct TemplateOpts {
    uint64_t max_weight{4'000'000};
    uint64_t reserved_weight{8000};
    CAmount min_feerate_per_k{1};
    size_t cb_sigops{400};
    CScript cb_script;
    std::string Describe() const;
};
//! BlockAssembler{chainstate, mempool, options}.CreateNewBlock() with test_block_validity=false. Returns null (and sets *err)
//! when the assembler throws (documented for refused options).
std::unique_ptr<node::CBlockTemplate> MakeTemplate(SimNode& node, const TemplateOpts& o, std::string* err = nullptr);

struct TemplateFacts { //!< own measurements of a template (logged for the offline re-check)
    int64_t weight{0}, sigops{0}, tx_sigops{0};
    size_t ntx{0};
    CAmount fees{0}, coinbase_value{0}, subsidy{0};
    bool topo_ok{true}, final_ok{true}, fees_vec_ok{true}, sigops_vec_ok{true}, all_from_pool{true};
    std::string tbv; //!< TestBlockValidity verdict ("" = valid)
    std::string Json() const;
};
//! C23 oracle on a template: harness-side TestBlockValidity, parents-before-children (from inputs), own weight <= option, own sigop
//! cost + reservation <= 80000, every tx final at tip+1 by the model, coinbase value == subsidy_ref + sum of model fees,
//! vTxFees / vTxSigOpsCost equal own recomputation.
Violations CheckTemplate(SimNode& node, RefLedger& led, const node::CBlockTemplate& tmpl, const TemplateOpts& o, TemplateFacts* facts = nullptr);

// ---------------------------------------------------------------------------------------------------------
// Monitors.
//! memo of successful script verifications: (wtxid, flags) -> hash of the spent outputs it was verified against
struct ScriptMemo {
    std::map<std::pair<uint256, uint64_t>, uint256> ok;
    uint64_t verifies{0}, hits{0};
};
//! real VerifyScript for every input of tx with the given flags; spent[i] = output spent by input i. Returns "" or the first failure text.
std::string VerifyAllInputs(const CTransaction& tx, const std::vector<CTxOut>& spent, script_verify_flags flags, ScriptMemo* memo);

struct MpCheckStats {
    uint64_t entries{0}, inputs{0}, chained_inputs{0}, script_checks{0};
};
//! M-mp-consistent: independent recomputation from the pool's entries + the model UTXO of the active tip (see DESIGN §3-E2).
//! Also runs the in-tree CTxMemPool::check (check_ratio=1), which aborts on failure.
Violations CheckMempoolConsistent(SimNode& node, RefLedger& led, const PoolSnap& snap, ScriptMemo& memo, MpCheckStats* st = nullptr);
//! M-mp-asblock: whole pool (or ancestor-closed subsets within block weight / sigop budgets) in topological order as a block on the
//! current tip passes TestBlockValidity. *nblocks = number of blocks tested.
Violations CheckMempoolAsBlock(SimNode& node, RefLedger& led, BlockBuilder& bb, const PoolSnap& snap, size_t* nblocks = nullptr);
//! shadow == pool (by txid and wtxid)
Violations CheckShadow(const MempoolShadow& sh, const PoolSnap& snap);

struct LimitsCtx {
    MpOpts opts;
    bool had_disconnect{false}; //!< a block was disconnected earlier in this history: TRUC topology is no longer demanded
};
struct LimitsStats {
    uint64_t clusters{0}, max_cluster_count{0}, max_cluster_weight{0}, truc_entries{0}, truc_pairs{0}, dust_entries{0};
};
//! C27 state clauses (call after an acceptance): memory usage <= max; every cluster (own union-find) within count and size limits;
//! TRUC topology while !had_disconnect.
Violations CheckLimits(const PoolSnap& snap, const LimitsCtx& ctx, LimitsStats* st = nullptr);
//! C27 acceptance clauses for the transactions newly accepted by one submission (outside reorg handling): a tx with a dust output
//! has base fee 0, modified fee 0 and exactly one dust output; a tx with an unconfirmed parent that has a dust output spends it.
Violations CheckEphemeralOnAccept(const std::vector<Txid>& newly_added, const PoolSnap& after);
//! C27 eviction clause: `evicted` = SIZELIMIT removals of one submission in event order with (modified fee, vsize) from the state
//! before / the ADDED data; min_fee_per_k = GetMinFee() right after. Sound necessary condition on the unknown chunk partition.
struct Evicted { Txid txid; CAmount modfee; int64_t vsize; };
Violations CheckEvictionMinFee(const std::vector<Evicted>& evicted, CAmount min_fee_per_k);

//! own topological order of pool entries (parents first, ties by txid); empty + *cycle=true on a cycle
std::vector<Txid> TopoOrder(const PoolSnap& snap, bool* cycle = nullptr);

// ---------------------------------------------------------------------------------------------------------
// Bundle used by engines.
struct MpSim {
    SimNode& node;
    RefLedger& led;
    std::shared_ptr<MempoolRecorder> rec;
    MempoolShadow shadow;
    TxGen gen;
    ScriptMemo memo;
    uint64_t unknown_removals{0};
    MpSim(SimNode& n, RefLedger& l, const KeyRing& k, vh::Rng& r);
    ~MpSim();
    //! Sync + drain the recorder into the shadow; returns the events
    std::vector<MpEvent> Absorb();
};

} // namespace sim

#endif // VERIF_HARNESS_SIM_MEMPOOL_H
