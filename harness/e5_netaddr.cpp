// C60: network addresses, subnets, address serializations (legacy V1 / BIP155 V2) and BanMan.
// The harness builds inputs with its own formatters (never with the node's ToString), calls the node, and logs
// inputs + answers; the oracle is /verif/pyref/net_ref.py (Python ipaddress, own BIP155 codec, reference ban list).
//
// Sub-commands:
//   subnet    LookupSubNet on CIDR / netmask / single-host / malformed strings, Match against boundary probes of every
//             network type, ToString -> LookupSubNet round trip
//   addrser   addresses of every type: V1/V2 bytes, deserialization of own and of hand-written (malformed) encodings,
//             CAddress network formats, ToStringAddr(/Port) -> parse round trips
//   banman    E6 lock-step histories on a real BanMan (banlist.json under $TMPDIR) under mock time
#include <common/vh.h>

#include <banman.h>
#include <net_types.h>
#include <netaddress.h>
#include <netbase.h>
#include <protocol.h>
#include <serialize.h>
#include <streams.h>
#include <util/fs.h>
#include <util/time.h>

#include <arpa/inet.h>
#include <netinet/in.h>

#include <cstdlib>
#include <ios>
#include <memory>
#include <string>
#include <vector>

namespace {
using Bytes = std::vector<unsigned char>;
std::string JHex(const Bytes& b) { return "\"" + vh::Hex(b) + "\""; }
std::string SHex(const std::string& s) { return "\"" + vh::Hex(s) + "\""; }

// ------------------------------------------------------------------------------------------------ describing node objects
const char* NetName(const CNetAddr& a)
{
    if (a.IsIPv4()) return "ipv4";
    if (a.IsIPv6()) return "ipv6";
    if (a.IsTor()) return "onion";
    if (a.IsI2P()) return "i2p";
    if (a.IsCJDNS()) return "cjdns";
    if (a.IsInternal()) return "internal";
    return "?";
}
Bytes PlainBytes(const CNetAddr& a)
{
    Bytes b = a.GetAddrBytes();
    if (a.IsIPv4() && b.size() == 16) return Bytes(b.begin() + 12, b.end());
    if (a.IsInternal() && b.size() == 16) return Bytes(b.begin() + 6, b.end());
    return b;
}
std::string Desc(const CNetAddr& a) { return std::string("[\"") + NetName(a) + "\"," + JHex(PlainBytes(a)) + "]"; }

// ------------------------------------------------------------------------------------------------ constructing addresses
CNetAddr MkV4(const Bytes& b)
{
    in_addr ia;
    std::memcpy(&ia, b.data(), 4);
    return CNetAddr{ia};
}
CNetAddr MkV6(const Bytes& b) // classification of special ranges applies (mapped -> ipv4, ...)
{
    in6_addr ia;
    std::memcpy(&ia, b.data(), 16);
    return CNetAddr{ia};
}
// through the BIP155 decoder (the only non-text way to get Tor/I2P/CJDNS addresses)
bool MkV2(uint8_t id, const Bytes& b, CNetAddr& out)
{
    DataStream ss;
    ss << id;
    WriteCompactSize(ss, b.size());
    ss.write(MakeByteSpan(b));
    try {
        ss >> CNetAddr::V2(out);
        return true;
    } catch (const std::ios_base::failure&) {
        return false;
    }
}

Bytes RandV4(vh::Rng& r)
{
    static const unsigned char SP[][4] = {{10, 0, 0, 0}, {192, 168, 1, 0}, {127, 0, 0, 1}, {0, 0, 0, 0}, {255, 255, 255, 255}, {172, 16, 0, 0}, {169, 254, 0, 0},
                                          {8, 8, 8, 8}, {100, 64, 0, 0}, {198, 18, 0, 0}, {192, 0, 2, 0}, {1, 2, 3, 4}, {128, 0, 0, 0}, {127, 255, 255, 255}, {0, 0, 0, 1}, {255, 255, 255, 254}};
    if (r.chance(1, 3)) {
        const unsigned char* p = SP[r.below(16)];
        Bytes b(p, p + 4);
        if (r.coin()) b[3] = static_cast<unsigned char>(r.below(256));
        return b;
    }
    return r.bytes(4);
}
Bytes RandV6(vh::Rng& r, bool allow_unparseable = false)
{
    static const char* SP[] = {"20010db8", "fe80000000000000", "fc", "fd", "2002", "0064ff9b0000000000000000", "20010000", "20010470", "ff02", "2001001", "2001002",
                               "00000000000000000000ffff" /*mapped*/, "0000000000000000ffff0000" /*rfc6145*/, "fd87d87eeb43" /*torv2*/, "fd6b88c08724" /*internal*/};
    Bytes b = r.bytes(16);
    switch (r.below(6)) {
    case 0: {
        size_t n = allow_unparseable ? 15 : 13;
        std::string h = SP[r.below(n)];
        if (h.size() % 2) h += "0";
        Bytes p = vh::UnHex(h);
        std::copy(p.begin(), p.end(), b.begin());
        break;
    }
    case 1: std::fill(b.begin(), b.begin() + r.below(16), 0); break;
    case 2: std::fill(b.begin() + r.below(16), b.end(), 0); break;
    case 3: {
        b.assign(16, 0);
        if (r.coin()) b[15] = static_cast<unsigned char>(r.below(3));
        break;
    }
    case 4: b.assign(16, 0xff); break;
    default: break;
    }
    return b;
}

std::string FmtV4(const Bytes& b) { return std::to_string(b[0]) + "." + std::to_string(b[1]) + "." + std::to_string(b[2]) + "." + std::to_string(b[3]); }
// styles: 0 eight plain groups, 1 zero-padded, 2 upper case, 3 first zero run compressed, 4 dotted IPv4 tail
std::string FmtV6(const Bytes& b, int style)
{
    unsigned g[8];
    for (int i = 0; i < 8; ++i) g[i] = (b[2 * i] << 8) | b[2 * i + 1];
    char buf[8];
    auto grp = [&](unsigned v) {
        std::snprintf(buf, sizeof buf, style == 1 ? "%04x" : (style == 2 ? "%X" : "%x"), v);
        return std::string(buf);
    };
    const int ngroups = style == 4 ? 6 : 8;
    std::string s;
    int zs = -1, zl = 0;
    if (style == 3) {
        for (int i = 0; i < ngroups && zs < 0; ++i) {
            if (g[i] == 0) {
                int j = i;
                while (j < ngroups && g[j] == 0) ++j;
                if (j - i >= 2) {
                    zs = i;
                    zl = j - i;
                }
                i = j;
            }
        }
    }
    for (int i = 0; i < ngroups; ++i) {
        if (zs >= 0 && i == zs) {
            s += "::";
            i += zl - 1;
            continue;
        }
        if (!s.empty() && s.back() != ':') s += ":";
        s += grp(g[i]);
    }
    if (style == 4) s += ":" + FmtV4(Bytes(b.begin() + 12, b.end()));
    return s;
}

// big-endian byte-string arithmetic helpers for boundary probes
void FlipBit(Bytes& b, int bit) { b[bit / 8] ^= static_cast<unsigned char>(0x80u >> (bit % 8)); }
void AddOne(Bytes& b)
{
    for (size_t i = b.size(); i-- > 0;)
        if (++b[i] != 0) break;
}
void SubOne(Bytes& b)
{
    for (size_t i = b.size(); i-- > 0;)
        if (b[i]-- != 0) break;
}
Bytes MaskBytes(size_t n, int prefix)
{
    Bytes m(n, 0);
    for (int i = 0; i < prefix; ++i) m[i / 8] |= static_cast<unsigned char>(0x80u >> (i % 8));
    return m;
}

struct Probe {
    CNetAddr a;
};
void ProbeIp(std::vector<CNetAddr>& out, const Bytes& b)
{
    out.push_back(b.size() == 4 ? MkV4(b) : MkV6(b));
}
// boundary probes around (base, prefix) in the family of base
void BoundaryProbes(std::vector<CNetAddr>& out, const Bytes& base, int prefix, vh::Rng& r)
{
    const int nbits = static_cast<int>(base.size()) * 8;
    prefix = std::max(0, std::min(prefix, nbits));
    const Bytes mask = MaskBytes(base.size(), prefix);
    Bytes net = base, last = base;
    for (size_t i = 0; i < base.size(); ++i) {
        net[i] = base[i] & mask[i];
        last[i] = base[i] | static_cast<unsigned char>(~mask[i]);
    }
    ProbeIp(out, base);
    ProbeIp(out, net);
    ProbeIp(out, last);
    Bytes x = net;
    SubOne(x);
    ProbeIp(out, x);
    x = last;
    AddOne(x);
    ProbeIp(out, x);
    for (int d = -2; d <= 1; ++d) {
        const int bit = prefix + d;
        if (bit < 0 || bit >= nbits) continue;
        x = base;
        FlipBit(x, bit);
        ProbeIp(out, x);
    }
    // random member, random non-member candidate
    x = r.bytes(base.size());
    for (size_t i = 0; i < base.size(); ++i) x[i] = (x[i] & static_cast<unsigned char>(~mask[i])) | net[i];
    ProbeIp(out, x);
    ProbeIp(out, base.size() == 4 ? RandV4(r) : RandV6(r));
}
void ForeignProbes(std::vector<CNetAddr>& out, const Bytes& base, vh::Rng& r)
{
    // other family, embedded forms of an IPv4 base, privacy networks, internal
    if (base.size() == 4) {
        Bytes m(16, 0);
        m[10] = m[11] = 0xff;
        std::copy(base.begin(), base.end(), m.begin() + 12);
        out.push_back(MkV6(m)); // IPv4-mapped: *is* the IPv4 address
        Bytes s(16, 0);
        s[0] = 0x20;
        s[1] = 0x02;
        std::copy(base.begin(), base.end(), s.begin() + 2);
        out.push_back(MkV6(s)); // 6to4
        Bytes w(16, 0);
        w[1] = 0x64;
        w[2] = 0xff;
        w[3] = 0x9b;
        std::copy(base.begin(), base.end(), w.begin() + 12);
        out.push_back(MkV6(w)); // RFC6052
        Bytes c(16, 0);
        std::copy(base.begin(), base.end(), c.begin() + 12);
        out.push_back(MkV6(c)); // IPv4-compatible ::a.b.c.d
    } else {
        out.push_back(MkV4(Bytes(base.begin() + 12, base.end())));
        out.push_back(MkV4(Bytes(base.begin(), base.begin() + 4)));
    }
    CNetAddr t;
    Bytes pad = base;
    pad.resize(32, 0x5a);
    if (MkV2(4, pad, t)) out.push_back(t);
    if (MkV2(5, pad, t)) out.push_back(t);
    Bytes cj = base;
    cj.resize(16, 0);
    if (base.size() == 4 || r.coin()) cj[0] = 0xfc;
    if (MkV2(6, cj, t)) out.push_back(t);
    CNetAddr in;
    in.SetInternal("seed" + std::to_string(r.below(4)));
    out.push_back(in);
}

std::string ProbesJson(const CSubNet& sn, const std::vector<CNetAddr>& probes)
{
    std::vector<std::string> items;
    for (const CNetAddr& a : probes) items.push_back("[" + Desc(a) + "," + (sn.Match(a) ? "true" : "false") + "]");
    return vh::JArr(items);
}

struct CjdnsMode {
    explicit CjdnsMode(bool reachable)
    {
        if (reachable) g_reachable_nets.Add(NET_CJDNS); else g_reachable_nets.Remove(NET_CJDNS);
    }
    ~CjdnsMode() { g_reachable_nets.Add(NET_CJDNS); }
};

std::string OnionStr(vh::Rng& r, CNetAddr& out)
{
    MkV2(4, r.bytes(32), out);
    return out.ToStringAddr(); // the text form is checked independently by the oracle (sha3 checksum, base32)
}
} // namespace

// ================================================================================================ subnet
VH_CMD(subnet)
{
    const bool fcnorm = args.geti("fcnorm", 0) != 0;
    for (uint64_t c = args.from; c < args.to; ++c) {
        vh::set_case(c);
        vh::Rng rng(args.seed, c);
        const int mode = static_cast<int>(c % 8);
        bool cj = mode == 6 ? rng.coin() : rng.chance(1, 8);
        std::string s;
        std::vector<CNetAddr> probes;
        Bytes base;
        int prefix = -1;
        const char* mname = "";
        switch (mode) {
        case 0: {
            mname = "v4-cidr";
            base = RandV4(rng);
            prefix = static_cast<int>((c / 8) % 33);
            s = FmtV4(base) + "/" + std::to_string(prefix);
            break;
        }
        case 1: {
            mname = "v6-cidr";
            base = RandV6(rng);
            prefix = static_cast<int>((c / 8) % 129);
            s = FmtV6(base, rng.coin() ? 0 : 3) + "/" + std::to_string(prefix);
            break;
        }
        case 2:
        case 3: {
            mname = mode == 2 ? "v4-netmask" : "v6-netmask";
            base = mode == 2 ? RandV4(rng) : RandV6(rng);
            const int nbits = static_cast<int>(base.size()) * 8;
            prefix = static_cast<int>((c / 8) % (nbits + 1));
            Bytes mask = MaskBytes(base.size(), prefix);
            const uint64_t how = rng.below(6);
            if (how == 0) { // non-contiguous: punch a hole / add a stray bit
                if (prefix >= 2) FlipBit(mask, static_cast<int>(rng.below(prefix - 1)));
                else FlipBit(mask, static_cast<int>(1 + prefix + rng.below(nbits - prefix - 1)));
                prefix = -1;
            } else if (how == 1) {
                mask = rng.bytes(base.size());
                prefix = -1;
            }
            s = (mode == 2 ? FmtV4(base) : FmtV6(base, rng.coin() ? 0 : 3)) + "/" + (mode == 2 ? FmtV4(mask) : FmtV6(mask, rng.coin() ? 0 : 3));
            if (how == 2) { // mask of the other family
                s = (mode == 2 ? FmtV4(base) : FmtV6(base, 0)) + "/" + (mode == 2 ? FmtV6(MaskBytes(16, prefix), 0) : FmtV4(MaskBytes(4, prefix % 33)));
            }
            break;
        }
        case 4: {
            mname = "single";
            switch (rng.below(6)) {
            case 0: base = RandV4(rng); s = FmtV4(base); break;
            case 1: base = RandV6(rng, true); s = FmtV6(base, static_cast<int>(rng.below(5))); break;
            case 2: {
                CNetAddr t;
                s = OnionStr(rng, t);
                probes.push_back(t);
                if (rng.chance(1, 4)) s += "/" + std::to_string(rng.below(40));
                break;
            }
            case 3: {
                CNetAddr t;
                MkV2(5, rng.bytes(32), t);
                s = t.ToStringAddr();
                if (rng.coin()) s = ToUpper(s.substr(0, 52)) + s.substr(52);
                probes.push_back(t);
                break;
            }
            case 4: { // mapped IPv4 written as IPv6, with IPv4-sized or IPv6-sized prefix
                base = RandV4(rng);
                Bytes m(16, 0);
                m[10] = m[11] = 0xff;
                std::copy(base.begin(), base.end(), m.begin() + 12);
                prefix = static_cast<int>(rng.coin() ? rng.below(33) : 96 + rng.below(33));
                s = FmtV6(m, rng.coin() ? 4 : 0) + "/" + std::to_string(prefix);
                break;
            }
            default: { // bracketed
                base = RandV6(rng);
                prefix = static_cast<int>(rng.below(129));
                s = "[" + FmtV6(base, 3) + "]" + (rng.coin() ? "/" + std::to_string(prefix) : std::string());
                if (s.back() == ']') prefix = 128;
            }
            }
            break;
        }
        case 5: {
            mname = "malformed";
            base = rng.coin() ? RandV4(rng) : RandV6(rng);
            const std::string a = base.size() == 4 ? FmtV4(base) : FmtV6(base, 3);
            const int nbits = static_cast<int>(base.size()) * 8;
            switch (rng.below(16)) {
            case 0: s = a + "/" + std::to_string(nbits + 1 + rng.below(3)); break;
            case 1: s = a + "/255"; break;
            case 2: s = a + "/" + std::to_string(256 + rng.below(70000)); break;
            case 3: s = a + "/-1"; break;
            case 4: s = a + "/+8"; prefix = -1; break;
            case 5: s = a + "/0" + std::to_string(rng.below(nbits + 1)); break; // leading zero: still a number
            case 6: s = a + "/"; break;
            case 7: s = a + "//8"; break;
            case 8: s = "/" + std::to_string(rng.below(33)); break;
            case 9: s = a + std::string(1, '\0') + "/8"; break;
            case 10: s = a + "/8" + std::string(1, '\0'); break;
            case 11: s = a + "/ 8"; break;
            case 12: s = a + "/8 "; break;
            case 13: s = base.size() == 4 ? FmtV4(base) + ".1/8" : FmtV6(base, 0) + ":1/8"; break;
            case 14: s = base.size() == 4 ? std::to_string(256 + rng.below(100)) + FmtV4(base).substr(FmtV4(base).find('.')) + "/8" : "1" + FmtV6(base, 1) + "/8"; break;
            default: s = ""; break;
            }
            prefix = static_cast<int>(rng.below(nbits + 1));
            break;
        }
        case 6: {
            mname = "cjdns";
            base = RandV6(rng);
            base[0] = rng.chance(1, 6) ? 0xfd : 0xfc;
            prefix = static_cast<int>(rng.below(129));
            const uint64_t how = rng.below(3);
            s = FmtV6(base, 3);
            if (how == 1) s += "/" + std::to_string(prefix);
            if (how == 2) s += "/" + FmtV6(MaskBytes(16, prefix), 0);
            if (how == 0) prefix = 128;
            // a covering subnet that does not itself start with fc
            if (rng.chance(1, 5)) {
                base[0] = 0xf0;
                prefix = 4;
                s = FmtV6(base, 3) + "/4";
                base[0] = 0xfc;
            }
            break;
        }
        default: {
            mname = "v6-altform";
            base = RandV6(rng);
            prefix = static_cast<int>(rng.below(129));
            s = FmtV6(base, static_cast<int>(rng.below(5))) + "/" + std::to_string(prefix);
        }
        }
        // An IPv6 subnet whose *normalised* network address starts with 0xfc although the given address does not
        // (fd00::/7, fe00::/6 ...) prints as "fc00::/7", which LookupSubNet refuses when CJDNS is reachable (it types
        // fc00::/8 hosts as CJDNS, and CJDNS knows no prefixes). Reported as a finding; generated only with --p fcnorm=1.
        const bool fc_class = base.size() == 16 && prefix >= 0 && prefix < 8 && base[0] != 0xfc && (base[0] & MaskBytes(16, prefix)[0]) == 0xfc;
        if (fc_class && cj && !fcnorm) cj = false;
        if (fc_class && fcnorm) cj = true;
        if (fc_class && cj) vh::log().obs("fc_normalised_subnets");
        CjdnsMode cjm(cj);
        if (!base.empty()) {
            BoundaryProbes(probes, base, prefix < 0 ? static_cast<int>(rng.below(base.size() * 8 + 1)) : prefix, rng);
            ForeignProbes(probes, base, rng);
            if (cj && base.size() == 16) {
                for (int i = 0; i < 3 && i < static_cast<int>(probes.size()); ++i) probes.push_back(static_cast<CNetAddr>(MaybeFlipIPv6toCJDNS(CService{probes[i], 0})));
            }
        } else {
            // privacy-network subnets: probe equal / other / ip
            CNetAddr t;
            if (MkV2(4, rng.bytes(32), t)) probes.push_back(t);
            if (MkV2(5, rng.bytes(32), t)) probes.push_back(t);
            probes.push_back(MkV4(RandV4(rng)));
            probes.push_back(MkV6(RandV6(rng)));
        }
        // fixed probes that are invalid addresses although inside many subnets
        probes.push_back(MkV4(Bytes{0, 0, 0, 0}));
        probes.push_back(MkV4(Bytes{255, 255, 255, 255}));
        probes.push_back(MkV6(Bytes(16, 0)));
        {
            Bytes doc = vh::UnHex("20010db8000000000000000000000001");
            if (base.size() == 16) std::copy(base.begin() + 4, base.end(), doc.begin() + 4);
            probes.push_back(MkV6(doc));
        }
        const CSubNet sn = LookupSubNet(s);
        vh::J j;
        j.u("case", c).str("k", "subnet").str("m", mname).raw("s", SHex(s)).b("cj", cj).b("valid", sn.IsValid());
        if (sn.IsValid()) {
            const std::string str = sn.ToString();
            const CSubNet back = LookupSubNet(str);
            j.raw("str", SHex(str)).b("rt", back.IsValid() && back == sn);
            vh::log().obs("subnet_valid");
        } else {
            vh::log().obs("subnet_invalid");
        }
        j.raw("probes", ProbesJson(sn, probes));
        // the two non-text constructors
        if (!base.empty() && prefix >= 0) {
            CNetAddr ba = base.size() == 4 ? MkV4(base) : MkV6(base);
            if (cj) ba = static_cast<CNetAddr>(MaybeFlipIPv6toCJDNS(CService{ba, 0}));
            const CSubNet a{ba, static_cast<uint8_t>(prefix)};
            const Bytes mb = MaskBytes(ba.IsIPv4() ? 4 : 16, std::min(prefix, ba.IsIPv4() ? 32 : 128));
            const CSubNet b{ba, mb.size() == 4 ? MkV4(mb) : MkV6(mb)};
            j.raw("ctor", "[" + Desc(ba) + "," + std::to_string(prefix) + "," + (a.IsValid() ? "true" : "false") + "," + (a.IsValid() ? SHex(a.ToString()) : "null") + "," +
                              (b.IsValid() ? SHex(b.ToString()) : "null") + "," + ProbesJson(a, probes) + "]");
        }
        vh::log().obs(std::string("mode_") + mname);
        vh::log().rec(j);
    }
    return 0;
}

// ================================================================================================ addrser
namespace {
std::string TryV(const Bytes& in, bool v2)
{
    DataStream ss{std::span<const uint8_t>{in.data(), in.size()}};
    CNetAddr a;
    try {
        if (v2) ss >> CNetAddr::V2(a); else ss >> CNetAddr::V1(a);
        return "[true," + Desc(a) + "," + std::to_string(in.size() - ss.size()) + "]";
    } catch (const std::ios_base::failure&) {
        return "[false]";
    }
}
template <typename T, typename P>
Bytes SerP(const P& params, const T& obj)
{
    DataStream ss;
    ss << params(obj);
    return Bytes(UCharCast(ss.data()), UCharCast(ss.data()) + ss.size());
}
} // namespace

VH_CMD(addrser)
{
    static const char* KN[] = {"ipv4", "ipv6", "ipv6_special", "onion", "i2p", "cjdns", "internal", "malformed_v2", "raw_v1", "caddress"};
    for (uint64_t c = args.from; c < args.to; ++c) {
        vh::set_case(c);
        vh::Rng rng(args.seed, c);
        const int kind = static_cast<int>(c % 10);
        vh::J j;
        j.u("case", c).str("k", "addr").str("kind", KN[kind]);
        vh::log().obs(std::string("kind_") + KN[kind]);
        CNetAddr a;
        bool have = true;
        switch (kind) {
        case 0: a = MkV4(RandV4(rng)); break;
        case 1: a = MkV6(rng.bytes(16)); break;
        case 2: a = MkV6(RandV6(rng, true)); break;
        case 3: have = MkV2(4, rng.bytes(32), a); break;
        case 4: have = MkV2(5, rng.bytes(32), a); break;
        case 5: {
            Bytes b = rng.bytes(16);
            if (!rng.chance(1, 5)) b[0] = 0xfc;
            have = MkV2(6, b, a);
            break;
        }
        case 6: have = a.SetInternal(rng.coin() ? "seed.example.org" : vh::Hex(rng.bytes(1 + rng.below(20)))); break;
        default: have = false;
        }
        if (have) {
            const Bytes v1 = SerP(CNetAddr::V1, a), v2 = SerP(CNetAddr::V2, a);
            j.raw("a", Desc(a)).hex("v1", v1).hex("v2", v2).raw("v1_rt", TryV(v1, false)).raw("v2_rt", TryV(v2, true));
            const std::string str = a.ToStringAddr();
            j.raw("str", SHex(str)).b("valid", a.IsValid()).b("v1compat", a.IsAddrV1Compatible());
            // text -> address (numeric lookup; the node flips fc00::/8 to CJDNS on its own input paths)
            const bool as_cjdns = a.IsCJDNS();
            CjdnsMode cjm(as_cjdns);
            auto parsed = LookupHost(str, /*fAllowLookup=*/false);
            if (parsed && as_cjdns) parsed = static_cast<CNetAddr>(MaybeFlipIPv6toCJDNS(CService{*parsed, 0}));
            j.raw("parsed", parsed ? Desc(*parsed) : std::string("null")).b("parsed_eq", parsed && *parsed == a);
            // with a port
            const uint16_t port = static_cast<uint16_t>(rng.chance(1, 4) ? (rng.coin() ? 1 : 65535) : 1 + rng.below(65535));
            const CService svc{a, port};
            const std::string sp = svc.ToStringAddrPort();
            auto ps = Lookup(sp, 0, /*fAllowLookup=*/false);
            if (ps && as_cjdns) ps = MaybeFlipIPv6toCJDNS(*ps);
            j.raw("strport", SHex(sp)).u("port", port).raw("parsed_port", ps ? "[" + Desc(*ps) + "," + std::to_string(ps->GetPort()) + "]" : std::string("null"))
                .b("parsed_port_eq", ps && *ps == svc);
            // CService serialization
            j.hex("svc_v1", SerP(CNetAddr::V1, svc)).hex("svc_v2", SerP(CNetAddr::V2, svc));
        } else if (kind == 7) {
            // hand-written BIP155 encodings
            Bytes in;
            auto put_cs = [&](uint64_t n, int wide) {
                DataStream t;
                if (wide == 0) {
                    WriteCompactSize(t, n);
                } else {
                    t << static_cast<uint8_t>(wide == 1 ? 253 : (wide == 2 ? 254 : 255));
                    for (int i = 0; i < (wide == 1 ? 2 : (wide == 2 ? 4 : 8)); ++i) t << static_cast<uint8_t>(n >> (8 * i));
                }
                in.insert(in.end(), UCharCast(t.data()), UCharCast(t.data()) + t.size());
            };
            static const uint8_t IDS[] = {1, 2, 3, 4, 5, 6, 0, 7, 8, 0x7f, 0x80, 0xff};
            static const size_t LENS[] = {4, 16, 10, 32, 32, 16};
            const uint8_t id = IDS[rng.below(12)];
            size_t len;
            const char* how = "";
            switch (rng.below(8)) {
            case 0:
                how = "right-length";
                len = (id >= 1 && id <= 6) ? LENS[id - 1] : rng.below(40);
                break;
            case 1:
                how = "wrong-length";
                len = (id >= 1 && id <= 6) ? LENS[id - 1] + (rng.coin() ? 1 : -1) : rng.below(40);
                break;
            case 2:
                how = "length-512";
                len = 512;
                break;
            case 3:
                how = "length-513";
                len = 513 + rng.below(3);
                break;
            case 4:
                how = "zero-length";
                len = 0;
                break;
            case 5:
                how = "huge-length";
                len = 0x02000001 + rng.below(2);
                break;
            default:
                how = "random-length";
                len = rng.below(600);
            }
            in.push_back(id);
            const int wide = rng.chance(1, 6) ? static_cast<int>(1 + rng.below(3)) : 0;
            put_cs(len, wide);
            size_t have_bytes = len > 2000 ? rng.below(40) : len;
            if (rng.chance(1, 8) && have_bytes > 0) have_bytes = rng.below(have_bytes); // truncated payload
            Bytes payload = rng.bytes(have_bytes);
            if (id == 2 && payload.size() == 16 && rng.coin()) {
                static const char* PRE[] = {"00000000000000000000ffff", "fd87d87eeb43", "fd6b88c08724", "fc", "20010db8"};
                Bytes p = vh::UnHex(PRE[rng.below(5)]);
                std::copy(p.begin(), p.end(), payload.begin());
            }
            in.insert(in.end(), payload.begin(), payload.end());
            if (rng.chance(1, 4)) {
                Bytes t = rng.bytes(1 + rng.below(3));
                in.insert(in.end(), t.begin(), t.end());
            }
            j.str("how", how).i("wide", wide).hex("in", in).raw("v2_in", TryV(in, true));
            // the same bytes inside an addrv2 entry (time, services, address, port)
            Bytes entry = rng.bytes(4);
            entry.push_back(static_cast<unsigned char>(rng.below(253)));
            entry.insert(entry.end(), in.begin(), in.end());
            DataStream ss{std::span<const uint8_t>{entry.data(), entry.size()}};
            CAddress ca;
            try {
                ss >> CAddress::V2_NETWORK(ca);
                j.hex("entry", entry).raw("entry_res", "[true," + Desc(ca) + "," + std::to_string(ca.GetPort()) + "," + std::to_string(entry.size() - ss.size()) + "]");
            } catch (const std::ios_base::failure&) {
                j.hex("entry", entry).raw("entry_res", "[false]");
            }
        } else if (kind == 8) {
            Bytes in = RandV6(rng, true);
            if (rng.chance(1, 6)) in.resize(rng.below(16));
            j.hex("in", in).raw("v1_in", TryV(in, false));
        } else {
            // CAddress network formats
            CNetAddr b;
            switch (rng.below(5)) {
            case 0: b = MkV4(RandV4(rng)); break;
            case 1: b = MkV6(RandV6(rng)); break;
            case 2: MkV2(4, rng.bytes(32), b); break;
            case 3: MkV2(5, rng.bytes(32), b); break;
            default: {
                Bytes x = rng.bytes(16);
                x[0] = 0xfc;
                MkV2(6, x, b);
            }
            }
            const uint16_t port = static_cast<uint16_t>(rng.below(65536));
            static const uint64_t SV[] = {0, 1, 9, 0x409, 252, 253, 0xffff, 0x10000, 0xffffffffULL, 0x100000000ULL, 0xffffffffffffffffULL};
            const uint64_t services = rng.coin() ? SV[rng.below(11)] : rng.next();
            const uint32_t t = static_cast<uint32_t>(rng.coin() ? rng.next() : (rng.coin() ? 0 : 0xffffffffu));
            CAddress ca{CService{b, port}, static_cast<ServiceFlags>(services), NodeSeconds{std::chrono::seconds{t}}};
            const Bytes n1 = SerP(CAddress::V1_NETWORK, ca), n2 = SerP(CAddress::V2_NETWORK, ca);
            auto back = [&](const Bytes& bytes, bool v2) {
                DataStream ss{std::span<const uint8_t>{bytes.data(), bytes.size()}};
                CAddress r;
                try {
                    if (v2) ss >> CAddress::V2_NETWORK(r); else ss >> CAddress::V1_NETWORK(r);
                    const auto secs = std::chrono::duration_cast<std::chrono::seconds>(r.nTime.time_since_epoch()).count();
                    return "[true," + std::to_string(secs) + "," + std::to_string(static_cast<uint64_t>(r.nServices)) + "," + Desc(r) + "," + std::to_string(r.GetPort()) + "," + (ss.empty() ? "true" : "false") + "]";
                } catch (const std::ios_base::failure&) {
                    return std::string("[false]");
                }
            };
            j.raw("f", "[" + std::to_string(t) + "," + std::to_string(services) + "," + Desc(b) + "," + std::to_string(port) + "]").hex("n1", n1).hex("n2", n2)
                .raw("n1_rt", back(n1, false)).raw("n2_rt", back(n2, true));
            // a small addrv2 message
            std::vector<CAddress> vec{ca};
            for (int i = 0; i < 2; ++i) vec.emplace_back(CService{MkV4(RandV4(rng)), static_cast<uint16_t>(rng.below(65536))}, NODE_NETWORK, NodeSeconds{std::chrono::seconds{1700000000 + i}});
            const Bytes msg = SerP(CAddress::V2_NETWORK, vec);
            std::vector<CAddress> vback;
            bool vok = false;
            try {
                DataStream ss{std::span<const uint8_t>{msg.data(), msg.size()}};
                ss >> CAddress::V2_NETWORK(vback);
                vok = ss.empty() && vback.size() == vec.size();
                for (size_t i = 0; vok && i < vec.size(); ++i) vok = vback[i] == vec[i];
            } catch (const std::ios_base::failure&) {
            }
            j.b("vec_rt", vok);
        }
        vh::log().rec(j);
    }
    return 0;
}

// ================================================================================================ banman
VH_CMD(banman)
{
    const int64_t nops = args.geti("ops", 60);
    const int64_t big_every = args.geti("big_every", 40); // every n-th case fills the discouragement filter to its capacity
    const char* tmp = std::getenv("TMPDIR");
    const fs::path basedir = fs::PathFromString(tmp ? tmp : ".") / "vh_ban";
    fs::create_directories(basedir);
    for (uint64_t c = args.from; c < args.to; ++c) {
        vh::set_case(c);
        vh::Rng rng(args.seed, c);
        const bool cj = rng.chance(1, 6);
        CjdnsMode cjm(cj);
        const fs::path dir = basedir / fs::PathFromString("c" + std::to_string(c));
        fs::remove_all(dir);
        fs::create_directories(dir);
        const fs::path banfile = dir / "banlist";
        int64_t now = 1700000000 + static_cast<int64_t>(rng.below(100000000));
        SetMockTime(now);
        const int64_t default_ban = rng.coin() ? 86400 : static_cast<int64_t>(1 + rng.below(1000));

        // ---- pools: subnet strings (parsed by the node here and by the reference offline) and addresses
        std::vector<std::string> sn_str;
        std::vector<CSubNet> sns;
        std::vector<CNetAddr> addrs;
        auto add_subnet = [&](const std::string& s) {
            sn_str.push_back(s);
            sns.push_back(LookupSubNet(s));
        };
        const Bytes b4 = RandV4(rng), b6 = [&] { Bytes x = RandV6(rng); if (x[0] >= 0xfc && cj) x[0] = 0x20; return x; }(); // see fc_class in `subnet`
        {
            std::vector<int> p4{8, 16, 24, 31, 32, 0, 1, static_cast<int>(rng.below(33)), static_cast<int>(rng.below(33))};
            rng.shuffle(p4);
            for (int i = 0; i < 4; ++i) add_subnet(FmtV4(b4) + "/" + std::to_string(p4[i]));
            add_subnet(FmtV4(RandV4(rng)) + "/" + FmtV4(MaskBytes(4, static_cast<int>(rng.below(33)))));
            std::vector<int> p6{32, 48, 64, 127, 128, 0, 7, 8, static_cast<int>(rng.below(129))};
            rng.shuffle(p6);
            for (int i = 0; i < 3; ++i) add_subnet(FmtV6(b6, 3) + "/" + std::to_string(p6[i]));
            add_subnet(FmtV4(RandV4(rng)));
            CNetAddr t;
            add_subnet(OnionStr(rng, t));
            addrs.push_back(t);
            MkV2(5, rng.bytes(32), t);
            add_subnet(t.ToStringAddr());
            addrs.push_back(t);
            if (cj) {
                Bytes x = rng.bytes(16);
                x[0] = 0xfc;
                add_subnet(FmtV6(x, 3));
                MkV2(6, x, t);
                addrs.push_back(t);
            }
        }
        {
            std::vector<CNetAddr> tmpv;
            BoundaryProbes(tmpv, b4, 24, rng);
            BoundaryProbes(tmpv, b4, 16, rng);
            BoundaryProbes(tmpv, b6, 64, rng);
            ForeignProbes(tmpv, b4, rng);
            rng.shuffle(tmpv);
            for (size_t i = 0; i < tmpv.size() && addrs.size() < 22; ++i) {
                CNetAddr a = tmpv[i];
                if (cj) a = static_cast<CNetAddr>(MaybeFlipIPv6toCJDNS(CService{a, 0})); // what the node does with every address it takes in
                if (!cj && a.IsCJDNS()) continue; // a node without -cjdnsreachable never types a peer address as CJDNS
                addrs.push_back(a);
            }
            addrs.push_back(MkV4(b4));
            addrs.push_back(MkV6(b6));
        }
        std::vector<std::string> sj, aj;
        for (size_t i = 0; i < sn_str.size(); ++i) sj.push_back("[" + SHex(sn_str[i]) + "," + (sns[i].IsValid() ? "true" : "false") + "]");
        for (auto& a : addrs) aj.push_back(Desc(a));
        vh::log().rec(vh::J().u("case", c).str("k", "ban_begin").b("cj", cj).i("t0", now).i("default", default_ban).raw("subnets", vh::JArr(sj)).raw("addrs", vh::JArr(aj)));

        auto bm = std::make_unique<BanMan>(banfile, nullptr, default_ban);
        auto snapshot = [&](BanMan& b) {
            // full observable state: IsBanned for every pool address and subnet, the ban list, IsDiscouraged for every address
            std::string ab, sb, ds;
            for (auto& a : addrs) ab += b.IsBanned(a) ? '1' : '0';
            for (auto& s : sns) sb += b.IsBanned(s) ? '1' : '0';
            for (auto& a : addrs) ds += b.IsDiscouraged(a) ? '1' : '0';
            banmap_t m;
            b.GetBanned(m);
            std::vector<std::string> lj;
            for (auto& [sn, e] : m) lj.push_back("[" + SHex(sn.ToString()) + "," + std::to_string(e.nBanUntil) + "," + std::to_string(e.nCreateTime) + "]");
            return "\"ab\":\"" + ab + "\",\"sb\":\"" + sb + "\",\"ds\":\"" + ds + "\",\"list\":" + vh::JArr(lj);
        };
        auto next_expiry_delta = [&]() -> int64_t {
            banmap_t m;
            bm->GetBanned(m);
            int64_t best = -1;
            for (auto& [sn, e] : m)
                if (e.nBanUntil >= now && (best < 0 || e.nBanUntil - now < best)) best = e.nBanUntil - now;
            return best;
        };
        for (int64_t step = 0; step < nops; ++step) {
            std::string op;
            const uint64_t pick = rng.below(100);
            if (pick < 30) {
                // Ban(subnet / address)
                const bool by_addr = rng.chance(1, 3);
                const size_t i = rng.below(by_addr ? addrs.size() : sns.size());
                int64_t off;
                bool abs = false;
                switch (rng.below(8)) {
                case 0: off = 0; break;
                case 1: off = -static_cast<int64_t>(rng.below(100)); break;
                case 2: off = 1; break;
                case 3: off = static_cast<int64_t>(1 + rng.below(50)); break;
                case 4: off = static_cast<int64_t>(rng.below(100000)); break;
                case 5:
                    abs = true;
                    off = now + static_cast<int64_t>(rng.below(200));
                    break;
                case 6:
                    abs = true;
                    off = now - static_cast<int64_t>(rng.below(200)); // already over
                    break;
                default: off = static_cast<int64_t>(1 + rng.below(5));
                }
                if (rng.chance(1, 10)) abs = !abs && off > 0 ? true : abs;
                // callers hand BanMan valid subnets only (an invalid CSubNet is the same map key as ::/0, see report)
                if (by_addr ? !CSubNet{addrs[i]}.IsValid() : !sns[i].IsValid()) {
                    vh::log().obs("skipped_invalid_subnet_ops");
                    --step;
                    continue;
                }
                if (by_addr) bm->Ban(addrs[i], off, abs); else bm->Ban(sns[i], off, abs);
                op = std::string("\"op\":\"ban\",\"by\":\"") + (by_addr ? "addr" : "subnet") + "\",\"i\":" + std::to_string(i) + ",\"off\":" + std::to_string(off) + ",\"abs\":" + (abs ? "true" : "false");
                vh::log().obs("op_ban");
            } else if (pick < 42) {
                const bool by_addr = rng.chance(1, 3);
                size_t i = rng.below(by_addr ? addrs.size() : sns.size());
                if (rng.coin()) {
                    // prefer something that is banned right now
                    for (size_t k = 0, n = by_addr ? addrs.size() : sns.size(); k < n; ++k) {
                        const size_t cand = (i + k) % n;
                        if (by_addr ? bm->IsBanned(CSubNet{addrs[cand]}) : bm->IsBanned(sns[cand])) {
                            i = cand;
                            break;
                        }
                    }
                }
                if (by_addr ? !CSubNet{addrs[i]}.IsValid() : !sns[i].IsValid()) {
                    vh::log().obs("skipped_invalid_subnet_ops");
                    --step;
                    continue;
                }
                const bool r = by_addr ? bm->Unban(addrs[i]) : bm->Unban(sns[i]);
                op = std::string("\"op\":\"unban\",\"by\":\"") + (by_addr ? "addr" : "subnet") + "\",\"i\":" + std::to_string(i) + ",\"ret\":" + (r ? "true" : "false");
                vh::log().obs(r ? "op_unban_hit" : "op_unban_miss");
            } else if (pick < 72) {
                // time passes: exactly to / around the next expiry, or random
                int64_t dt;
                const int64_t ne = next_expiry_delta();
                switch (rng.below(6)) {
                case 0: dt = ne >= 0 ? ne : 1; vh::log().obs("advance_to_expiry"); break;
                case 1: dt = ne > 0 ? ne - 1 : 0; break;
                case 2: dt = ne >= 0 ? ne + 1 : 1; break;
                case 3: dt = 1; break;
                case 4: dt = static_cast<int64_t>(rng.below(100)); break;
                default: dt = static_cast<int64_t>(rng.below(200000)); break;
                }
                now += dt;
                SetMockTime(now);
                op = "\"op\":\"advance\",\"dt\":" + std::to_string(dt);
                vh::log().obs("op_advance");
            } else if (pick < 80) {
                // persistence: a second BanMan on the same file while the first is alive, then drop the first
                const bool second_first = rng.coin();
                if (second_first) {
                    BanMan second{banfile, nullptr, default_ban};
                    vh::log().line("{\"case\":" + std::to_string(c) + ",\"k\":\"ban_op\",\"step\":" + std::to_string(step) + ",\"now\":" + std::to_string(now) + ",\"op\":\"second\"," + snapshot(second) + "}");
                    vh::log().obs("op_second_instance");
                }
                bm.reset();
                bm = std::make_unique<BanMan>(banfile, nullptr, default_ban);
                op = "\"op\":\"reload\"";
                vh::log().obs("op_reload");
            } else if (pick < 84) {
                bm->ClearBanned();
                op = "\"op\":\"clear\"";
                vh::log().obs("op_clear");
            } else if (pick < 94) {
                const size_t i = rng.below(addrs.size());
                bm->Discourage(addrs[i]);
                op = "\"op\":\"discourage\",\"i\":" + std::to_string(i);
                vh::log().obs("op_discourage");
            } else {
                op = "\"op\":\"query\"";
            }
            vh::log().line("{\"case\":" + std::to_string(c) + ",\"k\":\"ban_op\",\"step\":" + std::to_string(step) + ",\"now\":" + std::to_string(now) + "," + op + "," + snapshot(*bm) + "}");
        }
        // ---- discouragement filter up to its capacity: the most recent 50000 distinct addresses must all be remembered
        if (big_every > 0 && c % big_every == static_cast<uint64_t>(big_every - 1)) {
            const uint32_t n = 50000;
            const uint32_t start = static_cast<uint32_t>(rng.next());
            const uint64_t hi = rng.next();
            auto nth = [&](uint32_t i) {
                if (i % 3 == 2) {
                    Bytes b(16, 0);
                    b[0] = 0x2a;
                    for (int k = 0; k < 8; ++k) b[1 + k] = static_cast<unsigned char>(hi >> (8 * k));
                    for (int k = 0; k < 4; ++k) b[12 + k] = static_cast<unsigned char>(i >> (8 * k));
                    return MkV6(b);
                }
                const uint32_t v = start + i;
                return MkV4(Bytes{static_cast<unsigned char>(v >> 24), static_cast<unsigned char>(v >> 16), static_cast<unsigned char>(v >> 8), static_cast<unsigned char>(v)});
            };
            for (uint32_t i = 0; i < n; ++i) bm->Discourage(nth(i));
            uint32_t miss = 0, first_miss = 0;
            for (uint32_t i = 0; i < n; ++i) {
                if (!bm->IsDiscouraged(nth(i))) {
                    if (!miss) first_miss = i;
                    ++miss;
                }
            }
            uint32_t fp = 0;
            for (uint32_t i = 0; i < 2000; ++i) fp += bm->IsDiscouraged(nth(n + 1000 + i)) ? 1 : 0;
            vh::log().rec(vh::J().u("case", c).str("k", "ban_capacity").u("n", n).u("missing", miss).u("first_missing", first_miss).u("false_positives_of_2000", fp));
            vh::log().obs("discourage_capacity_runs");
        }
        vh::log().rec(vh::J().u("case", c).str("k", "ban_end").i("ops", nops));
        bm.reset();
        fs::remove_all(dir);
    }
    SetMockTime(0);
    return 0;
}
