// C30: feerate arithmetic. One case = a batch of operand tuples for every family:
//   cmp    : ByRatio (<,>,<=,>=,==,<=>) and ByRatioNegSize (<=>,==) on FeeFrac / FeePerWeight pairs
//   mul    : FeeFrac::Mul (native 128 bit) and FeeFrac::MulFallback
//   div    : FeeFrac::Div and FeeFrac::DivFallback, both rounding directions
//   eval   : FeeFrac::EvaluateFeeDown / EvaluateFeeUp
//   chunks : CompareChunks on two sorted chunk lists
//   getfee : CFeeRate constructors, GetFee, GetFeePerK
// Inputs and outputs are logged (128-bit values as bare JSON integers); checks/C30.py recomputes with Python integers / Fractions.
#include <common/vh.h>

#include <policy/feerate.h>
#include <util/feefrac.h>

#include <algorithm>
#include <compare>
#include <limits>
#include <string>
#include <vector>

namespace {

using i128 = __int128;
constexpr int64_t I64MIN = std::numeric_limits<int64_t>::min();
constexpr int64_t I64MAX = std::numeric_limits<int64_t>::max();
constexpr int32_t I32MAX = std::numeric_limits<int32_t>::max();
constexpr int64_t MM = 2100000000000000LL;

std::string S128(i128 v)
{
    if (v == 0) return "0";
    const bool neg = v < 0;
    unsigned __int128 u = neg ? -static_cast<unsigned __int128>(v) : static_cast<unsigned __int128>(v);
    std::string r;
    while (u) {
        r += static_cast<char>('0' + static_cast<int>(u % 10));
        u /= 10;
    }
    if (neg) r += '-';
    std::reverse(r.begin(), r.end());
    return r;
}

const int64_t FEES[] = {0, 1, -1, 2, -2, 3, 1000, -1000, (int64_t{1} << 31) - 1, int64_t{1} << 31, (int64_t{1} << 31) + 1, -(int64_t{1} << 31), -(int64_t{1} << 31) - 1,
                        (int64_t{1} << 32) - 1, int64_t{1} << 32, (int64_t{1} << 32) + 1, -(int64_t{1} << 32), 0x1ffffffffLL, 0x200000000LL, 0x200000001LL, -0x200000000LL,
                        MM, MM - 1, MM + 1, -MM, int64_t{1} << 62, -(int64_t{1} << 62), I64MAX, I64MAX - 1, I64MIN, I64MIN + 1, int64_t{1} << 33, (int64_t{1} << 48) + 12345,
                        99999999999LL, -4294967297LL};
constexpr size_t N_FEES = sizeof(FEES) / sizeof(FEES[0]);
const int32_t SIZES[] = {1, 2, 3, 4, 7, 100, 250, 1000, 65535, 65536, 65537, 100000, 1000000, 4000000, 1 << 30, (1 << 30) + 1, I32MAX - 1, I32MAX, 0x7fff0001, 999, 1001};
constexpr size_t N_SIZES = sizeof(SIZES) / sizeof(SIZES[0]);

int64_t GenFeeSafe(vh::Rng& rng);
int64_t GenFee(vh::Rng& rng)
{
    switch (rng.below(8)) {
    case 0: case 1: return FEES[rng.below(N_FEES)];
    case 2: return static_cast<int64_t>(rng.next());                                       // any 64-bit value
    case 3: return rng.range(-100, 100);
    case 4: return rng.range(0, 0x400000000LL);                                          // around the fast-path limit 2^33
    case 5: return static_cast<int64_t>(rng.next() >> (1 + rng.below(63))) * (rng.coin() ? 1 : -1); // any magnitude
    case 6: return GenFeeSafe(rng);
    default: return rng.range(0, 100000000);
    }
}
// like GenFee but avoiding the two values whose +-2 neighbourhood overflows
int64_t GenFeeSafe(vh::Rng& rng)
{
    for (;;) {
        int64_t f = FEES[rng.below(N_FEES)];
        if (f > I64MAX - 4 || f < I64MIN + 4) continue;
        return f + rng.range(-2, 2);
    }
}
int32_t GenSize(vh::Rng& rng)
{
    switch (rng.below(6)) {
    case 0: case 1: return SIZES[rng.below(N_SIZES)];
    case 2: return static_cast<int32_t>(1 + rng.below(I32MAX));
    case 3: return static_cast<int32_t>(1 + rng.below(20));
    case 4: return static_cast<int32_t>(std::min<uint64_t>(I32MAX, 1 + (rng.next() >> (33 + rng.below(31)))));
    default: return static_cast<int32_t>(1 + rng.below(400000));
    }
}

template <typename T>
int Ord(T o) { return o < 0 ? 0 : (o > 0 ? 2 : 1); }

template <typename F>
std::string CmpItem(int64_t af, int32_t as, int64_t bf, int32_t bs, int tag)
{
    const F a{af, as}, b{bf, bs};
    unsigned mask = 0;
    int three_neg = Ord(ByRatioNegSize<F>{a} <=> ByRatioNegSize<F>{b});
    if (ByRatioNegSize<F>{a} == ByRatioNegSize<F>{b}) mask |= 32;
    if (a == b) mask |= 64;
    int three = 3; // 3 = not evaluated (empty operand)
    if (as > 0 && bs > 0) {
        if (ByRatio<F>{a} < ByRatio<F>{b}) mask |= 1;
        if (ByRatio<F>{a} > ByRatio<F>{b}) mask |= 2;
        if (ByRatio<F>{a} <= ByRatio<F>{b}) mask |= 4;
        if (ByRatio<F>{a} >= ByRatio<F>{b}) mask |= 8;
        if (ByRatio<F>{a} == ByRatio<F>{b}) mask |= 16;
        three = Ord(ByRatio<F>{a} <=> ByRatio<F>{b});
    }
    return "[" + std::to_string(af) + "," + std::to_string(as) + "," + std::to_string(bf) + "," + std::to_string(bs) + "," + std::to_string(mask) + "," +
           std::to_string(three) + "," + std::to_string(three_neg) + "," + std::to_string(tag) + "]";
}

bool FitsI64(i128 v) { return v >= I64MIN && v <= I64MAX; }
i128 FloorDiv(i128 n, i128 d) // d > 0
{
    i128 q = n / d, r = n % d;
    return (r < 0) ? q - 1 : q;
}
i128 CeilDiv128(i128 n, i128 d) // d > 0
{
    i128 q = n / d, r = n % d;
    return (r > 0) ? q + 1 : q;
}

// own feerate order for sorting chunk lists (higher feerate first)
bool HigherRate(const FeeFrac& a, const FeeFrac& b) { return i128{a.fee} * b.size > i128{b.fee} * a.size; }

std::vector<FeeFrac> GenChunks(vh::Rng& rng, int style)
{
    std::vector<FeeFrac> v;
    const size_t n = rng.below(style == 2 ? 4 : 9);
    for (size_t i = 0; i < n; ++i) {
        int64_t fee;
        int32_t size;
        switch (style) {
        case 0: fee = rng.range(-3, 12); size = static_cast<int32_t>(1 + rng.below(4)); break;            // tiny: ties and coincident sizes are common
        case 1: fee = rng.range(-1000, 100000); size = static_cast<int32_t>(1 + rng.below(100000)); break;
        case 2: fee = rng.range(-(int64_t{1} << 60), int64_t{1} << 60); size = static_cast<int32_t>(1 + rng.below(1 << 28)); break; // 128-bit cross products
        default: fee = rng.range(0, 5000) * 1000; size = static_cast<int32_t>(100 * (1 + rng.below(40)));
        }
        v.emplace_back(fee, size);
    }
    std::stable_sort(v.begin(), v.end(), HigherRate);
    return v;
}

std::string ChunksJson(const std::vector<FeeFrac>& v)
{
    std::string s = "[";
    for (size_t i = 0; i < v.size(); ++i) s += (i ? ",[" : "[") + std::to_string(v[i].fee) + "," + std::to_string(v[i].size) + "]";
    return s + "]";
}

} // namespace

VH_CMD(feefrac)
{
    const int n_cmp = static_cast<int>(args.geti("cmp", 200));
    const int n_mul = static_cast<int>(args.geti("mul", 100));
    const int n_div = static_cast<int>(args.geti("div", 100));
    const int n_eval = static_cast<int>(args.geti("eval", 100));
    const int n_chunks = static_cast<int>(args.geti("chunks", 12));
    const int n_getfee = static_cast<int>(args.geti("getfee", 50));
    for (uint64_t c = args.from; c < args.to; ++c) {
        vh::set_case(c);
        vh::Rng rng(args.seed, c);
        std::string out = "{\"case\":" + std::to_string(c);

        // ---- comparisons ----
        out += ",\"cmp\":[";
        for (int i = 0; i < n_cmp; ++i) {
            int64_t af, bf;
            int32_t as, bs;
            int tag = 0;
            // the first cases walk the fee table x size table systematically (pairs picked by index)
            if (c < 64 && i < 128) {
                const uint64_t k = c * 128 + i;
                af = FEES[k % N_FEES];
                as = SIZES[(k / N_FEES) % N_SIZES];
                bf = FEES[(k * 7 + 3) % N_FEES];
                bs = SIZES[(k * 5 + 1) % N_SIZES];
                tag = 1;
            } else {
                af = GenFee(rng);
                as = GenSize(rng);
                const uint64_t mode = rng.below(10);
                if (mode < 3) { // equal ratio: b = a * m / g where it stays exact and representable
                    const int64_t m = static_cast<int64_t>(1 + rng.below(6));
                    const i128 f2 = i128{af} * m, s2 = i128{as} * m;
                    if (FitsI64(f2) && s2 <= I32MAX) {
                        bf = static_cast<int64_t>(f2);
                        bs = static_cast<int32_t>(s2);
                        tag = 2;
                        if (mode == 2 && bf < I64MAX && bf > I64MIN) { // off by one satoshi: nearly equal ratios
                            bf += rng.coin() ? 1 : -1;
                            tag = 3;
                        }
                    } else {
                        bf = GenFee(rng);
                        bs = GenSize(rng);
                    }
                } else if (mode == 3) { // same fee, different size / same size, different fee
                    bf = af;
                    bs = GenSize(rng);
                    tag = 4;
                } else if (mode == 4) { // empty operand(s): only the total order (ByRatioNegSize) is specified there
                    bf = 0;
                    bs = 0;
                    if (rng.chance(1, 4)) { af = 0; as = 0; }
                    if (rng.coin()) { std::swap(af, bf); std::swap(as, bs); }
                    tag = 5;
                } else {
                    bf = GenFee(rng);
                    bs = GenSize(rng);
                }
            }
            if (i) out += ",";
            out += (i & 1) ? CmpItem<FeePerWeight>(af, as, bf, bs, tag) : CmpItem<FeeFrac>(af, as, bf, bs, tag);
        }
        out += "]";

        // ---- Mul / MulFallback ----
        out += ",\"mul\":[";
        for (int i = 0; i < n_mul; ++i) {
            int64_t a = (c < 32 && i < 64) ? FEES[(c * 64 + i) % N_FEES] : GenFee(rng);
            int32_t b;
            switch (rng.below(5)) {
            case 0: b = GenSize(rng); break;
            case 1: b = -GenSize(rng); break;
            case 2: b = 0; break;
            case 3: b = rng.coin() ? I32MAX : std::numeric_limits<int32_t>::min(); break;
            default: b = static_cast<int32_t>(rng.next());
            }
            const i128 native = FeeFrac::Mul(a, b);
            const auto fb = FeeFrac::MulFallback(a, b);
            if (i) out += ",";
            out += "[" + std::to_string(a) + "," + std::to_string(b) + "," + S128(native) + "," + std::to_string(fb.first) + "," + std::to_string(fb.second) + "]";
        }
        out += "]";

        // ---- Div / DivFallback ----  n = q*d + r with q any int64, 0 <= r < d, so that floor and ceil both fit in int64
        out += ",\"div\":[";
        for (int i = 0; i < n_div; ++i) {
            const int32_t d = GenSize(rng);
            int64_t q;
            switch (rng.below(6)) {
            case 0: q = I64MIN; break;
            case 1: q = I64MAX - 1; break;
            case 2: q = rng.range(-3, 3); break;
            case 3: q = static_cast<int64_t>(rng.next()); break;
            default: q = GenFee(rng);
            }
            int64_t r;
            switch (rng.below(4)) {
            case 0: r = 0; break;
            case 1: r = d - 1; break;
            case 2: r = d > 1 ? 1 : 0; break;
            default: r = static_cast<int64_t>(rng.below(d));
            }
            if (q == I64MAX) r = 0; // ceil would not fit
            const i128 n = i128{q} * d + r;
            const bool rd = rng.coin();
            const int64_t native = FeeFrac::Div(n, d, rd);
            const std::pair<int64_t, uint32_t> np{static_cast<int64_t>(n >> 32), static_cast<uint32_t>(static_cast<unsigned __int128>(n) & 0xffffffffu)};
            const int64_t fb = FeeFrac::DivFallback(np, d, rd);
            if (i) out += ",";
            out += "[" + S128(n) + "," + std::to_string(d) + "," + (rd ? "1" : "0") + "," + std::to_string(native) + "," + std::to_string(fb) + "]";
        }
        out += "]";

        // ---- EvaluateFeeDown / Up ----
        out += ",\"eval\":[";
        for (int i = 0; i < n_eval; ++i) {
            const int64_t fee = (c < 32 && i < 64) ? FEES[(c * 64 + i) % N_FEES] : (rng.chance(1, 4) ? GenFeeSafe(rng) : GenFee(rng));
            const int32_t size = GenSize(rng);
            int32_t at;
            switch (rng.below(6)) {
            case 0: at = 0; break;
            case 1: at = size; break;
            case 2: at = size - 1; break;
            case 3: at = static_cast<int32_t>(rng.below(static_cast<uint64_t>(size) + 1)); break;
            case 4: at = GenSize(rng); break;           // may exceed size
            default: at = 1000;
            }
            // precondition: the exact result fits in int64 (guaranteed for at <= size)
            if (at > size) {
                const i128 p = i128{fee} * at;
                if (!FitsI64(FloorDiv(p, size)) || !FitsI64(CeilDiv128(p, size))) at = static_cast<int32_t>(rng.below(static_cast<uint64_t>(size) + 1));
            }
            const FeeFrac f{fee, size};
            const int64_t down = f.EvaluateFeeDown(at), up = f.EvaluateFeeUp(at);
            if (i) out += ",";
            out += "[" + std::to_string(fee) + "," + std::to_string(size) + "," + std::to_string(at) + "," + std::to_string(down) + "," + std::to_string(up) + "]";
        }
        out += "]";

        // ---- CompareChunks ----
        out += ",\"chunks\":[";
        for (int i = 0; i < n_chunks; ++i) {
            const int style = static_cast<int>(rng.below(4));
            std::vector<FeeFrac> a = GenChunks(rng, style), b;
            switch (rng.below(5)) {
            case 0: b = a; break; // identical
            case 1: {             // one fee nudged
                b = a;
                if (!b.empty()) {
                    b[rng.below(b.size())].fee += rng.range(-1, 1);
                    std::stable_sort(b.begin(), b.end(), HigherRate);
                }
                break;
            }
            case 2: { // two adjacent chunks merged (same total, never a better diagram)
                b = a;
                if (b.size() >= 2) {
                    const size_t k = rng.below(b.size() - 1);
                    b[k] = FeeFrac{b[k].fee + b[k + 1].fee, b[k].size + b[k + 1].size};
                    b.erase(b.begin() + k + 1);
                    std::stable_sort(b.begin(), b.end(), HigherRate);
                }
                break;
            }
            case 3: { // prefix / extension
                b = a;
                if (!b.empty() && rng.coin()) b.pop_back();
                else {
                    b.emplace_back(rng.range(-5, 5), static_cast<int32_t>(1 + rng.below(5)));
                    std::stable_sort(b.begin(), b.end(), HigherRate);
                }
                break;
            }
            default: b = GenChunks(rng, style);
            }
            if (rng.coin()) std::swap(a, b);
            const std::partial_ordering r = CompareChunks(a, b);
            const int code = r == std::partial_ordering::unordered ? 3 : (r < 0 ? 0 : (r > 0 ? 2 : 1));
            if (i) out += ",";
            out += "[" + ChunksJson(a) + "," + ChunksJson(b) + "," + std::to_string(code) + "]";
        }
        out += "]";

        // ---- CFeeRate ----
        out += ",\"getfee\":[";
        for (int i = 0; i < n_getfee; ++i) {
            const int ctor = static_cast<int>(rng.below(3));
            int64_t fee;
            switch (rng.below(5)) {
            case 0: fee = rng.range(0, 100000); break;
            case 1: fee = rng.range(0, 50) ; break;
            case 2: fee = -rng.range(0, 100000); break;
            default: fee = GenFee(rng);
            }
            int32_t size = ctor == 1 ? 1000 : (rng.chance(1, 8) ? static_cast<int32_t>(-rng.range(0, 5)) : GenSize(rng));
            int32_t vb;
            switch (rng.below(5)) {
            case 0: vb = 0; break;
            case 1: vb = 1; break;
            case 2: vb = static_cast<int32_t>(rng.below(2000)); break;
            case 3: vb = size > 0 ? size : 1000; break;
            default: vb = GenSize(rng);
            }
            if (size > 0) {
                // preconditions: GetFeePerK evaluates at 1000, GetFee at vb; both exact results must fit in int64
                const i128 pk = i128{fee} * 1000;
                if (!FitsI64(FloorDiv(pk, size)) || !FitsI64(CeilDiv128(pk, size))) fee = rng.range(-1000000, 1000000);
                const i128 p = i128{fee} * vb;
                if (!FitsI64(FloorDiv(p, size)) || !FitsI64(CeilDiv128(p, size))) vb = static_cast<int32_t>(rng.below(static_cast<uint64_t>(size) + 1));
            }
            const CFeeRate rate = ctor == 0 ? CFeeRate(fee, size) : ctor == 1 ? CFeeRate(fee) : CFeeRate(FeePerVSize{fee, size});
            const CAmount got = rate.GetFee(vb);
            const CAmount perk = rate.GetFeePerVSize().IsEmpty() ? 0 : rate.GetFeePerK();
            const FeePerVSize inner = rate.GetFeePerVSize();
            if (i) out += ",";
            out += "[" + std::to_string(ctor) + "," + std::to_string(fee) + "," + std::to_string(size) + "," + std::to_string(vb) + "," + std::to_string(got) + "," + std::to_string(perk) + "," +
                   std::to_string(inner.fee) + "," + std::to_string(inner.size) + "]";
        }
        out += "]}";
        vh::log().line(out);
    }
    return 0;
}
