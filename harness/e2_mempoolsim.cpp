// E2 `mempoolsim`: one case = one history of an in-process regtest node with a mempool, driven by the transaction /
// package generator of sim_mempool.h, shadowed by the reference ledger of sim_chain.h. DESIGN §3-E2, §4 C22 C23 C27 C28 C29.
//
// params: class = consistency|template|limits|testaccept|package|mixed   (action / tx-kind mix and mempool option bias)
//         mon   = comma list of monitor families to evaluate: consistent,template,limits,testaccept,package (default: all)
//         steps_min/steps_max (actions per history), base_extra_max (spendable base blocks beyond 101)
// second command `pkgpred`: direct differential test of IsWellFormedPackage / IsChildWithParents / IsTopoSortedPackage /
//         IsConsistentPackage against the own predicates of sim_mempool.h on synthetic packages (no node).
#include <common/vh.h>
#include <sim_chain.h>
#include <sim_mempool.h>

#include <consensus/merkle.h>
#include <policy/packages.h>
#include <script/script.h>

#include <algorithm>
#include <map>
#include <set>
#include <string>
#include <vector>

namespace {
using namespace sim;

enum class Cls { CONSISTENCY, TEMPLATE, LIMITS, TESTACCEPT, PACKAGE, MIXED };
Cls ParseCls(const std::string& s)
{
    if (s == "consistency") return Cls::CONSISTENCY;
    if (s == "template") return Cls::TEMPLATE;
    if (s == "limits") return Cls::LIMITS;
    if (s == "testaccept") return Cls::TESTACCEPT;
    if (s == "package") return Cls::PACKAGE;
    return Cls::MIXED;
}

struct Mon {
    bool consistent{true}, tmpl{true}, limits{true}, testaccept{true}, package{true};
    static Mon Parse(const std::string& s)
    {
        if (s.empty() || s == "all") return Mon{};
        Mon m{false, false, false, false, false};
        size_t p = 0;
        while (p <= s.size()) {
            size_t q = s.find_first_of(",+", p);
            if (q == std::string::npos) q = s.size();
            const std::string t = s.substr(p, q - p);
            if (t == "consistent") m.consistent = true;
            if (t == "template") m.tmpl = true;
            if (t == "limits") m.limits = true;
            if (t == "testaccept") m.testaccept = true;
            if (t == "package") m.package = true;
            p = q + 1;
        }
        return m;
    }
};

// indexed by TxKind
//                                   VALID CHAIN CONFL TRUCP TRUCC TRUCS TRUCB DUSTP DUSTB DUSTC LOWFE NONST PREMA MATED NONFI FINED MISSI BADSI STRIP DUP CONFI WTWIN DROPS BIG SIGOP AMOUN DUPIN
const std::vector<uint32_t> W_TX_GENERAL = {30, 22, 10, 6, 6, 4, 3, 1, 1, 1, 5, 3, 2, 3, 3, 4, 2, 2, 2, 2, 1, 2, 3, 2, 1, 1, 1};
const std::vector<uint32_t> W_TX_LIMITS = {20, 30, 8, 8, 9, 7, 6, 2, 2, 3, 4, 1, 0, 1, 0, 1, 0, 0, 0, 1, 0, 1, 2, 10, 3, 0, 0};
const std::vector<uint32_t> W_TX_TEMPLATE = {30, 25, 6, 4, 4, 2, 1, 0, 0, 0, 2, 1, 0, 3, 1, 5, 0, 0, 0, 0, 0, 0, 2, 6, 12, 0, 0};
const std::vector<uint32_t> W_TX_TESTACCEPT = {20, 14, 10, 5, 5, 5, 4, 2, 2, 2, 7, 6, 4, 3, 5, 4, 4, 6, 4, 4, 3, 3, 3, 2, 2, 3, 2};
// indexed by PkgKind
//                                    CPFP MULTI T1P1C TBAD EPH EPHB RAND DUPS CONF UNSO MANY HEAVY NCWP PLINK PRBF SINGLE KNOWN
const std::vector<uint32_t> W_PKG = {16, 10, 8, 4, 8, 4, 10, 4, 4, 4, 2, 1, 4, 4, 5, 6, 8};

struct Hist {
    const vh::Args& args;
    uint64_t case_no;
    vh::Rng& rng;
    Cls cls;
    Mon mon;
    NodeOpts nopts;
    MpOpts mopts;
    SimNode& node;
    RefLedger& led;
    KeyRing& keys;
    BlockBuilder bb;
    MpSim mp;
    int64_t clock;
    int step{0};
    bool had_disconnect{false};
    bool allow_reorg{true};
    std::map<std::string, int64_t> st;
    std::set<std::string> sig;
    std::vector<std::string> samples;
    uint64_t nviol{0};
    PoolSnap snap;
    uint256 last_asblock_hash;
    uint256 last_asblock_tip;
    std::vector<RefBlock*> user_invalidated;
    size_t max_pool{0};

    Hist(const vh::Args& a, uint64_t c, vh::Rng& r, Cls k, const Mon& m, const NodeOpts& no, const MpOpts& mo, SimNode& n, RefLedger& l, KeyRing& kr)
        : args(a), case_no(c), rng(r), cls(k), mon(m), nopts(no), mopts(mo), node(n), led(l), keys(kr), bb(l, kr), mp(n, l, kr, r), clock(no.start_time) {}

    void Obs(const std::string& name, int64_t n = 1)
    {
        st[name] += n;
        vh::log().obs(name, n);
    }
    void Report(const Violations& vs, const std::string& action)
    {
        for (const auto& v : vs) {
            ++nviol;
            if (nviol > 10) continue;
            vh::log().violation(v.key, v.msg, vh::J().str("action", action).i("step", step).str("class", args.gets("class", "mixed")).raw("d", v.details.empty() ? "{}" : v.details).raw("mp_opts", mopts.Describe()).raw("node_opts", nopts.Describe()));
        }
    }
    void Report1(const char* key, const std::string& msg, const std::string& details, const std::string& action)
    {
        Violations v;
        v.push_back({key, msg, details});
        Report(v, action);
    }
    RefBlock* Tip() { return led.Find(node.TipHash()); }

    // ------------------------------------------------------------------ time
    void SyncClock()
    {
        if (node.Time() < clock + 10) node.SetTime(clock + 10);
    }
    uint32_t NextBlockTime(const RefBlock* parent)
    {
        int64_t t = std::max<int64_t>(parent->mtp + 1, clock - (int64_t)rng.below(30));
        if (t > clock) clock = t;
        clock += 1 + (int64_t)rng.below(90);
        return (uint32_t)t;
    }

    // ------------------------------------------------------------------ chain events -> ledger mirror
    void AbsorbChain(const std::string& action)
    {
        Report(AbsorbEvents(node, led, nullptr), action);
    }
    //! drain mempool events into the shadow; notes disconnects and removal statistics
    std::vector<MpEvent> Drain()
    {
        std::vector<MpEvent> evs = mp.Absorb();
        for (const auto& e : evs) {
            if (e.kind == MpEvent::DISCONNECTED) {
                had_disconnect = true;
                Obs("disconnects");
            } else if (e.kind == MpEvent::CONNECTED) {
                Obs("connects");
            } else if (e.kind == MpEvent::REMOVED) {
                Obs(std::string("removed_") + ReasonName(e.reason));
            } else if (e.kind == MpEvent::BLOCK_REMOVED) {
                Obs("removed_block");
            } else if (e.kind == MpEvent::ADDED) {
                Obs(e.bypassed ? "added_reorg" : "added");
            }
        }
        return evs;
    }

    // ------------------------------------------------------------------ monitors after every step
    void AfterStep(const std::string& action)
    {
        Drain();
        AbsorbChain(action);
        Report(CheckTip(node, led), action);
        snap = SnapPool(node, /*with_links=*/true);
        max_pool = std::max(max_pool, snap.entries.size());
        vh::log().obs_max("pool_size", (int64_t)snap.entries.size());
        if (mon.consistent) {
            Report(CheckShadow(mp.shadow, snap), action);
            MpCheckStats cs;
            Report(CheckMempoolConsistent(node, led, snap, mp.memo, &cs), action);
            Obs("consistent_checks");
            Obs("entries_checked", (int64_t)cs.entries);
            Obs("chained_inputs_checked", (int64_t)cs.chained_inputs);
            const uint256 h = snap.Hash();
            if (h != last_asblock_hash || snap.tip != last_asblock_tip) {
                size_t nb = 0;
                Report(CheckMempoolAsBlock(node, led, bb, snap, &nb), action);
                Obs("asblock_checks", (int64_t)nb);
                last_asblock_hash = h;
                last_asblock_tip = snap.tip;
            }
        }
        Obs("steps");
        ++step;
    }

    //! checks that follow an acceptance step (single or package); `evs` = events of the submission, `pre` = state before
    void AfterAcceptance(const std::vector<MpEvent>& evs, const PoolSnap& pre, const std::string& action, const std::map<Txid, std::pair<CAmount, int64_t>>& hints = {})
    {
        std::vector<Txid> added;
        std::vector<Evicted> evicted;
        std::map<Txid, std::pair<CAmount, int64_t>> added_info = hints;
        for (const auto& e : evs) {
            if (e.kind == MpEvent::ADDED && !e.bypassed) {
                added.push_back(e.tx->GetHash());
                CAmount delta = 0;
                auto d = pre.deltas.find(e.tx->GetHash());
                if (d != pre.deltas.end()) delta = d->second;
                added_info[e.tx->GetHash()] = {e.fee + delta, e.vsize};
            }
        }
        for (const auto& e : evs) {
            if (e.kind != MpEvent::REMOVED || e.reason != MemPoolRemovalReason::SIZELIMIT) continue;
            const Txid t = e.tx->GetHash();
            auto p = pre.entries.find(t);
            if (p != pre.entries.end()) {
                evicted.push_back({t, p->second.modfee, p->second.vsize});
            } else if (added_info.count(t)) {
                evicted.push_back({t, added_info[t].first, added_info[t].second});
            } else {
                // added and trimmed within the call without an ADDED event: fee unknown -> cannot be judged
                evicted.clear();
                Obs("eviction_unjudged");
                break;
            }
        }
        if (added.empty() && evicted.empty()) return;
        if (!mon.limits) return;
        const PoolSnap after = SnapPool(node, false, /*with_minfee=*/!evicted.empty());
        if (!added.empty()) {
            Obs("acceptance_checks");
            LimitsCtx ctx{mopts, had_disconnect};
            LimitsStats ls;
            Report(CheckLimits(after, ctx, &ls), action);
            vh::log().obs_max("cluster_count", (int64_t)ls.max_cluster_count);
            vh::log().obs_max("cluster_weight", (int64_t)ls.max_cluster_weight);
            if (ls.max_cluster_count >= mopts.cluster_count) Obs("cluster_count_at_limit");
            if (ls.truc_pairs) Obs("truc_pairs_seen");
            if (!had_disconnect && ls.truc_entries) Obs("truc_checked");
            if (mopts.require_standard) {
                Report(CheckEphemeralOnAccept(added, after), action);
                for (const auto& t : added) {
                    auto it = after.entries.find(t);
                    if (it == after.entries.end()) continue;
                    for (const auto& o : it->second.tx->vout) {
                        if (OwnIsDust(o)) {
                            Obs("dust_tx_accepted");
                            break;
                        }
                    }
                    for (const auto& in : it->second.tx->vin) {
                        auto pe = after.entries.find(in.prevout.hash);
                        if (pe != after.entries.end() && in.prevout.n < pe->second.tx->vout.size() && OwnIsDust(pe->second.tx->vout[in.prevout.n])) Obs("dust_spent_by_child");
                    }
                }
            }
            if (after.mem_usage * 10 >= (size_t)mopts.max_size_bytes * 8) Obs("memory_near_limit");
            vh::log().obs_max("mem_permille", (int64_t)(after.mem_usage * 1000 / (size_t)mopts.max_size_bytes));
        }
        if (!evicted.empty()) {
            Obs("evictions_judged");
            Report(CheckEvictionMinFee(evicted, after.min_fee_per_k), action);
        }
    }

    // spent outputs of tx resolved from the pool snapshot / the model UTXO; false if something is missing
    bool ResolveSpent(const CTransaction& tx, const PoolSnap& s, std::vector<CTxOut>& spent)
    {
        RefBlock* tip = led.Find(s.tip);
        if (!tip || !led.ChainValid(tip)) return false;
        const RefUtxo& u = led.Utxo(tip);
        for (const auto& in : tx.vin) {
            auto pe = s.entries.find(in.prevout.hash);
            if (pe != s.entries.end()) {
                if (in.prevout.n >= pe->second.tx->vout.size()) return false;
                spent.push_back(pe->second.tx->vout[in.prevout.n]);
                continue;
            }
            auto c = u.find(in.prevout);
            if (c == u.end()) return false;
            spent.emplace_back(c->second.value, c->second.spk);
        }
        return true;
    }
    void PolicyImpliesConsensus(const CTransactionRef& tx, const PoolSnap& pre, const std::string& action, const std::vector<CTransactionRef>& pkg = {})
    {
        std::vector<CTxOut> spent;
        PoolSnap view = pre;
        for (const auto& p : pkg) {
            if (!view.entries.count(p->GetHash())) {
                PoolEntry e;
                e.tx = p;
                view.entries.emplace(p->GetHash(), e);
            }
        }
        if (!ResolveSpent(*tx, view, spent)) return;
        const script_verify_flags flags = OwnBlockScriptFlags(led.Params(), pre.tip_height + 1);
        const std::string err = VerifyAllInputs(*tx, spent, flags, &mp.memo);
        Obs("policy_consensus_checks");
        if (!err.empty()) {
            Report1("policy-accept-consensus-fail", "a transaction accepted by the policy script checks fails VerifyScript under the next block's consensus flags",
                    vh::J().str("tx", tx->GetHash().ToString()).str("error", err).done(), action);
        }
    }

    // ------------------------------------------------------------------ actions
    const std::vector<uint32_t>& TxWeights() const
    {
        switch (cls) {
        case Cls::LIMITS: return W_TX_LIMITS;
        case Cls::TEMPLATE: return W_TX_TEMPLATE;
        case Cls::TESTACCEPT: return W_TX_TESTACCEPT;
        default: return W_TX_GENERAL;
        }
    }

    void SubmitSingle()
    {
        SyncClock();
        PoolSnap pre = SnapPool(node, false, /*with_minfee=*/true);
        GenTx g = mp.gen.MakeRandom(TxWeights(), pre);
        if (!g.tx) {
            Obs("gen_failed");
            return;
        }
        const std::string action = std::string("tx:") + TxKindName(g.kind) + (g.tag.empty() ? "" : ":" + g.tag);
        Obs(std::string("kind_") + TxKindName(g.kind));
        const bool do_test = cls == Cls::TESTACCEPT || rng.chance(1, 2);
        if (rng.chance(1, 25)) {
            static const int64_t ds[] = {1000, -1000, 1, -1, 100000};
            Prioritise(node, g.tx->GetHash(), ds[rng.below(5)]);
            Obs("tx_preprioritised");
            pre = SnapPool(node, false, /*with_minfee=*/true);
        }
        std::optional<TxResult> t;
        if (do_test) {
            const uint256 h0 = pre.Hash();
            std::vector<COutPoint> probes;
            for (const auto& in : g.tx->vin) probes.push_back(in.prevout);
            for (uint32_t n = 0; n < g.tx->vout.size() && n < 4; ++n) probes.emplace_back(g.tx->GetHash(), n);
            std::vector<std::string> before, after;
            for (const auto& o : probes) before.push_back(CoinJson(node.PeekCoin(o)));
            const uint256 tip0 = node.TipHash();
            t = SubmitTx(node, g.tx, /*test_accept=*/true);
            std::vector<MpEvent> tevs = Drain();
            const PoolSnap mid = SnapPool(node, false);
            for (const auto& o : probes) after.push_back(CoinJson(node.PeekCoin(o)));
            Obs("testaccepts");
            if (mon.testaccept) {
                size_t nmp = 0;
                for (const auto& e : tevs) nmp += e.kind == MpEvent::ADDED || e.kind == MpEvent::REMOVED || e.kind == MpEvent::BLOCK_REMOVED;
                if (mid.Hash() != h0 || nmp != 0 || before != after || node.TipHash() != tip0) {
                    Report1("testaccept-side-effect", "test-accepting a transaction changed the mempool contents, emitted mempool events or changed UTXO view answers",
                            vh::J().str("tx", g.tx->GetHash().ToString()).str("result", t->Str()).b("pool_changed", mid.Hash() != h0).u("events", nmp).b("coins_changed", before != after).u("count_before", pre.count).u("count_after", mid.count).done(), action);
                }
                if (t->Valid()) PolicyImpliesConsensus(g.tx, pre, action);
            }
        }
        const TxResult r = SubmitTx(node, g.tx, /*test_accept=*/false);
        std::vector<MpEvent> evs = Drain();
        Obs("submits");
        Obs(r.Valid() ? "accepted" : "rejected");
        Obs("res:" + r.ReasonClass());
        sig.insert(std::string(TxKindName(g.kind)) + ">" + r.ReasonClass());
        if (!r.replaced.empty()) Obs("rbf_accepted");
        if (t && mon.testaccept) {
            Obs("testaccept_pairs");
            const bool same = t->type == r.type && t->code == r.code && t->reason == r.reason && t->vsize == r.vsize && t->fee == r.fee;
            const bool full = r.type == MempoolAcceptResult::ResultType::INVALID && r.reason == "mempool full";
            if (t->Valid()) Obs("testaccept_valid");
            else Obs("testaccept_invalid");
            if (full) Obs("submit_mempool_full");
            if (!same && !(t->Valid() && full)) {
                Report1("testaccept-verdict-differs", "test-accept and the immediately following submission of the same transaction returned different verdicts",
                        vh::J().str("tx", g.tx->GetHash().ToString()).str("test", t->Str()).str("submit", r.Str()).i("test_vsize", t->vsize.value_or(-1)).i("submit_vsize", r.vsize.value_or(-1)).i("test_fee", t->fee.value_or(-1)).i("submit_fee", r.fee.value_or(-1)).str("test_debug", t->debug).str("submit_debug", r.debug).done(), action);
            }
        }
        if (r.Valid() && mon.testaccept) PolicyImpliesConsensus(g.tx, pre, action);
        if (samples.size() < 6 && rng.chance(1, 20)) samples.push_back(vh::J().str("action", action).str("result", r.Str()).i("fee", g.fee).u("pool", pre.count).done());
        std::map<Txid, std::pair<CAmount, int64_t>> hints;
        if (g.fee >= 0) {
            // (modified fee, own vsize) of the submitted transaction, in case it is trimmed within the call (no ADDED event then)
            std::vector<CTxOut> spent;
            if (ResolveSpent(*g.tx, pre, spent)) {
                std::vector<RefCoin> rc(spent.size());
                std::vector<const RefCoin*> rp;
                for (size_t i = 0; i < spent.size(); ++i) {
                    rc[i].value = spent[i].nValue;
                    rc[i].spk = spent[i].scriptPubKey;
                    rp.push_back(&rc[i]);
                }
                CAmount delta = 0;
                auto d = pre.deltas.find(g.tx->GetHash());
                if (d != pre.deltas.end()) delta = d->second;
                hints[g.tx->GetHash()] = {g.fee + delta, OwnVsize(RefLedger::TxWeight(*g.tx), RefLedger::SigOpCost(*g.tx, rp))};
            }
        }
        AfterAcceptance(evs, pre, action, hints);
        AfterStep(action);
    }

    void SubmitPkg()
    {
        SyncClock();
        PoolSnap pre = SnapPool(node, false, /*with_minfee=*/true);
        GenPkg gp = mp.gen.MakeRandomPackage(W_PKG, pre);
        if (gp.txs.empty()) {
            Obs("gen_failed");
            return;
        }
        const std::string action = std::string("pkg:") + PkgKindName(gp.kind) + (gp.tag.empty() ? "" : ":" + gp.tag);
        const PkgShape shape = OwnPackageShape(gp.txs);
        const bool test = rng.chance(1, 12);
        if (rng.chance(1, 6)) {
            // fee delta registered for a package member before it is seen (prioritisation of a not yet known txid)
            static const int64_t ds[] = {1000, -1000, 1, 100000};
            Prioritise(node, gp.txs[rng.below(gp.txs.size())]->GetHash(), ds[rng.below(4)]);
            Obs("pkg_preprioritised");
            pre = SnapPool(node, false, /*with_minfee=*/true);
        }
        const uint256 h0 = pre.Hash();
        const PkgResult r = SubmitPackage(node, gp.txs, test);
        std::vector<MpEvent> evs = Drain();
        const PoolSnap after = SnapPool(node, false);
        Obs(test ? "pkg_testaccepts" : "pkg_submits");
        Obs(std::string("pkgkind_") + PkgKindName(gp.kind));
        Obs("pkgshape:" + shape.Str());
        Obs("pkgres:" + (r.state_valid ? std::string("ok") : r.reason));
        sig.insert(std::string("P") + PkgKindName(gp.kind) + ">" + (r.state_valid ? "ok" : r.reason) + "/" + std::to_string(std::min<size_t>(gp.txs.size(), 5)));
        size_t nmp = 0;
        for (const auto& e : evs) nmp += e.kind == MpEvent::ADDED || e.kind == MpEvent::REMOVED;
        if (mon.package && !test) {
            Obs("packages_judged");
            if (!shape.Evaluable()) {
                Obs("pkg_illformed");
                if (!r.tx.empty() || after.Hash() != h0 || nmp != 0) {
                    Report1("pkg-illformed-evaluated", "a package that is not well-formed (or not child-with-parents) had members evaluated or changed the mempool",
                            vh::J().str("shape", shape.Str()).u("n", gp.txs.size()).u("results", r.tx.size()).b("pool_changed", after.Hash() != h0).u("events", nmp).str("state", r.reason).done(), action);
                }
            } else {
                Obs("pkg_evaluable");
                RefBlock* tip = led.Find(after.tip);
                const RefUtxo* utxo = tip && led.ChainValid(tip) ? &led.Utxo(tip) : nullptr;
                std::set<Txid> pkg_txids;
                for (const auto& tx : gp.txs) pkg_txids.insert(tx->GetHash());
                for (const auto& tx : gp.txs) {
                    auto me = after.entries.find(tx->GetHash());
                    const bool in_pool_wtxid = me != after.entries.end() && me->second.tx->GetWitnessHash() == tx->GetWitnessHash();
                    const bool in_pool_txid = me != after.entries.end();
                    // no dangling children
                    if (in_pool_txid && utxo) {
                        for (const auto& in : tx->vin) {
                            if (!pkg_txids.count(in.prevout.hash)) continue;
                            if (!after.entries.count(in.prevout.hash) && !utxo->count(in.prevout)) {
                                Report1("pkg-dangling-child", "after package evaluation a package transaction is in the mempool while an in-package parent is neither in the mempool nor confirmed",
                                        vh::J().str("child", tx->GetHash().ToString()).str("parent", in.prevout.hash.ToString()).done(), action);
                            }
                        }
                    }
                    auto res = r.tx.find(tx->GetWitnessHash());
                    if (res == r.tx.end()) {
                        Obs("pkg_tx_no_result");
                        continue;
                    }
                    Obs("pkg_tx_results");
                    Obs("pkgtx:" + res->second.ReasonClass());
                    const TxResult& tr = res->second;
                    bool ok = true;
                    switch (tr.type) {
                    case MempoolAcceptResult::ResultType::VALID:
                    case MempoolAcceptResult::ResultType::MEMPOOL_ENTRY: ok = in_pool_wtxid; break;
                    case MempoolAcceptResult::ResultType::DIFFERENT_WITNESS: ok = in_pool_txid && !in_pool_wtxid && tr.other_wtxid && *tr.other_wtxid == me->second.tx->GetWitnessHash(); break;
                    case MempoolAcceptResult::ResultType::INVALID: ok = !in_pool_wtxid; break;
                    }
                    if (!ok) {
                        Report1("pkg-result-mismatch", "a package member's reported result does not match whether it is in the mempool",
                                vh::J().str("tx", tx->GetHash().ToString()).str("result", tr.Str()).b("in_pool_by_wtxid", in_pool_wtxid).b("in_pool_by_txid", in_pool_txid).str("pkg_state", r.reason).done(), action);
                    }
                }
                if (r.state_valid) Obs("pkg_all_ok");
                else Obs("pkg_failed_or_partial");
            }
        }
        if (mon.testaccept && !test) {
            for (const auto& tx : gp.txs) {
                auto res = r.tx.find(tx->GetWitnessHash());
                if (res != r.tx.end() && res->second.Valid()) PolicyImpliesConsensus(tx, pre, action, gp.txs);
            }
        }
        if (samples.size() < 6 && rng.chance(1, 15)) samples.push_back(vh::J().str("action", action).str("shape", shape.Str()).u("n", gp.txs.size()).str("result", r.Str().substr(0, 300)).done());
        if (!test) AfterAcceptance(evs, pre, action);
        AfterStep(action);
    }

    void PrioritiseSome()
    {
        Txid target;
        bool in_pool = false;
        if (!snap.entries.empty() && rng.chance(5, 6)) {
            auto it = snap.entries.begin();
            std::advance(it, rng.below(snap.entries.size()));
            target = it->first;
            in_pool = true;
        } else {
            target = Txid::FromUint256(uint256(rng.bytes(32)));
        }
        static const int64_t ds[] = {1, -1, 1000, -1000, 100000, -100000, 50000000, -50000000};
        CAmount d = ds[rng.below(8)];
        if (in_pool && rng.chance(1, 4)) d = -snap.entries.at(target).modfee; // modified fee exactly 0
        if (in_pool && rng.chance(1, 6)) {
            auto dl = snap.deltas.find(target);
            if (dl != snap.deltas.end()) d = -dl->second; // clears the delta
        }
        if (d == 0) d = 1;
        Prioritise(node, target, d);
        Obs("prioritise");
        AfterStep("prioritise");
    }

    void TimeJump()
    {
        static const int64_t js[] = {60, 600, 3600, 7200, 6 * 3600, 24 * 3600};
        int64_t j = js[rng.below(6)];
        if (rng.chance(1, 4)) j = mopts.expiry_s / 2 + (int64_t)rng.below((uint64_t)mopts.expiry_s / 2 + 1);
        clock += j;
        SyncClock();
        Obs("time_jumps");
        if (rng.chance(1, 3)) {
            const int n = ExpirePool(node, node.Time() - mopts.expiry_s);
            if (n) Obs("direct_expire_removed", n);
        }
        AfterStep("timejump");
    }

    void TrimDirect()
    {
        if (snap.entries.empty()) return;
        const size_t usage = snap.mem_usage;
        TrimPool(node, usage * (50 + rng.below(50)) / 100);
        Obs("direct_trims");
        AfterStep("trim");
    }

    RefBlock* DeliverNew(const std::shared_ptr<CBlock>& blk, const std::string& tag, const std::string& action)
    {
        BlockMeta m;
        m.tag = tag;
        RefBlock* rb = led.Add(blk, m);
        if (!rb) throw std::runtime_error("mempoolsim: block with unknown parent");
        SyncClock();
        DeliverOpts o;
        DeliverResult d = Deliver(node, led, rb, o);
        Report(d.violations, action);
        return rb;
    }

    TemplateOpts RandTemplateOpts()
    {
        TemplateOpts o;
        switch (rng.below(5)) {
        case 0: o.max_weight = 4000 + rng.below(16000); break;
        case 1: o.max_weight = 20000 + rng.below(200000); break;
        case 2: o.max_weight = 400000 + rng.below(3600001); break;
        default: o.max_weight = 4000000; break;
        }
        o.reserved_weight = 2000 + rng.below(6001);
        if (o.reserved_weight > o.max_weight) o.reserved_weight = o.max_weight;
        static const CAmount fr[] = {0, 1, 1, 100, 1000, 5000, 30000};
        o.min_feerate_per_k = fr[rng.below(7)];
        static const size_t so[] = {0, 400, 400, 1000, 40000, 76000, 79000, 80000};
        o.cb_sigops = so[rng.below(8)];
        o.cb_script = mp.gen.RandSpk();
        return o;
    }

    void Template(bool mine)
    {
        SyncClock();
        const TemplateOpts o = RandTemplateOpts();
        std::string err;
        std::unique_ptr<node::CBlockTemplate> t = MakeTemplate(node, o, &err);
        if (!t) {
            Obs("template_refused");
            return;
        }
        Obs("templates");
        TemplateFacts f;
        if (mon.tmpl) {
            Report(CheckTemplate(node, led, *t, o, &f), "template");
            vh::log().rec(vh::J().str("t", "tmpl").u("case", case_no).i("step", step).raw("opts", o.Describe()).raw("facts", f.Json()).u("pool", snap.entries.size()));
            if (f.ntx) Obs("templates_nonempty");
            if (f.ntx && f.ntx < snap.entries.size()) Obs("templates_partial");
            if (f.weight + 4000 > (int64_t)o.max_weight && f.ntx < snap.entries.size()) Obs("templates_weight_bound");
            if (f.tx_sigops + (int64_t)o.cb_sigops + 2000 > 80000 && f.ntx < snap.entries.size()) Obs("templates_sigops_bound");
            sig.insert("T" + std::to_string(std::min<size_t>(f.ntx, 9)) + "/" + std::to_string(o.max_weight > 1000000 ? 2 : o.max_weight > 20000 ? 1 : 0));
        }
        if (mine) {
            auto blk = std::make_shared<CBlock>(t->block);
            blk->hashMerkleRoot = BlockMerkleRoot(*blk);
            BlockBuilder::Solve(*blk);
            if ((int64_t)blk->nTime > clock) clock = blk->nTime;
            clock += 1 + (int64_t)rng.below(90);
            RefBlock* rb = DeliverNew(blk, "template", "mine-template");
            Obs("template_blocks");
            if (mon.tmpl) {
                if (!rb->SelfValid()) {
                    std::string why;
                    for (const auto& fl : rb->faults) why += fl.reason + " ";
                    Report1("template-model-invalid", "a mined block template is invalid by the reference model's consensus rules", vh::J().str("faults", why).u("ntx", blk->vtx.size()).done(), "mine-template");
                }
                if (node.TipHash() != rb->hash) {
                    Report1("template-not-accepted", "a mined block template did not become the active tip after ProcessNewBlock", vh::J().str("block", rb->hash.ToString()).str("tip", node.TipHash().ToString()).done(), "mine-template");
                }
            }
            AfterStep("mine-template");
        } else {
            AfterStep("template");
        }
    }

    //! candidates: a random ancestor-closed part of the pool in topological order, plus fresh conflicting transactions
    std::vector<CTransactionRef> PoolCandidates(unsigned keep_num, unsigned keep_den, bool with_conflicts)
    {
        std::vector<CTransactionRef> c;
        bool cycle = false;
        std::set<Txid> dropped;
        for (const Txid& t : TopoOrder(snap, &cycle)) {
            const PoolEntry& e = snap.entries.at(t);
            bool parent_dropped = false;
            for (const auto& in : e.tx->vin) parent_dropped = parent_dropped || dropped.count(in.prevout.hash);
            if (parent_dropped || !rng.chance(keep_num, keep_den)) {
                dropped.insert(t);
                if (with_conflicts && !parent_dropped && rng.chance(1, 3)) {
                    GenTx g = mp.gen.MakeConflict(t, snap, 1000);
                    if (g.tx && g.kind == TxKind::CONFLICT) {
                        c.push_back(g.tx);
                        Obs("block_conflict_txs");
                    }
                }
                continue;
            }
            c.push_back(e.tx);
        }
        return c;
    }

    void MineSubset()
    {
        RefBlock* tip = Tip();
        if (!tip) return;
        std::vector<CTransactionRef> cands = PoolCandidates(1 + rng.below(4), 4, /*with_conflicts=*/true);
        std::vector<CTransactionRef> txs = mp.gen.SelectValidForBlock(tip, cands);
        BlockSpec spec = mp.gen.BaseBlockSpec(tip, NextBlockTime(tip));
        auto blk = bb.Build(tip, txs, spec);
        RefBlock* rb = DeliverNew(blk, "subset", "mine-subset");
        if (!rb->SelfValid()) throw std::runtime_error("mempoolsim: generator built an invalid subset block: " + (rb->faults.empty() ? std::string("?") : rb->faults[0].reason));
        Obs("subset_blocks");
        if (!txs.empty()) Obs("subset_blocks_with_txs");
        AfterStep("mine-subset");
    }

    void Reorg()
    {
        RefBlock* tip = Tip();
        if (!tip) return;
        const int depth = 1 + (int)rng.below(3);
        RefBlock* fork = tip;
        std::vector<RefBlock*> disconnected;
        for (int i = 0; i < depth && fork->parent && fork->height > 102; ++i) {
            disconnected.push_back(fork);
            fork = fork->parent;
        }
        if (disconnected.empty()) return;
        // candidates for the new branch: transactions of the disconnected blocks (oldest first), then the pool
        std::vector<CTransactionRef> cands;
        for (auto it = disconnected.rbegin(); it != disconnected.rend(); ++it) {
            for (size_t i = 1; i < (*it)->block->vtx.size(); ++i) {
                if (rng.chance(2, 3)) cands.push_back((*it)->block->vtx[i]);
            }
        }
        for (const auto& tx : PoolCandidates(1, 3, /*with_conflicts=*/true)) cands.push_back(tx);
        RefBlock* p = fork;
        const size_t len = disconnected.size() + 1;
        for (size_t i = 0; i < len; ++i) {
            std::vector<CTransactionRef> pick;
            for (const auto& tx : cands) {
                if (rng.chance(1, 2)) pick.push_back(tx);
            }
            std::vector<CTransactionRef> txs = rng.chance(1, 4) ? std::vector<CTransactionRef>{} : mp.gen.SelectValidForBlock(p, pick);
            BlockSpec spec = mp.gen.BaseBlockSpec(p, NextBlockTime(p));
            auto blk = bb.Build(p, txs, spec);
            RefBlock* rb = DeliverNew(blk, "branch", "reorg");
            if (!rb->SelfValid()) throw std::runtime_error("mempoolsim: generator built an invalid branch block: " + (rb->faults.empty() ? std::string("?") : rb->faults[0].reason));
            p = rb;
        }
        Obs("reorgs");
        vh::log().obs_max("reorg_depth", (int64_t)disconnected.size());
        sig.insert("reorg" + std::to_string(disconnected.size()));
        AfterStep("reorg");
    }

    void InvalidateSome()
    {
        RefBlock* tip = Tip();
        if (!tip || tip->height < 105) return;
        const int d = (int)rng.below(3);
        RefBlock* victim = tip;
        for (int i = 0; i < d; ++i) victim = victim->parent;
        SyncClock();
        if (!node.Invalidate(victim->hash, true)) return;
        led.MarkFailed(victim);
        victim->user_invalid = true;
        user_invalidated.push_back(victim);
        Obs("invalidates");
        sig.insert("inval" + std::to_string(d + 1));
        AfterStep("invalidate");
    }
    void ReconsiderSome()
    {
        if (user_invalidated.empty()) return;
        const size_t i = rng.below(user_invalidated.size());
        RefBlock* b = user_invalidated[i];
        user_invalidated.erase(user_invalidated.begin() + i);
        SyncClock();
        if (!node.Reconsider(b->hash)) return;
        led.ClearFailed(b);
        Obs("reconsiders");
        AfterStep("reconsider");
    }

    void Step()
    {
        // action weights: single, package, prioritise, timejump, template(no mine), mine template, mine subset, reorg, invalidate, reconsider, trim
        std::vector<uint32_t> w;
        switch (cls) {
        case Cls::CONSISTENCY: w = {50, 10, 5, 4, 2, 3, 4, 5, 4, 2, 1}; break;
        case Cls::TEMPLATE: w = {50, 6, 5, 2, 24, 5, 2, 2, 1, 1, 1}; break;
        case Cls::LIMITS: w = {66, 14, 4, 3, 1, 1, 1, 2, 1, 1, 1}; break;
        case Cls::TESTACCEPT: w = {74, 4, 4, 3, 1, 3, 2, 3, 2, 1, 1}; break;
        case Cls::PACKAGE: w = {24, 54, 4, 2, 1, 3, 2, 3, 2, 1, 1}; break;
        case Cls::MIXED: w = {42, 18, 5, 4, 6, 4, 4, 5, 3, 2, 1}; break;
        }
        if (!allow_reorg) w[7] = w[8] = w[9] = 0;
        // keep the pool populated: when it is small, submit
        if (snap.entries.size() < 8 && rng.chance(2, 3)) {
            SubmitSingle();
            return;
        }
        switch (rng.weighted(w)) {
        case 0: SubmitSingle(); break;
        case 1: SubmitPkg(); break;
        case 2: PrioritiseSome(); break;
        case 3: TimeJump(); break;
        case 4: Template(false); break;
        case 5: Template(true); break;
        case 6: MineSubset(); break;
        case 7: Reorg(); break;
        case 8: InvalidateSome(); break;
        case 9: ReconsiderSome(); break;
        case 10: TrimDirect(); break;
        }
    }
};

MpOpts RandomMpOpts(vh::Rng& rng, Cls cls)
{
    MpOpts o;
    const bool small = cls == Cls::LIMITS || rng.chance(1, 3);
    if (small) {
        static const unsigned cc[] = {3, 4, 5, 8, 12, 25, 64};
        o.cluster_count = cc[rng.below(7)];
        static const int64_t cs[] = {1000, 2000, 2000, 4000, 4000, 10000, 101000};
        o.cluster_size_vbytes = cs[rng.below(7)];
        // the node refuses -maxmempool below 40 x cluster size; most histories sit right at that floor so that trimming happens
        const int64_t floor_bytes = o.cluster_size_vbytes * 40;
        o.max_size_bytes = std::max<int64_t>(floor_bytes, 40000) + (int64_t)rng.below(40000);
        if (o.max_size_bytes > 500000) o.max_size_bytes = std::max<int64_t>(floor_bytes, 60000 + (int64_t)rng.below(200000));
        if (rng.chance(1, 6)) o.max_size_bytes = std::max<int64_t>(floor_bytes, 5000000);
    }
    static const int64_t ex[] = {2 * 3600, 6 * 3600, 24 * 3600, 72 * 3600, 336 * 3600};
    o.expiry_s = ex[rng.below(5)];
    return o;
}

} // namespace

VH_CMD(mempoolsim)
{
    const std::string cls_name = args.gets("class", "mixed");
    const Cls cls = ParseCls(cls_name);
    const Mon mon = Mon::Parse(args.gets("mon", "all"));
    const int steps_min = (int)args.geti("steps_min", 250), steps_max = (int)args.geti("steps_max", 350);
    const int base_extra_max = (int)args.geti("base_extra_max", 60);
    for (uint64_t c = args.from; c < args.to; ++c) {
        vh::set_case(c);
        vh::Rng rng(args.seed, c);
        NodeOpts nopts;
        nopts.worker_threads = rng.coin() ? 0 : 2;
        nopts.prevoutfetch_threads = rng.coin() ? 0 : 2;
        nopts.check_block_index = 0;
        if (rng.chance(1, 3)) {
            nopts.sig_cache_bytes = 0;
            nopts.script_cache_bytes = 0;
        }
        const MpOpts mopts = RandomMpOpts(rng, cls);
        SimNode node(nopts);
        InstallMempool(node, mopts);
        RefLedger led(RefParams::FromNodeOpts(nopts));
        KeyRing keys(rng, 6);
        {
            Hist h(args, c, rng, cls, mon, nopts, mopts, node, led, keys);
            h.allow_reorg = !(cls == Cls::LIMITS && rng.coin());
            const int base = 101 + 25 + (int)rng.below((uint64_t)base_extra_max + 1);
            const int nsteps = (int)rng.range(steps_min, steps_max);
            // ---- base chain (no per-block monitors: the chain engine's own checks cover this)
            for (int i = 0; i < base; ++i) {
                RefBlock* tip = h.Tip();
                BlockSpec spec = h.mp.gen.BaseBlockSpec(tip, (uint32_t)std::max<int64_t>(tip->mtp + 1, h.clock));
                h.clock += 30 + (int64_t)rng.below(60);
                auto blk = h.bb.Build(tip, {}, spec);
                RefBlock* rb = h.DeliverNew(blk, "base", "base");
                if (!rb->SelfValid() || node.TipHash() != rb->hash) throw std::runtime_error("mempoolsim: base block refused");
            }
            h.Drain();
            h.AbsorbChain("base");
            h.had_disconnect = false;
            h.snap = SnapPool(node, true);
            // ---- history
            while (h.step < nsteps) {
                const int before = h.step;
                h.Step();
                if (h.step == before) ++h.step; // an action that could not be performed still consumes a step
            }
            h.AfterStep("final");
            std::string sig;
            for (const auto& s : h.sig) sig += s + ",";
            vh::J j;
            j.str("t", "hist").u("case", c).str("class", cls_name).i("base", base).i("steps", nsteps).i("tip_height", node.TipHeight()).u("max_pool", h.max_pool).u("violations", h.nviol)
                .b("had_disconnect", h.had_disconnect).u("unknown_removals", h.mp.unknown_removals).u("script_verifies", h.mp.memo.verifies).u("script_memo_hits", h.mp.memo.hits).str("sig", sig).raw("mp_opts", mopts.Describe());
            std::string stj = "{";
            bool first = true;
            for (const auto& [k, v] : h.st) {
                stj += (first ? "" : ",") + vh::JStr(k) + ":" + std::to_string(v);
                first = false;
            }
            j.raw("st", stj + "}");
            j.raw("samples", vh::JArr(h.samples));
            vh::log().rec(j);
            vh::log().obs("histories");
            vh::log().obs("script_verifies", (int64_t)h.mp.memo.verifies);
        }
    }
    return 0;
}

// =========================================================================================================
// pkgpred: direct differential test of the context-free package predicates
// =========================================================================================================
namespace {
CTransactionRef SynthTx(vh::Rng& rng, const std::vector<COutPoint>& ins, size_t nout, size_t pad)
{
    CMutableTransaction m;
    m.version = 2;
    for (const auto& o : ins) m.vin.emplace_back(o);
    for (size_t i = 0; i < nout; ++i) {
        CScript s;
        s << OP_RETURN << rng.bytes(4 + (i == 0 ? pad : 0));
        m.vout.emplace_back((CAmount)rng.below(100000), s);
    }
    return MakeTransactionRef(m);
}
} // namespace

VH_CMD(pkgpred)
{
    for (uint64_t c = args.from; c < args.to; ++c) {
        vh::set_case(c);
        vh::Rng rng(args.seed, c);
        // a pool of external outpoints (small, so that conflicts happen) and a package built over them
        std::vector<COutPoint> ext;
        const size_t next = 2 + rng.below(30);
        for (size_t i = 0; i < next; ++i) ext.emplace_back(Txid::FromUint256(uint256(rng.bytes(32))), (uint32_t)rng.below(3));
        const int shape = (int)rng.below(8);
        size_t n = 1 + rng.below(8);
        if (shape == 6) n = 20 + rng.below(10); // around the count limit
        const bool heavy = shape == 7;
        Package pkg;
        std::vector<COutPoint> made; // outputs of package txs
        for (size_t i = 0; i < n; ++i) {
            std::vector<COutPoint> ins;
            const size_t nin = rng.chance(1, 40) ? 0 : 1 + rng.below(3);
            for (size_t k = 0; k < nin; ++k) {
                if (!made.empty() && rng.chance(1, 2)) ins.push_back(made[rng.below(made.size())]);
                else ins.push_back(ext[rng.below(ext.size())]);
            }
            const size_t nout = 1 + rng.below(3);
            size_t pad = 0;
            if (heavy) pad = 20000 + rng.below(40000); // weight ~ 4*pad: 1..8 txs straddle 404000
            CTransactionRef tx = SynthTx(rng, ins, nout, pad);
            pkg.push_back(tx);
            for (uint32_t o = 0; o < nout; ++o) made.emplace_back(tx->GetHash(), o);
        }
        // child-with-parents bias: last tx spends every other one
        if (shape == 1 || shape == 2) {
            std::vector<COutPoint> ins;
            for (const auto& tx : pkg) {
                if (shape == 2 && rng.chance(1, 6)) continue; // one parent left out sometimes
                ins.emplace_back(tx->GetHash(), 0);
            }
            if (!ins.empty()) pkg.push_back(SynthTx(rng, ins, 1, 0));
        }
        if (shape == 3 && pkg.size() > 1) rng.shuffle(pkg);
        if (shape == 4) pkg.insert(pkg.begin() + rng.below(pkg.size() + 1), pkg[rng.below(pkg.size())]); // duplicate
        if (shape == 5 && pkg.size() > 1) std::swap(pkg[0], pkg[pkg.size() - 1]);

        const PkgShape own = OwnPackageShape(pkg);
        PackageValidationState st;
        const bool wf = IsWellFormedPackage(pkg, st);
        const bool cwp = IsChildWithParents(pkg);
        const bool cons = IsConsistentPackage(pkg);
        // IsTopoSortedPackage is documented to require distinct txids: only called then
        int topo = -1;
        if (own.no_dups) topo = IsTopoSortedPackage(pkg) ? 1 : 0;

        // compact description for the offline re-check: txids as indices, inputs as (txindex|-1-extindex, n), weights
        std::map<Txid, size_t> idx;
        std::vector<std::string> txs;
        std::map<COutPoint, size_t> extidx;
        for (size_t i = 0; i < ext.size(); ++i) extidx.emplace(ext[i], i);
        std::vector<size_t> ids;
        for (const auto& tx : pkg) ids.push_back(idx.emplace(tx->GetHash(), idx.size()).first->second);
        for (size_t i = 0; i < pkg.size(); ++i) {
            std::string ins = "[";
            for (size_t k = 0; k < pkg[i]->vin.size(); ++k) {
                const COutPoint& o = pkg[i]->vin[k].prevout;
                auto it = idx.find(o.hash);
                int64_t ref;
                if (it != idx.end()) ref = (int64_t)it->second;
                else ref = -1 - (int64_t)extidx.at(o); // external coin: identity = (ref, n)
                ins += (k ? "," : "") + std::string("[") + std::to_string(ref) + "," + std::to_string(o.n) + "]";
            }
            ins += "]";
            txs.push_back("{\"id\":" + std::to_string(ids[i]) + ",\"w\":" + std::to_string(RefLedger::TxWeight(*pkg[i])) + ",\"in\":" + ins + "}");
        }
        const std::string expect_reason = !own.count_ok ? "package-too-many-transactions" : !own.weight_ok ? "package-too-large" : !own.no_dups ? "package-contains-duplicates" : !own.sorted ? "package-not-sorted" : !own.no_conflict ? "conflict-in-package" : "";
        bool bad = false;
        if (wf != own.WellFormed() || (!wf && st.GetRejectReason() != expect_reason)) bad = true;
        if (cwp != (pkg.size() >= 2 && own.child_with_parents)) bad = true;
        if (cons != own.no_conflict) bad = true;
        if (topo >= 0 && (topo == 1) != own.sorted) bad = true;
        if (bad) {
            vh::log().violation("pkg-predicate-mismatch", "a context-free package predicate disagrees with the own predicate",
                                vh::J().u("n", pkg.size()).str("own", own.Str()).b("wellformed", wf).str("reason", st.GetRejectReason()).b("child_with_parents", cwp).b("consistent", cons).i("topo", topo).raw("txs", vh::JArr(txs)));
        }
        vh::log().obs("pkgpred_cases");
        vh::log().obs(wf ? "pkgpred_wellformed" : "pkgpred_illformed");
        if (!wf) vh::log().obs("pkgpred_reason:" + st.GetRejectReason());
        if (cwp) vh::log().obs("pkgpred_cwp");
        vh::log().rec(vh::J().str("t", "pkgpred").u("case", c).i("shape", shape).raw("txs", vh::JArr(txs)).b("wf", wf).str("reason", st.GetRejectReason()).b("cwp", cwp).b("cons", cons).i("topo", topo));
    }
    return 0;
}
