// C13 (component ii) — E6 on CuckooCache::cache alone: `contains(x)` is never true for an x that was never inserted
// (false negatives are allowed), over random insert / contains / erase-flag sequences and table sizes.
//
// Two instantiations of the real template:
//   u256   cache<uint256, SignatureCacheHasher>  — exactly what SignatureCache and the script-execution cache use. Keys come from a
//          pool built in "families": a random 256-bit base and siblings that differ from it in one 32-bit word or a single bit, so that a
//          never-inserted key shares up to 7 of its 8 table locations with inserted keys.
//   small  cache<SmallEl, SmallHash>  — a 32-bit element with a deliberately poor 8-way hash (only the top `bits` bits are kept), so
//          that every location set collides heavily and the kick-out chain / depth limit / epoch ageing paths run all the time.
// A case = one cache (size from a boundary table or random; setup() or setup_bytes()) + one op sequence:
//   insert(e) with e from the insertable part of the pool; contains(e, erase) with e from the whole pool; a full sweep over the pool
//   every few ops and at the end. The model is a std::set of everything ever inserted. The default-constructed element (all-zero
//   uint256 / SmallEl{0}) is excluded from the pool: empty slots hold it by construction (documented precondition of the caches'
//   users: keys are salted SHA256 outputs).
//
// Record: {"case","fam":"cuckoo","inst","size","setup","pool","never","nops","ins","q","q_never","hit","fneg","fp","erase","sig","nt"}
// Violation key: cuckoo-false-positive.
//
// params: maxsize (default 4000), maxops (default 1500); include_default=1 (monitor self-test only, never used by a check's normal
//         runs): puts the default-constructed element into the never-inserted part of the pool, which an empty table "contains"
#include <common/vh.h>

#include <cuckoocache.h>
#include <uint256.h>
#include <util/hasher.h>

#include <cstring>
#include <set>
#include <string>
#include <vector>

namespace {

int g_small_bits = 2; // number of top hash bits SmallHash keeps (per case; the cache holds a default-constructed const Hash)

struct SmallEl {
    uint32_t v{0};
    bool operator==(const SmallEl& o) const { return v == o.v; }
    bool operator<(const SmallEl& o) const { return v < o.v; }
};

struct SmallHash {
    template <uint8_t k>
    uint32_t operator()(const SmallEl& e) const
    {
        uint64_t x = (uint64_t{e.v} * 8 + k + 1) * 0x9E3779B97F4A7C15ULL;
        x ^= x >> 29;
        x *= 0xBF58476D1CE4E5B9ULL;
        x ^= x >> 32;
        const uint32_t h = (uint32_t)x;
        return g_small_bits >= 32 ? h : (h & ~((uint32_t{1} << (32 - g_small_bits)) - 1));
    }
};

std::string ElStr(const uint256& e) { return e.ToString(); }
std::string ElStr(const SmallEl& e) { return std::to_string(e.v); }

struct Stats {
    uint64_t ins{0}, q{0}, q_never{0}, hit{0}, fneg{0}, fp{0}, erase{0}, sweeps{0};
};

template <typename El, typename Hash>
void RunSeq(vh::Rng& rng, const char* inst, uint32_t req_size, bool by_bytes, const std::vector<El>& pool, size_t n_insertable, size_t nops, Stats& st, uint32_t& real_size)
{
    CuckooCache::cache<El, Hash> cache;
    if (by_bytes) {
        real_size = cache.setup_bytes(size_t{req_size} * sizeof(El)).first;
    } else {
        real_size = cache.setup(req_size);
    }
    std::set<El> inserted;
    auto query = [&](const El& e, bool erase) {
        const bool in_model = inserted.count(e) > 0;
        const bool got = cache.contains(e, erase);
        ++st.q;
        if (!in_model) ++st.q_never;
        if (got && !in_model) {
            ++st.fp;
            if (st.fp <= 3) {
                vh::log().violation("cuckoo-false-positive", "CuckooCache::contains returned true for an element that was never inserted",
                                    vh::J().str("inst", inst).u("size", real_size).str("element", ElStr(e)).u("inserted", inserted.size()).b("erase", erase));
            }
        }
        if (got && in_model) {
            ++st.hit;
            if (erase) ++st.erase;
        }
        if (!got && in_model) ++st.fneg;
    };
    auto sweep = [&](bool full) {
        if (full || pool.size() <= 256) {
            for (const El& e : pool) query(e, false);
        } else {
            // a window of 256 consecutive pool entries (families are adjacent only before the shuffle, so this is a random sample)
            const size_t start = rng.below(pool.size());
            for (size_t i = 0; i < 256; ++i) query(pool[(start + i) % pool.size()], false);
        }
        ++st.sweeps;
    };
    const size_t sweep_every = 4 + rng.below(80);
    for (size_t op = 0; op < nops; ++op) {
        const uint64_t r = rng.below(100);
        if (r < 55) {
            const El& e = pool[rng.below(n_insertable)];
            cache.insert(e);
            inserted.insert(e);
            ++st.ins;
            // the doc comment allows the element just inserted to be dropped: only observed, never demanded
            if (rng.chance(1, 4)) query(e, false);
        } else if (r < 85) {
            query(pool[rng.below(pool.size())], rng.chance(1, 3));
        } else if (r < 95) {
            // a burst of erase flags on present elements (what a connected block does to its signatures)
            const size_t n = 1 + rng.below(8);
            for (size_t i = 0; i < n; ++i) query(pool[rng.below(pool.size())], true);
        } else {
            // never-inserted part of the pool only
            if (n_insertable < pool.size()) query(pool[n_insertable + rng.below(pool.size() - n_insertable)], rng.coin());
        }
        if (op % sweep_every == sweep_every - 1) sweep(false);
    }
    sweep(true);
}

} // namespace

VH_CMD(cuckoo)
{
    const uint32_t maxsize = (uint32_t)args.geti("maxsize", 4000);
    const size_t maxops = (size_t)args.geti("maxops", 1500);
    const bool include_default = args.geti("include_default", 0) != 0;
    static const uint32_t table_sizes[] = {0, 1, 2, 3, 4, 5, 7, 8, 9, 15, 16, 17, 31, 32, 33, 63, 64, 100, 127, 255, 256, 257, 1000};
    for (uint64_t c = args.from; c < args.to; ++c) {
        vh::set_case(c);
        vh::Rng rng(args.seed, c);
        const bool small = (c & 1) != 0;
        uint32_t req = rng.chance(2, 3) ? table_sizes[rng.below(sizeof(table_sizes) / sizeof(table_sizes[0]))] : (uint32_t)rng.below(maxsize + 1);
        const bool by_bytes = rng.chance(1, 4);
        const uint32_t eff = std::max<uint32_t>(2, req);
        // pool: from half to four times the table size (+ a few), the last quarter is never inserted
        size_t npool = 4 + (size_t)(eff * (1 + rng.below(8)) / 2) + rng.below(8);
        npool = std::min<size_t>(npool, 6000);
        const size_t nops = 20 + rng.below(maxops);
        Stats st;
        uint32_t real_size = 0;
        size_t n_never = 0;
        if (small) {
            g_small_bits = 1 + (int)rng.below(rng.coin() ? 4 : 32);
            std::set<uint32_t> seen;
            std::vector<SmallEl> pool;
            while (pool.size() < npool) {
                uint32_t v = rng.coin() ? (uint32_t)(1 + rng.below(4 * npool)) : (uint32_t)rng.next();
                if (v == 0 || !seen.insert(v).second) continue;
                pool.push_back(SmallEl{v});
            }
            n_never = std::max<size_t>(1, npool / 4);
            if (include_default) pool.back() = SmallEl{0};
            RunSeq<SmallEl, SmallHash>(rng, "small", req, by_bytes, pool, npool - n_never, nops, st, real_size);
        } else {
            std::set<uint256> seen;
            std::vector<uint256> pool;
            while (pool.size() < npool) {
                uint256 base;
                rng.fill(base.begin(), 32);
                if (base.IsNull() || !seen.insert(base).second) continue;
                pool.push_back(base);
                const size_t sibs = rng.below(6);
                for (size_t s = 0; s < sibs && pool.size() < npool; ++s) {
                    uint256 sib = base;
                    if (rng.coin()) {
                        const size_t w = rng.below(8); // another 32-bit word: 7 of the 8 locations stay the same
                        uint32_t x = (uint32_t)rng.next();
                        std::memcpy(sib.begin() + 4 * w, &x, 4);
                    } else {
                        const size_t bit = rng.below(256);
                        sib.begin()[bit / 8] ^= (unsigned char)(1u << (bit % 8));
                    }
                    if (sib.IsNull() || !seen.insert(sib).second) continue;
                    pool.push_back(sib);
                }
            }
            rng.shuffle(pool); // so that the never-inserted tail contains siblings of inserted keys
            n_never = std::max<size_t>(1, npool / 4);
            if (include_default) pool.back() = uint256{};
            RunSeq<uint256, SignatureCacheHasher>(rng, "u256", req, by_bytes, pool, npool - n_never, nops, st, real_size);
        }
        const bool nt = st.ins > 0 && st.q_never > 0 && st.hit > 0;
        std::string sig = std::string(small ? "small" : "u256") + "/" + std::to_string(real_size) + "/" + std::to_string(npool) + "/" + std::to_string(nops) + "/" + std::to_string(st.hit) + "/" + std::to_string(st.fneg);
        vh::log().rec(vh::J().u("case", c).str("fam", "cuckoo").str("inst", small ? "small" : "u256").u("size", real_size).u("req", req).str("setup", by_bytes ? "bytes" : "elems")
                          .i("bits", small ? g_small_bits : 32).u("pool", npool).u("never", n_never).u("nops", nops).u("ins", st.ins).u("q", st.q).u("q_never", st.q_never)
                          .u("hit", st.hit).u("fneg", st.fneg).u("fp", st.fp).u("erase", st.erase).u("sweeps", st.sweeps).str("sig", sig).b("nt", nt));
        vh::log().obs("cuckoo_cases");
        vh::log().obs(small ? "cuckoo_inst_small" : "cuckoo_inst_u256");
        vh::log().obs("cuckoo_inserts", (int64_t)st.ins);
        vh::log().obs("cuckoo_queries", (int64_t)st.q);
        vh::log().obs("cuckoo_never_inserted_queries", (int64_t)st.q_never);
        vh::log().obs("cuckoo_hits", (int64_t)st.hit);
        vh::log().obs("cuckoo_false_negatives", (int64_t)st.fneg);
        vh::log().obs("cuckoo_erase_flags", (int64_t)st.erase);
        if (real_size == 2) vh::log().obs("cuckoo_min_size_tables");
        if (st.ins > 2 * (uint64_t)real_size) vh::log().obs("cuckoo_overfull_tables");
        vh::log().obs_max("cuckoo_size", real_size);
    }
    return 0;
}
