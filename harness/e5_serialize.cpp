// C48: serialization of transactions / blocks / headers / P2P payloads and the text encodings
// (hex, base58(check), base64, base32, money, integers). The harness only produces inputs and records what the
// node's functions return; the oracle is the Python reference in /verif/pyref/{ser_ref,textenc_ref}.py.
//
// Sub-commands:
//   ser_obj        structured objects built by direct member assignment -> node bytes, hashes, round trips
//   ser_malformed  byte strings written by an own writer with deliberately wrong encodings -> accept/reject + value
//   compactsize    WriteCompactSize / ReadCompactSize on boundary values and arbitrary byte strings
//   textenc        text encoders/decoders on random values and malformed strings
#include <common/vh.h>

#include <base58.h>
#include <blockencodings.h>
#include <consensus/amount.h>
#include <core_io.h>
#include <crypto/hex_base.h>
#include <merkleblock.h>
#include <primitives/block.h>
#include <primitives/transaction.h>
#include <protocol.h>
#include <serialize.h>
#include <streams.h>
#include <uint256.h>
#include <util/moneystr.h>
#include <util/strencodings.h>

#include <array>
#include <ios>
#include <optional>
#include <string>
#include <vector>

namespace {
using Bytes = std::vector<unsigned char>;

// ------------------------------------------------------------------------------------------------ generated plain data
struct GIn {
    Bytes prev; // 32
    uint32_t n;
    Bytes script;
    uint32_t seq;
    std::vector<Bytes> wit;
};
struct GOut {
    int64_t value;
    Bytes spk;
};
struct GTx {
    uint32_t version{0}, locktime{0};
    std::vector<GIn> vin;
    std::vector<GOut> vout;
    bool HasWit() const
    {
        for (auto& i : vin)
            if (!i.wit.empty()) return true;
        return false;
    }
};
struct GHdr {
    int32_t version;
    Bytes prev, merkle;
    uint32_t time, bits, nonce;
};

uint32_t EdgeU32(vh::Rng& r)
{
    switch (r.below(6)) {
    case 0: return 0;
    case 1: return 0xffffffffu;
    case 2: return 0x80000000u;
    case 3: return 0x7fffffffu;
    case 4: return static_cast<uint32_t>(r.below(4));
    default: return static_cast<uint32_t>(r.next());
    }
}
int64_t EdgeI64(vh::Rng& r)
{
    switch (r.below(8)) {
    case 0: return 0;
    case 1: return -1;
    case 2: return MAX_MONEY;
    case 3: return INT64_MAX;
    case 4: return INT64_MIN;
    case 5: return static_cast<int64_t>(r.next());
    default: return r.range(0, MAX_MONEY);
    }
}
size_t ScriptLen(vh::Rng& r, bool allow_big)
{
    static const size_t L[] = {0, 0, 1, 22, 23, 25, 34, 35, 67, 72, 107, 252, 253, 254, 255, 256, 520, 1000};
    if (allow_big && r.chance(1, 500)) {
        static const size_t B[] = {65535, 65536, 65537, 70000};
        return B[r.below(4)];
    }
    if (r.chance(1, 4)) return r.below(300);
    return L[r.below(sizeof(L) / sizeof(L[0]))];
}

// shape: 0 small, 1 medium, 2 large counts
GTx GenTx(vh::Rng& r, int shape, int force_nin = -1)
{
    GTx t;
    t.version = r.chance(1, 2) ? static_cast<uint32_t>(1 + r.below(3)) : EdgeU32(r);
    t.locktime = EdgeU32(r);
    size_t nin, nout;
    if (shape == 2) {
        nin = r.chance(1, 2) ? 253 + r.below(60) : 1 + r.below(3);
        nout = nin > 100 ? r.below(4) : (r.chance(1, 4) ? 65536 + r.below(10) : 253 + r.below(60));
    } else if (shape == 1) {
        nin = 1 + r.below(20);
        nout = r.below(20);
    } else {
        // shapes 0 and 3 (3 = no 64 KiB scripts; used for the malformed family to keep logs small)
        static const size_t N[] = {0, 1, 1, 1, 2, 2, 3, 5};
        nin = N[r.below(8)];
        nout = N[r.below(8)];
    }
    if (force_nin >= 0) nin = force_nin;
    const int wit_mode = static_cast<int>(r.below(4)); // 0 none, 1 all, 2 some, 3 some with empty items
    const bool big_ok = shape != 2 && shape != 3;
    for (size_t i = 0; i < nin; ++i) {
        GIn in;
        in.prev = r.chance(1, 10) ? Bytes(32, 0) : r.bytes(32);
        in.n = EdgeU32(r);
        in.script = r.bytes(shape == 2 ? r.below(3) : ScriptLen(r, big_ok));
        in.seq = EdgeU32(r);
        const bool w = wit_mode == 1 || (wit_mode >= 2 && r.coin());
        if (w) {
            size_t items = 1 + r.below(4);
            if (shape != 2 && r.chance(1, 40)) items = 253 + r.below(50);
            for (size_t k = 0; k < items; ++k) {
                size_t len = (wit_mode == 3 && r.coin()) ? 0 : ScriptLen(r, big_ok && items < 10);
                in.wit.push_back(r.bytes(len));
            }
        }
        t.vin.push_back(std::move(in));
    }
    for (size_t i = 0; i < nout; ++i) {
        GOut o;
        o.value = EdgeI64(r);
        o.spk = r.bytes(shape == 2 ? r.below(3) : ScriptLen(r, big_ok));
        t.vout.push_back(std::move(o));
    }
    return t;
}
GHdr GenHdr(vh::Rng& r)
{
    GHdr h;
    h.version = static_cast<int32_t>(EdgeU32(r));
    h.prev = r.bytes(32);
    h.merkle = r.bytes(32);
    h.time = EdgeU32(r);
    h.bits = EdgeU32(r);
    h.nonce = EdgeU32(r);
    return h;
}

std::string JHex(const Bytes& b) { return "\"" + vh::Hex(b) + "\""; }
std::string TxJson(const GTx& t)
{
    std::string s = "[" + std::to_string(t.version) + "," + std::to_string(t.locktime) + ",[";
    for (size_t i = 0; i < t.vin.size(); ++i) {
        const GIn& in = t.vin[i];
        if (i) s += ",";
        s += "[" + JHex(in.prev) + "," + std::to_string(in.n) + "," + JHex(in.script) + "," + std::to_string(in.seq) + ",[";
        for (size_t k = 0; k < in.wit.size(); ++k) {
            if (k) s += ",";
            s += JHex(in.wit[k]);
        }
        s += "]]";
    }
    s += "],[";
    for (size_t i = 0; i < t.vout.size(); ++i) {
        if (i) s += ",";
        s += "[" + std::to_string(t.vout[i].value) + "," + JHex(t.vout[i].spk) + "]";
    }
    return s + "]]";
}
std::string HdrJson(const GHdr& h)
{
    return "[" + std::to_string(h.version) + "," + JHex(h.prev) + "," + JHex(h.merkle) + "," + std::to_string(h.time) + "," + std::to_string(h.bits) + "," + std::to_string(h.nonce) + "]";
}

uint256 U256(const Bytes& b) { return uint256{std::span<const unsigned char>{b.data(), 32}}; }

CMutableTransaction BuildTx(const GTx& g)
{
    CMutableTransaction tx;
    tx.version = g.version;
    tx.nLockTime = g.locktime;
    for (const GIn& in : g.vin) {
        CTxIn ti;
        ti.prevout.hash = Txid::FromUint256(U256(in.prev));
        ti.prevout.n = in.n;
        ti.scriptSig = CScript(in.script.begin(), in.script.end());
        ti.nSequence = in.seq;
        ti.scriptWitness.stack = in.wit;
        tx.vin.push_back(std::move(ti));
    }
    for (const GOut& o : g.vout) {
        CTxOut to;
        to.nValue = o.value;
        to.scriptPubKey = CScript(o.spk.begin(), o.spk.end());
        tx.vout.push_back(std::move(to));
    }
    return tx;
}
template <typename TxT>
bool SameTx(const GTx& g, const TxT& tx, bool with_witness)
{
    if (tx.version != g.version || tx.nLockTime != g.locktime || tx.vin.size() != g.vin.size() || tx.vout.size() != g.vout.size()) return false;
    for (size_t i = 0; i < g.vin.size(); ++i) {
        const CTxIn& ti = tx.vin[i];
        const GIn& in = g.vin[i];
        if (ti.prevout.hash.ToUint256() != U256(in.prev) || ti.prevout.n != in.n || ti.nSequence != in.seq) return false;
        if (Bytes(ti.scriptSig.begin(), ti.scriptSig.end()) != in.script) return false;
        if (with_witness ? ti.scriptWitness.stack != in.wit : !ti.scriptWitness.stack.empty()) return false;
    }
    for (size_t i = 0; i < g.vout.size(); ++i) {
        if (tx.vout[i].nValue != g.vout[i].value || Bytes(tx.vout[i].scriptPubKey.begin(), tx.vout[i].scriptPubKey.end()) != g.vout[i].spk) return false;
    }
    return true;
}
void SetHdr(CBlockHeader& h, const GHdr& g)
{
    h.nVersion = g.version;
    h.hashPrevBlock = U256(g.prev);
    h.hashMerkleRoot = U256(g.merkle);
    h.nTime = g.time;
    h.nBits = g.bits;
    h.nNonce = g.nonce;
}
bool SameHdr(const CBlockHeader& h, const GHdr& g)
{
    return h.nVersion == g.version && h.hashPrevBlock == U256(g.prev) && h.hashMerkleRoot == U256(g.merkle) && h.nTime == g.time && h.nBits == g.bits && h.nNonce == g.nonce;
}

template <typename T>
Bytes Ser(const T& obj)
{
    DataStream ss;
    ss << obj;
    return Bytes(UCharCast(ss.data()), UCharCast(ss.data()) + ss.size());
}

// outcome of a stream read: ok, bytes consumed, re-serialization
struct ReadRes {
    bool ok{false};
    size_t used{0};
    Bytes rs;
    std::string err;
};
template <typename Obj, typename Params>
ReadRes TryRead(const Bytes& data, const Params& params, Obj& obj)
{
    ReadRes r;
    DataStream ss{std::span<const uint8_t>{data.data(), data.size()}};
    try {
        ss >> params(obj);
        r.ok = true;
        r.used = data.size() - ss.size();
        r.rs = Ser(params(obj));
    } catch (const std::ios_base::failure& e) {
        r.err = e.what();
    }
    return r;
}
std::string ResJson(const ReadRes& r, const Bytes& input)
{
    if (!r.ok) return "[false]";
    const bool same = r.used <= input.size() && r.rs.size() == r.used && std::equal(r.rs.begin(), r.rs.end(), input.begin());
    return "[true," + std::to_string(r.used) + "," + (same ? std::string("\"=\"") : JHex(r.rs)) + "]";
}

// access to protected members of the BIP152 / BIP37 objects
struct CmpctAccess : public CBlockHeaderAndShortTxIDs {
    CmpctAccess(const CBlock& b, uint64_t nonce) : CBlockHeaderAndShortTxIDs(b, nonce) {}
    void Set(std::vector<uint64_t> ids, std::vector<PrefilledTransaction> pre)
    {
        shorttxids = std::move(ids);
        prefilledtxn = std::move(pre);
    }
};
struct PmtAccess : public CPartialMerkleTree {
    void Set(unsigned int ntx, std::vector<bool> bits, std::vector<uint256> hashes)
    {
        nTransactions = ntx;
        vBits = std::move(bits);
        vHash = std::move(hashes);
        fBad = false;
    }
};

std::string HashArr(const std::vector<Bytes>& v)
{
    std::vector<std::string> items;
    for (auto& h : v) items.push_back(JHex(h));
    return vh::JArr(items);
}

// ------------------------------------------------------------------------------------------------ own writer (malformed inputs)
struct W {
    Bytes b;
    int slot{0};       // running index of CompactSize slots
    int target{-1};    // slot to tweak
    int tweak{0};      // 1 wider form, 2 oversize, 3 == MAX_SIZE, 4 widest form
    uint64_t written_value{0};
    void u8(uint8_t v) { b.push_back(v); }
    void le(uint64_t v, int n)
    {
        for (int i = 0; i < n; ++i) b.push_back(static_cast<uint8_t>(v >> (8 * i)));
    }
    void raw(const Bytes& x) { b.insert(b.end(), x.begin(), x.end()); }
    void canon(uint64_t n)
    {
        if (n < 253) {
            u8(static_cast<uint8_t>(n));
        } else if (n <= 0xffff) {
            u8(253);
            le(n, 2);
        } else if (n <= 0xffffffffu) {
            u8(254);
            le(n, 4);
        } else {
            u8(255);
            le(n, 8);
        }
    }
    void cs(uint64_t n, vh::Rng* r = nullptr)
    {
        const int me = slot++;
        if (me != target || tweak == 0) {
            canon(n);
            return;
        }
        written_value = n;
        switch (tweak) {
        case 1: // next wider form
            if (n < 253) {
                u8(253);
                le(n, 2);
            } else if (n <= 0xffff) {
                u8(254);
                le(n, 4);
            } else {
                u8(255);
                le(n, 8);
            }
            break;
        case 4: // widest form
            u8(255);
            le(n, 8);
            break;
        case 2: { // larger than MAX_SIZE
            static const uint64_t V[] = {0x02000001ULL, 0x02000002ULL, 0xffffffffULL, 0x100000000ULL, 0xffffffffffffffffULL, 0x7fffffffffffffffULL};
            canon(V[(n + me) % 6]);
            break;
        }
        case 3: // exactly MAX_SIZE: allowed as a size, but the data is not there
            canon(0x02000000ULL);
            break;
        default: canon(n);
        }
    }
    void bytes(const Bytes& x)
    {
        cs(x.size());
        raw(x);
    }
};

// flag_mode: -1 automatic (extended iff witness present); otherwise the flag byte to write after the 0x00 marker
void WriteTx(W& w, const GTx& t, bool allow_ext, int flag_mode, bool write_wit_section)
{
    w.le(t.version, 4);
    const bool ext = flag_mode >= 0 || (allow_ext && t.HasWit());
    if (ext) {
        w.u8(0);
        w.u8(flag_mode >= 0 ? static_cast<uint8_t>(flag_mode) : 1);
    }
    w.cs(t.vin.size());
    for (auto& in : t.vin) {
        w.raw(in.prev);
        w.le(in.n, 4);
        w.bytes(in.script);
        w.le(in.seq, 4);
    }
    w.cs(t.vout.size());
    for (auto& o : t.vout) {
        w.le(static_cast<uint64_t>(o.value), 8);
        w.bytes(o.spk);
    }
    if (ext && write_wit_section) {
        for (auto& in : t.vin) {
            w.cs(in.wit.size());
            for (auto& item : in.wit) w.bytes(item);
        }
    }
    w.le(t.locktime, 4);
}
void WriteHdr(W& w, const GHdr& h)
{
    w.le(static_cast<uint32_t>(h.version), 4);
    w.raw(h.prev);
    w.raw(h.merkle);
    w.le(h.time, 4);
    w.le(h.bits, 4);
    w.le(h.nonce, 4);
}

std::string MangleHex(std::string hex, vh::Rng& r, int& how)
{
    how = static_cast<int>(r.below(7));
    switch (how) {
    case 0: // upper case (still hex)
        for (auto& c : hex) c = ToUpper(c);
        break;
    case 1: // odd length
        if (!hex.empty()) hex.pop_back();
        break;
    case 2: // foreign character
        if (!hex.empty()) hex[r.below(hex.size())] = "gGxX-_ :"[r.below(8)];
        break;
    case 3: // white space inside / around
        hex.insert(r.below(hex.size() + 1), 1, " \n\t"[r.below(3)]);
        break;
    case 4: // embedded NUL
        hex.insert(r.below(hex.size() + 1), 1, '\0');
        break;
    case 5: // empty
        hex.clear();
        break;
    default: // 0x prefix
        hex = "0x" + hex;
    }
    return hex;
}

// ------------------------------------------------------------------------------------------------ text helpers
std::string SHex(const std::string& s) { return "\"" + vh::Hex(s) + "\""; }
template <typename T>
std::string OptInt(const std::optional<T>& v)
{
    return v ? std::to_string(*v) : std::string("null");
}
std::string OptBytes(const std::optional<std::vector<unsigned char>>& v) { return v ? JHex(*v) : std::string("null"); }

std::string RandDigits(vh::Rng& r, size_t n)
{
    std::string s;
    for (size_t i = 0; i < n; ++i) s += static_cast<char>('0' + r.below(10));
    return s;
}
// generic string damage used by all text families
std::string Damage(std::string s, vh::Rng& r, const char* foreign)
{
    const size_t nf = std::strlen(foreign);
    switch (r.below(12)) {
    case 0: s.insert(r.below(s.size() + 1), 1, foreign[r.below(nf)]); break;
    case 1:
        if (!s.empty()) s[r.below(s.size())] = foreign[r.below(nf)];
        break;
    case 2: s.insert(0, 1, " \t\n\v\f\r"[r.below(6)]); break;
    case 3: s.push_back(" \t\n\v\f\r"[r.below(6)]); break;
    case 4: s.insert(r.below(s.size() + 1), 1, ' '); break;
    case 5: s.insert(r.below(s.size() + 1), 1, '\0'); break;
    case 6:
        if (!s.empty()) s.erase(r.below(s.size()), 1);
        break;
    case 7: s.push_back('='); break;
    case 8:
        if (!s.empty()) s.pop_back();
        break;
    case 9:
        if (!s.empty()) {
            char& c = s[r.below(s.size())];
            c = (c >= 'a' && c <= 'z') ? ToUpper(c) : ToLower(c);
        }
        break;
    case 10:
        if (!s.empty()) s[r.below(s.size())] = static_cast<char>(0x80 + r.below(128));
        break;
    default:
        if (!s.empty()) {
            // change the last non-pad character (exercises non-canonical trailing bits)
            size_t i = s.size();
            while (i > 0 && s[i - 1] == '=') --i;
            if (i > 0) s[i - 1] = static_cast<char>(s[i - 1] + 1);
        }
    }
    return s;
}
} // namespace

// ================================================================================================ ser_obj
// case kind = c % 12 : 0-4 tx (shapes), 5 block, 6 header, 7.. P2P payloads
VH_CMD(ser_obj)
{
    for (uint64_t c = args.from; c < args.to; ++c) {
        vh::set_case(c);
        vh::Rng rng(args.seed, c);
        const int kind = static_cast<int>(c % 14);
        vh::J j;
        j.u("case", c);
        if (kind <= 4) {
            // ---- transaction
            int shape = kind <= 2 ? 0 : (kind == 3 ? 1 : (rng.chance(1, 8) ? 2 : 1));
            GTx g = GenTx(rng, shape);
            const CMutableTransaction mtx = BuildTx(g);
            const CTransaction tx{mtx};
            const Bytes w = Ser(TX_WITH_WITNESS(mtx)), n = Ser(TX_NO_WITNESS(mtx));
            const Bytes w2 = Ser(TX_WITH_WITNESS(tx)), n2 = Ser(TX_NO_WITNESS(tx));
            CMutableTransaction back_w, back_n;
            ReadRes rw = TryRead(w, TX_WITH_WITNESS, back_w), rn = TryRead(n, TX_NO_WITNESS, back_n);
            // the immutable class through its deserializing constructor
            bool ctor_ok = false, ctor_same = false;
            try {
                DataStream ss{std::span<const uint8_t>{w.data(), w.size()}};
                CTransaction t2(deserialize, TX_WITH_WITNESS, ss);
                ctor_ok = ss.empty();
                ctor_same = SameTx(g, t2, true) && t2.GetHash() == tx.GetHash() && t2.GetWitnessHash() == tx.GetWitnessHash();
            } catch (const std::ios_base::failure&) {
            }
            j.str("k", "tx").raw("f", TxJson(g)).hex("w", w).raw("n", n == w ? "\"=\"" : JHex(n)).b("cm", w2 == w && n2 == n)
                .hex("txid", tx.GetHash().ToUint256()).hex("wtxid", tx.GetWitnessHash().ToUint256())
                .raw("rw", ResJson(rw, w)).b("rw_same", rw.ok && SameTx(g, back_w, true))
                .raw("rn", ResJson(rn, n)).b("rn_same", rn.ok && SameTx(g, back_n, false))
                .b("ctor_ok", ctor_ok).b("ctor_same", ctor_same).b("hw", tx.HasWitness());
            vh::log().obs(g.HasWit() ? "tx_with_witness" : "tx_without_witness");
            if (g.vin.empty()) vh::log().obs("tx_zero_inputs");
            if (shape == 2) vh::log().obs("tx_large_counts");
        } else if (kind == 5) {
            // ---- block
            GHdr h = GenHdr(rng);
            std::vector<GTx> txs;
            const size_t ntx = rng.chance(1, 10) ? 0 : (rng.chance(1, 20) ? 253 + rng.below(30) : 1 + rng.below(6));
            for (size_t i = 0; i < ntx; ++i) txs.push_back(GenTx(rng, ntx > 100 ? 0 : static_cast<int>(rng.below(2)), ntx > 100 ? 1 : static_cast<int>(1 + rng.below(3))));
            CBlock blk;
            SetHdr(blk, h);
            std::vector<std::string> tj;
            for (auto& g : txs) {
                blk.vtx.push_back(MakeTransactionRef(BuildTx(g)));
                tj.push_back(TxJson(g));
            }
            const Bytes w = Ser(TX_WITH_WITNESS(blk)), n = Ser(TX_NO_WITNESS(blk));
            CBlock back;
            ReadRes rw = TryRead(w, TX_WITH_WITNESS, back);
            bool same = rw.ok && SameHdr(back, h) && back.vtx.size() == txs.size();
            for (size_t i = 0; same && i < txs.size(); ++i) same = SameTx(txs[i], *back.vtx[i], true);
            CBlock back_n;
            ReadRes rn = TryRead(n, TX_NO_WITNESS, back_n);
            bool same_n = rn.ok && SameHdr(back_n, h) && back_n.vtx.size() == txs.size();
            for (size_t i = 0; same_n && i < txs.size(); ++i) same_n = SameTx(txs[i], *back_n.vtx[i], false);
            j.str("k", "block").raw("f", "[" + HdrJson(h) + "," + vh::JArr(tj) + "]").hex("w", w).raw("n", n == w ? "\"=\"" : JHex(n))
                .raw("rw", ResJson(rw, w)).b("rw_same", same).raw("rn", ResJson(rn, n)).b("rn_same", same_n);
            vh::log().obs("blocks");
        } else if (kind == 6) {
            GHdr h = GenHdr(rng);
            CBlockHeader hdr;
            SetHdr(hdr, h);
            const Bytes w = Ser(hdr);
            CBlockHeader back;
            bool ok = false;
            try {
                DataStream ss{std::span<const uint8_t>{w.data(), w.size()}};
                ss >> back;
                ok = ss.empty();
            } catch (const std::ios_base::failure&) {
            }
            j.str("k", "header").raw("f", HdrJson(h)).hex("w", w).b("rw_same", ok && SameHdr(back, h));
            vh::log().obs("headers");
        } else if (kind == 7) {
            // ---- inv
            const size_t cnt = rng.chance(1, 10) ? 253 + rng.below(800) : rng.below(40);
            std::vector<CInv> v;
            std::vector<std::string> fj;
            for (size_t i = 0; i < cnt; ++i) {
                Bytes h = rng.bytes(32);
                static const uint32_t T[] = {0, 1, 2, 3, 4, 5, 0x40000001, 0x40000002, 0xffffffff};
                uint32_t t = rng.coin() ? T[rng.below(9)] : static_cast<uint32_t>(rng.next());
                v.emplace_back(t, U256(h));
                fj.push_back("[" + std::to_string(t) + "," + JHex(h) + "]");
            }
            const Bytes w = Ser(v);
            std::vector<CInv> back;
            bool ok = false, same = false;
            try {
                DataStream ss{std::span<const uint8_t>{w.data(), w.size()}};
                ss >> back;
                ok = ss.empty();
                same = back.size() == v.size();
                for (size_t i = 0; same && i < v.size(); ++i) same = back[i].type == v[i].type && back[i].hash == v[i].hash;
            } catch (const std::ios_base::failure&) {
            }
            j.str("k", "inv").raw("f", vh::JArr(fj)).hex("w", w).b("rw_same", ok && same);
            vh::log().obs("p2p_inv");
        } else if (kind == 8) {
            // ---- getheaders / getblocks payload: locator + hash_stop
            std::vector<Bytes> have;
            const size_t cnt = rng.chance(1, 10) ? 101 + rng.below(200) : rng.below(34);
            for (size_t i = 0; i < cnt; ++i) have.push_back(rng.bytes(32));
            Bytes stop = rng.coin() ? Bytes(32, 0) : rng.bytes(32);
            std::vector<uint256> hv;
            for (auto& h : have) hv.push_back(U256(h));
            CBlockLocator loc{std::vector<uint256>(hv)};
            DataStream ss;
            ss << loc << U256(stop);
            const Bytes w(UCharCast(ss.data()), UCharCast(ss.data()) + ss.size());
            CBlockLocator back;
            uint256 back_stop;
            bool ok = false;
            try {
                ss >> back >> back_stop;
                ok = ss.empty() && back.vHave == hv && back_stop == U256(stop);
            } catch (const std::ios_base::failure&) {
            }
            j.str("k", "getheaders").raw("f", "[" + std::to_string(CBlockLocator::DUMMY_VERSION) + "," + HashArr(have) + "," + JHex(stop) + "]").hex("w", w).b("rw_same", ok);
            vh::log().obs("p2p_getheaders");
        } else if (kind == 9) {
            // ---- headers message: vector<CBlock> without transactions
            const size_t cnt = rng.chance(1, 10) ? 253 + rng.below(100) : rng.below(12);
            std::vector<CBlock> v;
            std::vector<GHdr> hs;
            std::vector<std::string> fj;
            for (size_t i = 0; i < cnt; ++i) {
                hs.push_back(GenHdr(rng));
                CBlock b;
                SetHdr(b, hs.back());
                v.push_back(b);
                fj.push_back(HdrJson(hs.back()));
            }
            const Bytes w = Ser(TX_WITH_WITNESS(v));
            std::vector<CBlock> back;
            ReadRes rr = TryRead(w, TX_WITH_WITNESS, back);
            bool same = rr.ok && back.size() == cnt;
            for (size_t i = 0; same && i < cnt; ++i) same = SameHdr(back[i], hs[i]) && back[i].vtx.empty();
            j.str("k", "headers").raw("f", vh::JArr(fj)).hex("w", w).raw("rw", ResJson(rr, w)).b("rw_same", same);
            vh::log().obs("p2p_headers");
        } else if (kind == 10) {
            // ---- cmpctblock
            GHdr h = GenHdr(rng);
            const uint64_t nonce = rng.next();
            CBlock dummy;
            SetHdr(dummy, h);
            dummy.vtx.push_back(MakeTransactionRef(BuildTx(GenTx(rng, 0, 1))));
            CmpctAccess cb(dummy, nonce);
            const size_t nshort = rng.chance(1, 10) ? 253 + rng.below(300) : rng.below(20);
            std::vector<uint64_t> ids;
            std::vector<std::string> idj;
            for (size_t i = 0; i < nshort; ++i) {
                uint64_t v = rng.chance(1, 8) ? (rng.coin() ? 0 : 0xffffffffffffULL) : (rng.next() & 0xffffffffffffULL);
                ids.push_back(v);
                idj.push_back(std::to_string(v));
            }
            // prefilled: the object keeps *differential* indexes; absolute = running sum
            const size_t npre = rng.below(4);
            std::vector<PrefilledTransaction> pre;
            std::vector<std::string> pj;
            uint32_t abs_index = 0;
            for (size_t i = 0; i < npre; ++i) {
                uint16_t diff = static_cast<uint16_t>(rng.chance(1, 6) ? 253 + rng.below(1000) : rng.below(5));
                GTx g = GenTx(rng, 0, static_cast<int>(1 + rng.below(2)));
                pre.push_back({diff, MakeTransactionRef(BuildTx(g))});
                abs_index += diff;
                pj.push_back("[" + std::to_string(abs_index) + "," + TxJson(g) + "]");
                abs_index += 1;
            }
            cb.Set(ids, pre);
            const Bytes w = Ser(static_cast<const CBlockHeaderAndShortTxIDs&>(cb));
            CBlockHeaderAndShortTxIDs back;
            bool ok = false;
            Bytes rs;
            try {
                DataStream ss{std::span<const uint8_t>{w.data(), w.size()}};
                ss >> back;
                ok = ss.empty() && SameHdr(back.header, h) && back.BlockTxCount() == nshort + npre;
                rs = Ser(back);
            } catch (const std::ios_base::failure&) {
            }
            j.str("k", "cmpctblock").raw("f", "[" + HdrJson(h) + "," + std::to_string(nonce) + "," + vh::JArr(idj) + "," + vh::JArr(pj) + "]").hex("w", w).b("rw_same", ok && rs == w);
            vh::log().obs("p2p_cmpctblock");
        } else if (kind == 11) {
            // ---- getblocktxn (differentially coded indexes) and blocktxn
            Bytes bh = rng.bytes(32);
            BlockTransactionsRequest req;
            req.blockhash = U256(bh);
            std::vector<std::string> ij;
            uint32_t idx = 0;
            const size_t cnt = rng.chance(1, 10) ? 253 + rng.below(200) : rng.below(20);
            for (size_t i = 0; i < cnt; ++i) {
                idx += static_cast<uint32_t>(rng.chance(1, 10) ? rng.below(3000) : rng.below(4));
                if (idx > 0xffff) break;
                if (rng.chance(1, 50)) idx = 0xffff;
                req.indexes.push_back(static_cast<uint16_t>(idx));
                ij.push_back(std::to_string(idx));
                idx += 1;
            }
            const Bytes w = Ser(req);
            BlockTransactionsRequest back;
            bool ok = false;
            try {
                DataStream ss{std::span<const uint8_t>{w.data(), w.size()}};
                ss >> back;
                ok = ss.empty() && back.blockhash == req.blockhash && back.indexes == req.indexes;
            } catch (const std::ios_base::failure&) {
            }
            j.str("k", "getblocktxn").raw("f", "[" + JHex(bh) + "," + vh::JArr(ij) + "]").hex("w", w).b("rw_same", ok);
            vh::log().obs("p2p_getblocktxn");
        } else if (kind == 12) {
            Bytes bh = rng.bytes(32);
            BlockTransactions bt;
            bt.blockhash = U256(bh);
            std::vector<GTx> txs;
            std::vector<std::string> tj;
            const size_t cnt = rng.below(6);
            for (size_t i = 0; i < cnt; ++i) {
                txs.push_back(GenTx(rng, 0, static_cast<int>(1 + rng.below(3))));
                bt.txn.push_back(MakeTransactionRef(BuildTx(txs.back())));
                tj.push_back(TxJson(txs.back()));
            }
            const Bytes w = Ser(bt);
            BlockTransactions back;
            bool ok = false;
            try {
                DataStream ss{std::span<const uint8_t>{w.data(), w.size()}};
                ss >> back;
                ok = ss.empty() && back.blockhash == bt.blockhash && back.txn.size() == cnt;
                for (size_t i = 0; ok && i < cnt; ++i) ok = SameTx(txs[i], *back.txn[i], true);
            } catch (const std::ios_base::failure&) {
            }
            j.str("k", "blocktxn").raw("f", "[" + JHex(bh) + "," + vh::JArr(tj) + "]").hex("w", w).b("rw_same", ok);
            vh::log().obs("p2p_blocktxn");
        } else {
            // ---- merkleblock + message header
            GHdr h = GenHdr(rng);
            const uint32_t ntx = EdgeU32(rng);
            std::vector<Bytes> hashes;
            const size_t nh = rng.chance(1, 10) ? 253 + rng.below(50) : rng.below(12);
            for (size_t i = 0; i < nh; ++i) hashes.push_back(rng.bytes(32));
            Bytes flags = rng.bytes(rng.chance(1, 10) ? 253 + rng.below(10) : rng.below(6));
            std::vector<bool> bits;
            for (unsigned char b : flags)
                for (int k = 0; k < 8; ++k) bits.push_back((b >> k) & 1);
            std::vector<uint256> hv;
            for (auto& x : hashes) hv.push_back(U256(x));
            PmtAccess pmt;
            pmt.Set(ntx, bits, hv);
            CMerkleBlock mb;
            SetHdr(mb.header, h);
            mb.txn = pmt;
            const Bytes w = Ser(mb);
            CMerkleBlock back;
            bool ok = false;
            try {
                DataStream ss{std::span<const uint8_t>{w.data(), w.size()}};
                ss >> back;
                ok = ss.empty() && SameHdr(back.header, h) && back.txn.GetNumTransactions() == ntx && Ser(back) == w;
            } catch (const std::ios_base::failure&) {
            }
            // message header
            CMessageHeader mh;
            Bytes magic = rng.bytes(4), cmd = rng.bytes(12), chk = rng.bytes(4);
            if (rng.coin()) {
                cmd.assign(12, 0);
                const char* name = "cmpctblock";
                std::memcpy(cmd.data(), name, std::strlen(name));
            }
            std::copy(magic.begin(), magic.end(), mh.pchMessageStart.begin());
            std::memcpy(mh.m_msg_type, cmd.data(), 12);
            mh.nMessageSize = EdgeU32(rng);
            std::memcpy(mh.pchChecksum, chk.data(), 4);
            const Bytes mw = Ser(mh);
            CMessageHeader mback;
            bool mok = false;
            try {
                DataStream ss{std::span<const uint8_t>{mw.data(), mw.size()}};
                ss >> mback;
                mok = ss.empty() && mback.pchMessageStart == mh.pchMessageStart && std::memcmp(mback.m_msg_type, mh.m_msg_type, 12) == 0 && mback.nMessageSize == mh.nMessageSize && std::memcmp(mback.pchChecksum, mh.pchChecksum, 4) == 0;
            } catch (const std::ios_base::failure&) {
            }
            j.str("k", "merkleblock").raw("f", "[" + HdrJson(h) + "," + std::to_string(ntx) + "," + HashArr(hashes) + "," + JHex(flags) + "]").hex("w", w).b("rw_same", ok)
                .raw("mf", "[" + JHex(magic) + "," + JHex(cmd) + "," + std::to_string(mh.nMessageSize) + "," + JHex(chk) + "]").hex("mw", mw).b("mrw_same", mok);
            vh::log().obs("p2p_merkleblock");
            vh::log().obs("p2p_msghdr");
        }
        vh::log().rec(j);
    }
    return 0;
}

// ================================================================================================ ser_malformed
VH_CMD(ser_malformed)
{
    for (uint64_t c = args.from; c < args.to; ++c) {
        vh::set_case(c);
        vh::Rng rng(args.seed, c);
        const bool is_block = (c % 5) == 4;
        const int mut = static_cast<int>((c / 5) % 14);
        // base object
        GHdr h = GenHdr(rng);
        std::vector<GTx> txs;
        const size_t ntx = is_block ? (rng.chance(1, 8) ? 0 : 1 + rng.below(3)) : 1;
        for (size_t i = 0; i < ntx; ++i) {
            GTx g = GenTx(rng, 3, mut == 7 && !is_block ? 0 : -1);
            if (g.vin.empty() && mut != 7 && mut != 0) g = GenTx(rng, 3, static_cast<int>(1 + rng.below(2)));
            if ((mut == 4) && !g.vin.empty()) {
                for (auto& in : g.vin) in.wit.clear(); // all-empty witness stacks, flag will still be written
            }
            txs.push_back(std::move(g));
        }
        auto write_all = [&](W& w, int flag_mode, bool wit_section, int tx_sel) {
            if (is_block) {
                WriteHdr(w, h);
                w.cs(txs.size());
            }
            for (size_t i = 0; i < txs.size(); ++i) {
                const bool me = tx_sel < 0 || static_cast<size_t>(tx_sel) == i;
                WriteTx(w, txs[i], true, me ? flag_mode : -1, me ? wit_section : true);
            }
        };
        const int tx_sel = txs.empty() ? -1 : static_cast<int>(rng.below(txs.size()));
        W w;
        int flag_mode = -1;
        bool wit_section = true;
        std::string mname;
        switch (mut) {
        case 0: mname = "valid"; break;
        case 1:
        case 11: mname = mut == 1 ? "noncanonical" : "noncanonical-widest"; break;
        case 2: mname = "oversize"; break;
        case 3: {
            static const int F[] = {0, 2, 3, 0x80, 0xff, 0x81, 4};
            flag_mode = F[rng.below(7)];
            wit_section = (flag_mode & 1) != 0;
            mname = "flag-" + std::to_string(flag_mode);
            break;
        }
        case 4:
            flag_mode = 1;
            mname = "superfluous-witness";
            break;
        case 5: mname = "truncated"; break;
        case 6: mname = "trailing"; break;
        case 7: mname = is_block ? "valid" : "zero-inputs"; break;
        case 8: mname = "random"; break;
        case 9:
            // flag 1 but the witness section is missing entirely
            flag_mode = 1;
            wit_section = false;
            mname = "flag-without-section";
            break;
        case 10: mname = "size-at-max"; break;
        case 12: mname = "bitflip"; break;
        default: mname = "hexlevel"; break;
        }
        if (mut == 1 || mut == 2 || mut == 10 || mut == 11) {
            W probe;
            write_all(probe, flag_mode, wit_section, tx_sel);
            w.target = static_cast<int>(rng.below(std::max(1, probe.slot)));
            w.tweak = mut == 1 ? 1 : (mut == 2 ? 2 : (mut == 10 ? 3 : 4));
        }
        write_all(w, flag_mode, wit_section, tx_sel);
        Bytes data = std::move(w.b);
        if (mut == 5 && !data.empty()) data.resize(rng.below(data.size()));
        if (mut == 6) {
            Bytes extra = rng.bytes(1 + rng.below(5));
            if (rng.coin()) extra.assign(extra.size(), 0);
            data.insert(data.end(), extra.begin(), extra.end());
        }
        if (mut == 8) {
            data = rng.bytes(rng.below(120));
            if (rng.coin() && data.size() > 6) {
                data[4] = 0;
                data[5] = static_cast<unsigned char>(rng.below(3));
            }
        }
        if (mut == 12 && !data.empty()) data[rng.below(data.size())] ^= static_cast<unsigned char>(1u << rng.below(8));
        std::string hex = vh::Hex(data);
        int how = -1;
        if (mut == 13) hex = MangleHex(hex, rng, how);
        vh::J j;
        j.u("case", c).str("k", is_block ? "mblk" : "mtx").str("m", mname).hex("h", data);
        if (mut == 13) j.hex("s", hex).i("how", how); // the string handed to DecodeHex* when it is not plain hex of h
        if (!is_block) {
            CMutableTransaction a, b2;
            ReadRes rw = TryRead(data, TX_WITH_WITNESS, a), rn = TryRead(data, TX_NO_WITNESS, b2);
            j.raw("sw", ResJson(rw, data)).raw("sn", ResJson(rn, data));
            if (rw.ok) j.hex("txid", CTransaction(a).GetHash().ToUint256()).hex("wtxid", CTransaction(a).GetWitnessHash().ToUint256());
            auto dec = [&](bool no_wit, bool wit) {
                CMutableTransaction t;
                if (!DecodeHexTx(t, hex, no_wit, wit)) return std::string("[false]");
                return "[true," + JHex(Ser(TX_WITH_WITNESS(t))) + "]";
            };
            j.raw("d_w", dec(false, true)).raw("d_n", dec(true, false)).raw("d_both", dec(true, true));
            vh::log().obs(rw.ok ? "mtx_stream_accept" : "mtx_stream_reject");
        } else {
            CBlock blk;
            ReadRes rw = TryRead(data, TX_WITH_WITNESS, blk);
            j.raw("sw", ResJson(rw, data));
            CBlock b3;
            const bool okb = DecodeHexBlk(b3, hex);
            j.raw("d_blk", okb ? "[true," + JHex(Ser(TX_WITH_WITNESS(b3))) + "]" : std::string("[false]"));
            CBlockHeader hh;
            const bool okh = DecodeHexBlockHeader(hh, hex);
            j.raw("d_hdr", okh ? "[true," + JHex(Ser(hh)) + "]" : std::string("[false]"));
            vh::log().obs(rw.ok ? "mblk_stream_accept" : "mblk_stream_reject");
        }
        vh::log().obs("mut_" + (mut == 3 ? std::string("unknown-flag") : mname));
        vh::log().rec(j);
    }
    return 0;
}

// ================================================================================================ compactsize
VH_CMD(compactsize)
{
    const int64_t batch = args.geti("batch", 64);
    static const uint64_t EDGE[] = {0, 1, 252, 253, 254, 255, 256, 0xfffe, 0xffff, 0x10000, 0x10001, 0x1ffffff, 0x2000000, 0x2000001, 0xfffffffe, 0xffffffff,
                                    0x100000000ULL, 0x100000001ULL, 0x7fffffffffffffffULL, 0x8000000000000000ULL, 0xfffffffffffffffeULL, 0xffffffffffffffffULL};
    for (uint64_t c = args.from; c < args.to; ++c) {
        vh::set_case(c);
        vh::Rng rng(args.seed, c);
        std::vector<std::string> wr, rd;
        for (int64_t i = 0; i < batch; ++i) {
            uint64_t v;
            switch (rng.below(4)) {
            case 0: v = EDGE[rng.below(sizeof(EDGE) / sizeof(EDGE[0]))]; break;
            case 1: v = rng.next() >> rng.below(64); break;
            case 2: v = (uint64_t{1} << rng.below(64)) + static_cast<uint64_t>(rng.range(-2, 2)); break;
            default: v = rng.below(70000); break;
            }
            DataStream ss;
            WriteCompactSize(ss, v);
            wr.push_back("[" + std::to_string(v) + ",\"" + vh::Hex(std::string_view{reinterpret_cast<const char*>(ss.data()), ss.size()}) + "\"]");
            // reading: arbitrary 9 bytes with a biased first byte and biased magnitude
            Bytes in(9, 0);
            uint64_t pv = rng.coin() ? v : EDGE[rng.below(sizeof(EDGE) / sizeof(EDGE[0]))];
            static const uint8_t FB[] = {253, 254, 255};
            in[0] = rng.chance(1, 5) ? static_cast<uint8_t>(rng.below(256)) : FB[rng.below(3)];
            for (int k = 0; k < 8; ++k) in[1 + k] = static_cast<uint8_t>(pv >> (8 * k));
            if (rng.chance(1, 6)) in.resize(rng.below(9)); // truncated
            for (int rc = 0; rc < 2; ++rc) {
                DataStream rs{std::span<const uint8_t>{in.data(), in.size()}};
                std::string res;
                try {
                    const uint64_t got = ReadCompactSize(rs, rc == 1);
                    res = "[true," + std::to_string(got) + "," + std::to_string(in.size() - rs.size()) + "]";
                } catch (const std::ios_base::failure&) {
                    res = "[false]";
                }
                rd.push_back("[" + JHex(in) + "," + (rc ? "true" : "false") + "," + res + "]");
            }
        }
        vh::log().obs("compactsize_probes", batch * 3);
        vh::log().rec(vh::J().u("case", c).str("k", "cs").raw("wr", vh::JArr(wr)).raw("rd", vh::JArr(rd)));
    }
    return 0;
}

// ================================================================================================ textenc
// family = c % 6 : 0 hex, 1 base58, 2 base64/base32, 3 money, 4 integers, 5 fixed point
VH_CMD(textenc)
{
    const int64_t batch = args.geti("batch", 16);
    for (uint64_t c = args.from; c < args.to; ++c) {
        vh::set_case(c);
        vh::Rng rng(args.seed, c);
        const int fam = static_cast<int>(c % 6);
        std::vector<std::string> p;
        static const char* FAM[] = {"hex", "b58", "b64", "money", "int", "fixed"};
        for (int64_t i = 0; i < batch; ++i) {
            static const size_t LEN[] = {0, 1, 2, 3, 4, 5, 6, 7, 8, 9, 10, 20, 21, 25, 32, 33, 34, 35, 64, 78};
            Bytes b = rng.bytes(rng.chance(1, 20) ? rng.below(300) : LEN[rng.below(20)]);
            if (rng.chance(1, 4)) {
                const size_t z = rng.below(b.size() + 1);
                std::fill(b.begin(), b.begin() + z, 0);
            }
            if (rng.chance(1, 16)) std::fill(b.begin(), b.end(), 0xff);
            const bool damage = rng.below(3) != 0;
            if (fam == 0) {
                const std::string enc = HexStr(b);
                std::string s = enc;
                if (rng.chance(1, 3)) {
                    // white space between byte pairs is legal for ParseHex
                    for (size_t k = 0; k + 2 <= s.size() && rng.coin(); k += 2 * (1 + rng.below(3))) s.insert(k, 1, " \n\t\r\v\f"[rng.below(6)]);
                }
                if (damage) s = Damage(s, rng, "gGxXzZ-_:,.");
                if (rng.chance(1, 8)) s = "0x" + s;
                const auto tr = TryParseHex<uint8_t>(s);
                p.push_back("[" + JHex(b) + "," + SHex(enc) + "," + SHex(s) + "," + (IsHex(s) ? "true" : "false") + "," + OptBytes(tr) + "," + JHex(ParseHex(s)) + "]");
                vh::log().obs(tr ? "hex_accept" : "hex_reject");
            } else if (fam == 1) {
                const std::string enc = EncodeBase58(b), encc = EncodeBase58Check(b);
                std::string s = rng.coin() ? enc : encc;
                if (damage) s = Damage(s, rng, "0OIl+/=-_");
                if (rng.chance(1, 6)) s = std::string(rng.below(4), ' ') + s + std::string(rng.below(4), "\t\n "[rng.below(3)]);
                int max_len;
                switch (rng.below(6)) {
                case 0: max_len = static_cast<int>(b.size()); break;
                case 1: max_len = static_cast<int>(b.size()) + 4; break;
                case 2: max_len = static_cast<int>(b.size()) + 3; break;
                case 3: max_len = b.empty() ? 0 : static_cast<int>(b.size()) - 1; break;
                case 4: max_len = std::numeric_limits<int>::max(); break;
                default: max_len = static_cast<int>(rng.below(100)); break;
                }
                Bytes o1, o2;
                const bool ok1 = DecodeBase58(s, o1, max_len);
                const bool ok2 = DecodeBase58Check(s, o2, max_len);
                p.push_back("[" + JHex(b) + "," + SHex(enc) + "," + SHex(encc) + "," + SHex(s) + "," + std::to_string(max_len) + "," + (ok1 ? JHex(o1) : "null") + "," + (ok2 ? JHex(o2) : "null") + "]");
                vh::log().obs(ok1 ? "b58_accept" : "b58_reject");
                vh::log().obs(ok2 ? "b58check_accept" : "b58check_reject");
            } else if (fam == 2) {
                const std::string e64 = EncodeBase64(b), e32 = EncodeBase32(b), e32n = EncodeBase32(b, false);
                std::string s64 = e64, s32 = rng.chance(1, 4) ? ToUpper(e32) : e32;
                if (damage) {
                    s64 = Damage(s64, rng, "-_.,*~");
                    s32 = Damage(s32, rng, "0189+/-_");
                }
                if (rng.chance(1, 10)) s32 = e32n;
                if (rng.chance(1, 10)) s64 += "====";
                if (rng.chance(1, 10)) s32 += "========";
                const auto d64 = DecodeBase64(s64);
                const auto d32 = DecodeBase32(s32);
                p.push_back("[" + JHex(b) + "," + SHex(e64) + "," + SHex(e32) + "," + SHex(e32n) + "," + SHex(s64) + "," + OptBytes(d64) + "," + SHex(s32) + "," + OptBytes(d32) + "]");
                vh::log().obs(d64 ? "b64_accept" : "b64_reject");
                vh::log().obs(d32 ? "b32_accept" : "b32_reject");
            } else if (fam == 3) {
                CAmount n;
                switch (rng.below(6)) {
                case 0: n = rng.range(0, MAX_MONEY); break;
                case 1: n = MAX_MONEY - static_cast<CAmount>(rng.below(3)); break;
                case 2: n = static_cast<CAmount>(rng.below(3)); break;
                case 3: n = static_cast<CAmount>(rng.below(2100)) * 1000000000000LL / (1 + static_cast<CAmount>(rng.below(10))); break;
                case 4: n = (static_cast<CAmount>(rng.below(21000000)) * COIN); break;
                default: {
                    CAmount pw = 1;
                    for (uint64_t k = rng.below(16); k > 0; --k) pw *= 10;
                    n = std::min<CAmount>(MAX_MONEY, static_cast<CAmount>(1 + rng.below(9)) * pw + rng.range(-3, 3));
                    if (n < 0) n = 0;
                }
                }
                const std::string f = FormatMoney(n);
                const auto back = ParseMoney(f);
                // a second, free-form string
                std::string s;
                switch (rng.below(10)) {
                case 0: s = f; break;
                case 1: s = std::to_string(n / COIN); break;
                case 2: s = std::to_string(n / COIN) + "."; break;
                case 3: s = "." + RandDigits(rng, rng.below(10)); break;
                case 4: s = RandDigits(rng, 1 + rng.below(12)) + "." + RandDigits(rng, rng.below(10)); break;
                case 5: s = std::to_string(n / COIN) + "." + RandDigits(rng, 8) + std::string(rng.below(3), '0'); break;
                case 6: s = "21000000." + std::string(rng.below(9), '0') + (rng.coin() ? "1" : ""); break;
                case 7: s = std::string(rng.below(12), '0') + f; break;
                case 8: s = (rng.coin() ? "-" : "+") + f; break;
                default: s = f + "e" + std::to_string(rng.below(3)); break;
                }
                if (damage) s = Damage(s, rng, "-+eE,xX");
                if (rng.chance(1, 6)) s = std::string(rng.below(3), ' ') + s + std::string(rng.below(3), "\t\n "[rng.below(3)]);
                const auto ps = ParseMoney(s);
                p.push_back("[" + std::to_string(n) + "," + SHex(f) + "," + OptInt(back) + "," + SHex(s) + "," + OptInt(ps) + "]");
                vh::log().obs(ps ? "money_accept" : "money_reject");
            } else if (fam == 4) {
                // number near a type boundary, decorated
                static const int BITS[] = {7, 8, 15, 16, 31, 32, 63, 64};
                std::string s;
                const int bits = BITS[rng.below(8)];
                const bool neg = rng.chance(1, 3);
                // magnitude 2^bits + d as decimal string using unsigned __int128
                unsigned __int128 mag = (static_cast<unsigned __int128>(1) << bits);
                const int d = static_cast<int>(rng.range(-2, 2));
                mag = d < 0 ? mag - static_cast<unsigned>(-d) : mag + static_cast<unsigned>(d);
                if (rng.chance(1, 3)) mag = rng.next() >> rng.below(64);
                if (rng.chance(1, 10)) mag = 0;
                std::string dec;
                if (mag == 0) dec = "0";
                for (unsigned __int128 m = mag; m > 0; m /= 10) dec.insert(dec.begin(), static_cast<char>('0' + static_cast<int>(m % 10)));
                const bool as_hex = rng.chance(1, 4);
                if (as_hex) {
                    dec.clear();
                    if (mag == 0) dec = "0";
                    for (unsigned __int128 m = mag; m > 0; m /= 16) dec.insert(dec.begin(), "0123456789abcdefABCDEF"[static_cast<size_t>((m % 16) < 10 ? (m % 16) : ((m % 16) + (rng.coin() ? 0 : 6)))]);
                }
                s = (neg ? "-" : "") + dec;
                switch (rng.below(12)) {
                case 0: s = "+" + s; break;
                case 1: s = " " + s; break;
                case 2: s = s + " "; break;
                case 3: s = std::string(1 + rng.below(25), '0') + dec; if (neg) s = "-" + s; break;
                case 4: s = "0x" + s; break;
                case 5: s = ""; break;
                case 6: s = "-"; break;
                case 7: s = "+-" + dec; break;
                case 8: s = s + "abc"; break;
                case 9: s = Damage(s, rng, "+-.eExX, "); break;
                default: break;
                }
                std::string r10 = "[" + OptInt(ToIntegral<int8_t>(s)) + "," + OptInt(ToIntegral<uint8_t>(s)) + "," + OptInt(ToIntegral<int16_t>(s)) + "," + OptInt(ToIntegral<uint16_t>(s)) + "," +
                                  OptInt(ToIntegral<int32_t>(s)) + "," + OptInt(ToIntegral<uint32_t>(s)) + "," + OptInt(ToIntegral<int64_t>(s)) + "," + OptInt(ToIntegral<uint64_t>(s)) + "]";
                std::string r16 = "[" + OptInt(ToIntegral<int32_t>(s, 16)) + "," + OptInt(ToIntegral<uint32_t>(s, 16)) + "," + OptInt(ToIntegral<int64_t>(s, 16)) + "," + OptInt(ToIntegral<uint64_t>(s, 16)) + "]";
                std::string ra = "[" + std::to_string(LocaleIndependentAtoi<int32_t>(s)) + "," + std::to_string(LocaleIndependentAtoi<int64_t>(s)) + "," + std::to_string(LocaleIndependentAtoi<uint8_t>(s)) + "]";
                p.push_back("[" + SHex(s) + "," + r10 + "," + r16 + "," + ra + "]");
                vh::log().obs(ToIntegral<int64_t>(s) ? "int_accept" : "int_reject");
            } else {
                // JSON-style fixed point numbers
                std::string s;
                if (rng.chance(1, 3)) s += "-";
                const size_t ni = rng.below(4) == 0 ? 0 : 1 + rng.below(rng.chance(1, 5) ? 20 : 9);
                std::string ip = RandDigits(rng, ni);
                if (!ip.empty() && ip[0] == '0' && rng.below(4) != 0) ip[0] = '1';
                if (ip.empty() && rng.below(4) != 0) ip = "0";
                s += ip;
                if (rng.coin()) {
                    s += ".";
                    std::string fp = RandDigits(rng, rng.below(rng.chance(1, 5) ? 22 : 10));
                    if (rng.coin()) {
                        size_t z = rng.below(fp.size() + 1);
                        std::fill(fp.end() - z, fp.end(), '0');
                    }
                    s += fp;
                }
                if (rng.chance(1, 3)) {
                    s += rng.coin() ? "e" : "E";
                    const uint64_t sg = rng.below(3);
                    if (sg == 1) s += "+";
                    if (sg == 2) s += "-";
                    s += rng.chance(1, 20) ? RandDigits(rng, 1 + rng.below(25)) : std::to_string(rng.below(22));
                }
                if (rng.chance(1, 4)) s = Damage(s, rng, "+-.eE, x");
                std::vector<std::string> out;
                for (int decimals : {0, 8, 17}) {
                    int64_t v = 0;
                    const bool ok = ParseFixedPoint(s, decimals, &v);
                    out.push_back(ok ? std::to_string(v) : "null");
                    if (decimals == 8) vh::log().obs(ok ? "fixed_accept" : "fixed_reject");
                }
                p.push_back("[" + SHex(s) + "," + vh::JArr(out) + "]");
            }
        }
        vh::log().rec(vh::J().u("case", c).str("k", FAM[fam]).raw("p", vh::JArr(p)));
    }
    return 0;
}
