// C25: TxGraph in lock-step with a naive reference graph.
// One case = one operation sequence on a fresh TxGraph (random cluster count / size limits and acceptable cost) and on the
// reference: per level (main, optional staging) a set of present transactions with direct parent sets; ancestors, descendants
// and clusters by breadth-first search; oversize = a component over the count or size limit.
//   structural answers (Exists, GetTransactionCount, IsOversized, GetIndividualFeerate, GetAncestors/Descendants(+Union),
//   GetCluster as a set, CountDistinctClusters) are compared exactly in both levels;
//   ordering answers are checked for consistency with ONE linearization per cluster: CompareMainOrder over all pairs is a strict
//   total order that is topological; GetCluster(MAIN) lists each cluster in that order; a full BlockBuilder walk reproduces that
//   order chunk by chunk, every chunk lies in one cluster, is connected, has the feerate of its members' sum = GetMainChunkFeerate of
//   every member, is a highest-feerate prefix of what remains of its cluster, chunk feerates never increase along the walk;
//   a walk with Skip() omits exactly the later chunks of skipped clusters; GetWorstMainChunk is the last chunk, reverse-topological;
//   GetCluster(TOP) is topological with connected chunks; GetMainStagingDiagrams are the two chunk multisets minus a common part;
//   Trim: removed set existed, is closed under descendants, and leaves no oversized cluster (checked in the reference);
//   SanityCheck() after every operation.
// The workload respects the documented preconditions (no cycles; removals together with all ancestors or all descendants;
// no main mutation while a BlockBuilder lives; inspectors only on non-oversized levels).
#include <common/vh.h>

#include <txgraph.h>
#include <util/feefrac.h>

#include <algorithm>
#include <compare>
#include <map>
#include <memory>
#include <optional>
#include <set>
#include <stdexcept>
#include <string>
#include <vector>

namespace {
using i128 = __int128;

struct SimRef : public TxGraph::Ref {
    uint64_t id{0};
    int slot{-1};
    SimRef() noexcept = default;
    SimRef(uint64_t i, int s) noexcept : id(i), slot(s) {}
    SimRef(SimRef&& o) noexcept : TxGraph::Ref(std::move(o)), id(o.id), slot(o.slot) {}
};

constexpr int MAXS = 220; // slots (transactions ever created) per case

struct Level {
    std::vector<char> present;
    std::vector<std::set<int>> par; // direct parents (present ones only)
    std::vector<std::set<int>> chl;
    Level() : present(MAXS, 0), par(MAXS), chl(MAXS) {}
    int count() const
    {
        int n = 0;
        for (char c : present) n += c;
        return n;
    }
    void add(int k) { present[k] = 1; }
    void dep(int p, int c)
    {
        par[c].insert(p);
        chl[p].insert(c);
    }
    // removal keeps the transitive relations between the remaining transactions (the interface is defined on the closure)
    void remove(int k)
    {
        for (int p : par[k]) chl[p].erase(k);
        for (int c : chl[k]) par[c].erase(k);
        for (int p : par[k])
            for (int c : chl[k]) dep(p, c);
        par[k].clear();
        chl[k].clear();
        present[k] = 0;
    }
    std::set<int> reach(int k, bool down) const
    {
        std::set<int> seen{k};
        std::vector<int> todo{k};
        while (!todo.empty()) {
            const int x = todo.back();
            todo.pop_back();
            for (int y : (down ? chl[x] : par[x]))
                if (seen.insert(y).second) todo.push_back(y);
        }
        return seen;
    }
    std::set<int> component(int k) const
    {
        std::set<int> seen{k};
        std::vector<int> todo{k};
        while (!todo.empty()) {
            const int x = todo.back();
            todo.pop_back();
            for (int y : par[x])
                if (seen.insert(y).second) todo.push_back(y);
            for (int y : chl[x])
                if (seen.insert(y).second) todo.push_back(y);
        }
        return seen;
    }
    std::vector<int> members() const
    {
        std::vector<int> v;
        for (int k = 0; k < MAXS; ++k)
            if (present[k]) v.push_back(k);
        return v;
    }
};

struct Violation : std::runtime_error {
    std::string key;
    Violation(std::string k, const std::string& msg) : std::runtime_error(msg), key(std::move(k)) {}
};

struct Sim {
    vh::Rng& rng;
    std::unique_ptr<TxGraph> real;
    unsigned max_count;
    uint64_t max_size;
    std::vector<std::unique_ptr<SimRef>> refs; // by slot; null once destroyed
    std::vector<int64_t> fee;
    std::vector<int32_t> size;
    std::vector<Level> lv; // [0] main, [1] staging if present
    SimRef empty_ref;
    bool main_oversize_sticky{false}; // a main transaction was destroyed while staging existed (documented: main's oversizedness may stay)
    std::string trace;                // compact op trace for the witness
    uint64_t ops_hash{0xcbf29ce484222325ULL};

    Sim(vh::Rng& r) : rng(r), fee(MAXS, 0), size(MAXS, 0), lv(1) { refs.resize(MAXS); }

    Level& top() { return lv.back(); }
    Level& main() { return lv[0]; }
    bool staging() const { return lv.size() == 2; }
    Level& at(TxGraph::Level l) { return l == TxGraph::Level::MAIN ? lv[0] : lv.back(); }

    void note(const std::string& s)
    {
        if (trace.size() < 6000) trace += s + ";";
        for (char ch : s) ops_hash = (ops_hash ^ static_cast<unsigned char>(ch)) * 0x100000001b3ULL;
    }
    [[noreturn]] void fail(const std::string& key, const std::string& msg) { throw Violation(key, msg); }

    bool oversized(const Level& l) const
    {
        std::vector<char> seen(MAXS, 0);
        for (int k = 0; k < MAXS; ++k) {
            if (!l.present[k] || seen[k]) continue;
            const auto comp = l.component(k);
            uint64_t tot = 0;
            for (int x : comp) seen[x] = 1, tot += static_cast<uint64_t>(size[x]);
            if (comp.size() > max_count || tot > max_size) return true;
        }
        return false;
    }
    std::vector<int> alive_slots() const
    {
        std::vector<int> v;
        for (int k = 0; k < MAXS; ++k)
            if (refs[k]) v.push_back(k);
        return v;
    }
    int slot_of(const TxGraph::Ref* r) const { return static_cast<const SimRef*>(r)->slot; }
    std::set<int> to_set(const std::vector<TxGraph::Ref*>& v, const char* what)
    {
        std::set<int> s;
        for (auto* r : v) {
            if (r == nullptr) fail("null-ref-returned", std::string(what) + " returned a null Ref");
            const int k = slot_of(r);
            if (k < 0 || k >= MAXS || refs[k].get() != r) fail("unknown-ref-returned", std::string(what) + " returned a Ref that is not a live Ref of this graph");
            if (!s.insert(k).second) fail("duplicate-ref-returned", std::string(what) + " returned the same transaction twice");
        }
        return s;
    }
    static std::string SetStr(const std::set<int>& s)
    {
        std::string r = "{";
        for (int x : s) r += std::to_string(x) + ",";
        return r + "}";
    }
    static int CmpRate(i128 fa, i128 sa, i128 fb, i128 sb)
    {
        const i128 l = fa * sb, r = fb * sa;
        return l < r ? -1 : l > r ? 1 : 0;
    }
    bool connected_in(const Level& l, const std::set<int>& s) const
    {
        if (s.empty()) return true;
        std::set<int> seen{*s.begin()};
        std::vector<int> todo{*s.begin()};
        // ancestors/descendants relation restricted to s (a chunk is a run of a topological order, so in-between nodes are inside)
        while (!todo.empty()) {
            const int x = todo.back();
            todo.pop_back();
            const auto up = l.reach(x, false), down = l.reach(x, true);
            for (int y : s)
                if (!seen.count(y) && (up.count(y) || down.count(y))) seen.insert(y), todo.push_back(y);
        }
        return seen.size() == s.size();
    }

    // ------------------------------------------------------------------ checks
    // returns the real graph's oversize answer for the level after comparing it with the reference
    bool check_oversized(TxGraph::Level L)
    {
        const bool want = oversized(at(L));
        const bool got = real->IsOversized(L);
        const bool is_main_level = (L == TxGraph::Level::MAIN) || !staging();
        if (got != want) {
            if (is_main_level && staging() && main_oversize_sticky && got && !want) {
                vh::log().obs("sticky_main_oversize_tolerated");
                return got;
            }
            fail("oversized-mismatch", std::string("IsOversized(") + (L == TxGraph::Level::MAIN ? "MAIN" : "TOP") + ") = " + (got ? "true" : "false") + ", reference says " + (want ? "true" : "false"));
        }
        vh::log().obs(want ? "oversized_seen" : "not_oversized_seen");
        if (want && !is_main_level) vh::log().obs("oversized_staging_seen");
        if (want && is_main_level) vh::log().obs("oversized_main_seen");
        return got;
    }

    void check_structure(TxGraph::Level L, bool thorough)
    {
        Level& l = at(L);
        const char* ln = L == TxGraph::Level::MAIN ? "MAIN" : "TOP";
        if (real->GetTransactionCount(L) != static_cast<TxGraph::GraphIndex>(l.count()))
            fail("count-mismatch", std::string("GetTransactionCount(") + ln + ") = " + std::to_string(real->GetTransactionCount(L)) + ", reference " + std::to_string(l.count()));
        const bool over = check_oversized(L);
        // existence and feerates for every live Ref (present, removed-but-alive) and an empty Ref
        for (int k : alive_slots()) {
            const bool ex = real->Exists(*refs[k], L);
            if (ex != static_cast<bool>(l.present[k])) fail("exists-mismatch", std::string("Exists(") + ln + ") of tx " + std::to_string(k) + " = " + (ex ? "true" : "false"));
            const FeePerWeight fr = real->GetIndividualFeerate(*refs[k]);
            bool anywhere = false;
            for (auto& x : lv) anywhere |= static_cast<bool>(x.present[k]);
            if (anywhere) {
                if (fr.fee != fee[k] || fr.size != size[k]) fail("feerate-mismatch", "GetIndividualFeerate of tx " + std::to_string(k) + " = " + std::to_string(fr.fee) + "/" + std::to_string(fr.size) + ", reference " + std::to_string(fee[k]) + "/" + std::to_string(size[k]));
            } else if (!fr.IsEmpty() || fr.fee != 0) {
                fail("feerate-mismatch", "GetIndividualFeerate of a transaction that exists nowhere is not empty");
            }
        }
        if (real->Exists(empty_ref, L)) fail("exists-mismatch", "an empty Ref exists");
        vh::log().obs("structure_checks");
        if (over) return; // the remaining inspectors are not available on an oversized level
        const auto mem = l.members();
        std::vector<int> probe = alive_slots();
        if (!thorough && probe.size() > 6) {
            rng.shuffle(probe);
            probe.resize(6);
        }
        for (int k : probe) {
            const auto anc = to_set(real->GetAncestors(*refs[k], L), "GetAncestors");
            const auto desc = to_set(real->GetDescendants(*refs[k], L), "GetDescendants");
            const auto clu_v = real->GetCluster(*refs[k], L);
            const auto clu = to_set(clu_v, "GetCluster");
            if (!l.present[k]) {
                if (!anc.empty() || !desc.empty() || !clu.empty()) fail("absent-tx-has-relatives", std::string("ancestors/descendants/cluster of a transaction absent from ") + ln + " are not empty");
                continue;
            }
            const auto wa = l.reach(k, false), wd = l.reach(k, true), wc = l.component(k);
            if (anc != wa) fail("ancestors-mismatch", std::string("GetAncestors(") + ln + ") of tx " + std::to_string(k) + " = " + SetStr(anc) + ", reference " + SetStr(wa));
            if (desc != wd) fail("descendants-mismatch", std::string("GetDescendants(") + ln + ") of tx " + std::to_string(k) + " = " + SetStr(desc) + ", reference " + SetStr(wd));
            if (clu != wc) fail("cluster-mismatch", std::string("GetCluster(") + ln + ") of tx " + std::to_string(k) + " = " + SetStr(clu) + ", reference " + SetStr(wc));
            // the cluster is listed in a topologically valid order
            std::set<int> done;
            for (auto* r : clu_v) {
                const int x = slot_of(r);
                for (int p : l.par[x])
                    if (!done.count(p)) fail("cluster-order-not-topological", std::string("GetCluster(") + ln + ") lists tx " + std::to_string(x) + " before its parent " + std::to_string(p));
                done.insert(x);
            }
            // its chunks ("highest-feerate prefix of what remains", shortest on ties) are connected
            if (thorough) {
                size_t i = 0;
                while (i < clu_v.size()) {
                    i128 f = 0, s = 0, bf = 0, bs = 1;
                    size_t be = i;
                    for (size_t j = i; j < clu_v.size(); ++j) {
                        f += fee[slot_of(clu_v[j])];
                        s += size[slot_of(clu_v[j])];
                        if (be == i || CmpRate(f, s, bf, bs) > 0) bf = f, bs = s, be = j + 1;
                    }
                    std::set<int> ch;
                    for (size_t j = i; j < be; ++j) ch.insert(slot_of(clu_v[j]));
                    if (!connected_in(l, ch)) fail("chunk-not-connected", std::string("a chunk of the ") + ln + " linearization of a cluster is not connected: " + SetStr(ch));
                    i = be;
                }
                vh::log().obs("cluster_chunk_connectivity_checks");
            }
        }
        // unions and distinct cluster counts over random argument lists (absent and empty-graph refs are ignored by the interface)
        for (int rep = 0; rep < (thorough ? 3 : 1); ++rep) {
            std::vector<const TxGraph::Ref*> args;
            std::vector<int> slots = alive_slots();
            const size_t cnt = rng.below(8);
            for (size_t i = 0; i < cnt && !slots.empty(); ++i) args.push_back(refs[slots[rng.below(slots.size())]].get());
            std::set<int> wa, wd, reps;
            for (auto* r : args) {
                const int k = slot_of(r);
                if (!l.present[k]) continue;
                for (int x : l.reach(k, false)) wa.insert(x);
                for (int x : l.reach(k, true)) wd.insert(x);
                reps.insert(*l.component(k).begin());
            }
            const auto ga = to_set(real->GetAncestorsUnion(args, L), "GetAncestorsUnion");
            const auto gd = to_set(real->GetDescendantsUnion(args, L), "GetDescendantsUnion");
            if (ga != wa) fail("ancestors-union-mismatch", std::string("GetAncestorsUnion(") + ln + ") = " + SetStr(ga) + ", reference " + SetStr(wa));
            if (gd != wd) fail("descendants-union-mismatch", std::string("GetDescendantsUnion(") + ln + ") = " + SetStr(gd) + ", reference " + SetStr(wd));
            const auto cnt_real = real->CountDistinctClusters(args, L);
            if (cnt_real != reps.size()) fail("distinct-clusters-mismatch", std::string("CountDistinctClusters(") + ln + ") = " + std::to_string(cnt_real) + ", reference " + std::to_string(reps.size()));
        }
        vh::log().obs("relation_checks");
    }

    struct ChunkRec {
        std::vector<int> txs;
        int64_t fee;
        int32_t size;
    };

    // all ordering answers of the main graph (which must not be oversized)
    std::vector<ChunkRec> check_main_order()
    {
        Level& l = main();
        const auto mem = l.members();
        const size_t n = mem.size();
        // 1. CompareMainOrder over all pairs is a strict total order
        std::vector<std::vector<int>> cmp(n, std::vector<int>(n, 0));
        for (size_t i = 0; i < n; ++i)
            for (size_t j = 0; j < n; ++j) {
                const auto c = real->CompareMainOrder(*refs[mem[i]], *refs[mem[j]]);
                cmp[i][j] = c < 0 ? -1 : c > 0 ? 1 : 0;
            }
        std::vector<size_t> rank(n, 0);
        for (size_t i = 0; i < n; ++i) {
            if (cmp[i][i] != 0) fail("order-not-total", "CompareMainOrder(a, a) != equal");
            for (size_t j = 0; j < n; ++j)
                if (cmp[j][i] < 0) ++rank[i];
        }
        std::vector<int> order(n, -1);
        for (size_t i = 0; i < n; ++i) {
            if (rank[i] >= n || order[rank[i]] != -1) fail("order-not-total", "CompareMainOrder is not a strict total order (two transactions have the same number of predecessors)");
            order[rank[i]] = mem[i];
        }
        for (size_t i = 0; i < n; ++i)
            for (size_t j = 0; j < n; ++j) {
                const int want = rank[i] < rank[j] ? -1 : rank[i] > rank[j] ? 1 : 0;
                if (cmp[i][j] != want) fail("order-not-total", "CompareMainOrder is not antisymmetric/transitive");
            }
        // 2. topological
        {
            std::set<int> done;
            for (int x : order) {
                for (int p : l.par[x])
                    if (!done.count(p)) fail("order-not-topological", "CompareMainOrder places tx " + std::to_string(x) + " before its parent " + std::to_string(p));
                done.insert(x);
            }
        }
        vh::log().obs("main_order_checks");
        // 3. GetCluster(MAIN) lists every cluster in that order
        std::map<int, std::vector<int>> cluster_lin; // representative -> linearization
        std::map<int, int> rep_of;
        for (int x : order) {
            if (rep_of.count(x)) continue;
            const auto comp = l.component(x);
            for (int y : comp) rep_of[y] = x;
        }
        for (int x : order) cluster_lin[rep_of[x]].push_back(x);
        for (auto& [rep, lin] : cluster_lin) {
            const auto cv = real->GetCluster(*refs[lin[rng.below(lin.size())]], TxGraph::Level::MAIN);
            std::vector<int> got;
            for (auto* r : cv) got.push_back(slot_of(r));
            if (got != lin) fail("cluster-order-differs-from-main-order", "GetCluster(MAIN) lists a cluster in a different order than CompareMainOrder");
        }
        // 4. BlockBuilder walk without skipping reproduces the order chunk by chunk
        std::vector<ChunkRec> chunks;
        {
            auto builder = real->GetBlockBuilder();
            size_t at = 0;
            std::optional<std::pair<i128, i128>> prev;
            std::map<int, size_t> cluster_pos; // progress inside each cluster's linearization
            while (auto cur = builder->GetCurrentChunk()) {
                ChunkRec cr;
                cr.fee = cur->second.fee;
                cr.size = cur->second.size;
                if (cur->first.empty()) fail("builder-empty-chunk", "BlockBuilder returned an empty chunk");
                i128 f = 0, s = 0;
                std::set<int> members;
                for (auto* r : cur->first) {
                    const int x = slot_of(r);
                    if (x < 0 || x >= MAXS || refs[x].get() != r || !l.present[x]) fail("builder-unknown-tx", "BlockBuilder chunk contains a transaction that is not in the main graph");
                    if (at >= n || order[at] != x) fail("builder-order-differs-from-main-order", "BlockBuilder does not yield the transactions in CompareMainOrder order");
                    ++at;
                    cr.txs.push_back(x);
                    members.insert(x);
                    f += fee[x];
                    s += size[x];
                    const FeePerWeight cf = real->GetMainChunkFeerate(*r);
                    if (cf.fee != cr.fee || cf.size != cr.size) fail("chunk-feerate-inconsistent", "GetMainChunkFeerate of a member differs from the feerate of the BlockBuilder chunk it is in");
                }
                if (f != cr.fee || s != cr.size) fail("chunk-feerate-not-sum", "BlockBuilder chunk feerate is not the sum of its transactions' feerates");
                if (prev && CmpRate(f, s, prev->first, prev->second) > 0) fail("chunk-feerates-increase", "BlockBuilder chunk feerates increase along the walk");
                prev = std::make_pair(f, s);
                // one cluster, connected, a highest-feerate prefix of what remains of that cluster
                const int rep = rep_of[cr.txs[0]];
                for (int x : cr.txs)
                    if (rep_of[x] != rep) fail("chunk-spans-clusters", "a chunk contains transactions of two clusters");
                if (!connected_in(l, members)) fail("chunk-not-connected", "a main chunk is not connected: " + SetStr(members));
                const auto& lin = cluster_lin[rep];
                size_t& cp = cluster_pos[rep];
                for (size_t i = 0; i < cr.txs.size(); ++i)
                    if (cp + i >= lin.size() || lin[cp + i] != cr.txs[i]) fail("chunk-not-a-prefix", "a chunk is not the next run of its cluster's linearization");
                i128 pf = 0, ps = 0;
                for (size_t j = cp; j < lin.size(); ++j) {
                    pf += fee[lin[j]];
                    ps += size[lin[j]];
                    if (CmpRate(pf, ps, f, s) > 0) fail("chunk-not-highest-feerate-prefix", "a prefix of the remainder of a cluster's linearization has a higher feerate than the reported chunk");
                }
                cp += cr.txs.size();
                chunks.push_back(cr);
                if (rng.chance(1, 3)) {
                    auto again = builder->GetCurrentChunk();
                    if (!again || again->first != cur->first || again->second != cur->second) fail("builder-unstable", "GetCurrentChunk twice gives different answers");
                }
                builder->Include();
            }
            if (at != n) fail("builder-incomplete", "BlockBuilder stopped before all transactions were reported");
            vh::log().obs("builder_full_walks");
            vh::log().obs("chunks_checked", static_cast<int64_t>(chunks.size()));
        }
        // 5. transactions outside the main graph have an empty chunk feerate
        for (int k : alive_slots())
            if (!l.present[k] && !real->GetMainChunkFeerate(*refs[k]).IsEmpty()) fail("chunk-feerate-inconsistent", "GetMainChunkFeerate of a transaction outside the main graph is not empty");
        // 6. GetWorstMainChunk = last chunk, every element preceded by all its descendants
        {
            auto [wv, wf] = real->GetWorstMainChunk();
            if (chunks.empty()) {
                if (!wv.empty() || !wf.IsEmpty()) fail("worst-chunk-mismatch", "GetWorstMainChunk of an empty graph is not empty");
            } else {
                const auto ws = to_set(wv, "GetWorstMainChunk");
                std::set<int> last(chunks.back().txs.begin(), chunks.back().txs.end());
                if (ws != last || wf.fee != chunks.back().fee || wf.size != chunks.back().size) fail("worst-chunk-mismatch", "GetWorstMainChunk is not the last BlockBuilder chunk");
                std::set<int> done;
                for (auto* r : wv) {
                    const int x = slot_of(r);
                    for (int d : l.reach(x, true))
                        if (d != x && ws.count(d) && !done.count(d)) fail("worst-chunk-order", "GetWorstMainChunk lists a transaction before one of its descendants");
                    done.insert(x);
                }
            }
            vh::log().obs("worst_chunk_checks");
        }
        // 7. a walk with skips: later chunks of a skipped cluster disappear, everything else stays in place
        if (!chunks.empty()) {
            auto builder = real->GetBlockBuilder();
            std::set<int> skipped_clusters;
            size_t skips = 0;
            for (const auto& cr : chunks) {
                const int rep = rep_of[cr.txs[0]];
                if (skipped_clusters.count(rep)) continue;
                auto cur = builder->GetCurrentChunk();
                if (!cur) fail("builder-skip-walk", "BlockBuilder with skips ended early");
                std::vector<int> got;
                for (auto* r : cur->first) got.push_back(slot_of(r));
                if (got != cr.txs || cur->second.fee != cr.fee || cur->second.size != cr.size) fail("builder-skip-walk", "BlockBuilder with skips reports a different chunk than the full walk minus skipped clusters");
                if (rng.chance(1, 3)) {
                    builder->Skip();
                    skipped_clusters.insert(rep);
                    ++skips;
                } else {
                    builder->Include();
                }
            }
            if (builder->GetCurrentChunk()) fail("builder-skip-walk", "BlockBuilder with skips reports chunks beyond the expected sequence");
            vh::log().obs("builder_skip_walks");
            vh::log().obs("builder_skips", static_cast<int64_t>(skips));
        }
        return chunks;
    }

    using Norm = std::map<std::pair<int64_t, int64_t>, std::pair<i128, i128>>; // reduced feerate -> (fee, size) totals
    static void NormAdd(Norm& m, i128 f, i128 s, int sign)
    {
        // key: feerate as reduced fraction (s > 0)
        i128 a = f < 0 ? -f : f, b = s;
        while (b) {
            const i128 t = a % b;
            a = b;
            b = t;
        }
        const i128 g = a == 0 ? s : a;
        auto& e = m[{static_cast<int64_t>(f / g), static_cast<int64_t>(s / g)}];
        e.first += sign * f;
        e.second += sign * s;
    }

    void check_diagrams(const std::vector<ChunkRec>& main_chunks)
    {
        // staging chunks from GetCluster(TOP) orders and the own chunker
        Level& l = top();
        Norm all_main, all_stage, got_main, got_stage;
        for (const auto& c : main_chunks) NormAdd(all_main, c.fee, c.size, 1);
        std::set<int> seen;
        for (int k : l.members()) {
            if (seen.count(k)) continue;
            const auto cv = real->GetCluster(*refs[k], TxGraph::Level::TOP);
            for (auto* r : cv) seen.insert(slot_of(r));
            size_t i = 0;
            while (i < cv.size()) {
                i128 f = 0, s = 0, bf = 0, bs = 1;
                size_t be = i;
                for (size_t j = i; j < cv.size(); ++j) {
                    f += fee[slot_of(cv[j])];
                    s += size[slot_of(cv[j])];
                    if (be == i || CmpRate(f, s, bf, bs) > 0) bf = f, bs = s, be = j + 1;
                }
                NormAdd(all_stage, bf, bs, 1);
                i = be;
            }
        }
        auto [dm, ds] = real->GetMainStagingDiagrams();
        i128 sum_m_f = 0, sum_m_s = 0, sum_s_f = 0, sum_s_s = 0;
        for (size_t i = 0; i < dm.size(); ++i) {
            if (dm[i].size <= 0) fail("diagram-bad-entry", "main diagram contains an entry with non-positive size");
            if (i && CmpRate(dm[i].fee, dm[i].size, dm[i - 1].fee, dm[i - 1].size) > 0) fail("diagram-not-sorted", "main diagram feerates increase");
            NormAdd(got_main, dm[i].fee, dm[i].size, 1);
            sum_m_f += dm[i].fee, sum_m_s += dm[i].size;
        }
        for (size_t i = 0; i < ds.size(); ++i) {
            if (ds[i].size <= 0) fail("diagram-bad-entry", "staging diagram contains an entry with non-positive size");
            if (i && CmpRate(ds[i].fee, ds[i].size, ds[i - 1].fee, ds[i - 1].size) > 0) fail("diagram-not-sorted", "staging diagram feerates increase");
            NormAdd(got_stage, ds[i].fee, ds[i].size, 1);
            sum_s_f += ds[i].fee, sum_s_s += ds[i].size;
        }
        // totals: difference of the diagrams = difference of the graphs
        i128 tm_f = 0, tm_s = 0, ts_f = 0, ts_s = 0;
        for (int k : main().members()) tm_f += fee[k], tm_s += size[k];
        for (int k : l.members()) ts_f += fee[k], ts_s += size[k];
        if (sum_s_f - sum_m_f != ts_f - tm_f || sum_s_s - sum_m_s != ts_s - tm_s) fail("diagram-totals", "the difference between the staging and main diagram totals is not the difference between the two graphs");
        // missing parts: (all - reported) must be non-negative per feerate class and equal between main and staging
        Norm miss_main = all_main, miss_stage = all_stage;
        for (auto& [k, v] : got_main) {
            miss_main[k].first -= v.first;
            miss_main[k].second -= v.second;
        }
        for (auto& [k, v] : got_stage) {
            miss_stage[k].first -= v.first;
            miss_stage[k].second -= v.second;
        }
        auto clean = [&](Norm& m, const char* what) {
            for (auto it = m.begin(); it != m.end();) {
                if (it->second.second < 0) fail("diagram-not-from-chunks", std::string(what) + " diagram contains more size at some feerate than the chunks of that graph");
                if (it->second.second == 0) {
                    if (it->second.first != 0) fail("diagram-not-from-chunks", std::string(what) + " diagram is inconsistent with the chunks of that graph");
                    it = m.erase(it);
                } else {
                    ++it;
                }
            }
        };
        clean(miss_main, "main");
        clean(miss_stage, "staging");
        if (miss_main != miss_stage) fail("diagram-omits-differing-clusters", "the chunks left out of the main diagram differ from those left out of the staging diagram");
        vh::log().obs("diagram_checks");
        if (!miss_main.empty()) vh::log().obs("diagram_with_omitted_common_clusters");
    }

    void full_check(bool thorough)
    {
        real->SanityCheck();
        vh::log().obs("sanity_checks");
        if (real->HaveStaging() != staging()) fail("have-staging-mismatch", "HaveStaging differs from the reference");
        check_structure(TxGraph::Level::MAIN, thorough);
        if (staging()) check_structure(TxGraph::Level::TOP, thorough);
        if (thorough) {
            const bool main_over = real->IsOversized(TxGraph::Level::MAIN);
            if (!main_over) {
                const auto chunks = check_main_order();
                if (staging() && !real->IsOversized(TxGraph::Level::TOP)) check_diagrams(chunks);
            }
            vh::log().obs("full_checks");
        }
        real->SanityCheck();
    }

    // ------------------------------------------------------------------ operations
    int pick_alive()
    {
        const auto v = alive_slots();
        if (v.empty()) return -1;
        return v[rng.below(v.size())];
    }
    void op_add(int fmode)
    {
        int k = -1;
        for (int i = 0; i < MAXS; ++i)
            if (!refs[i] && size[i] == 0) {
                k = i;
                break;
            }
        if (k < 0 || top().count() >= 70) return;
        int64_t f;
        int32_t s;
        switch (fmode) {
        case 0: f = static_cast<int64_t>(rng.below(8)), s = 1 + static_cast<int32_t>(rng.below(4)); break;
        case 1: s = 1 + static_cast<int32_t>(rng.below(10)), f = int64_t{s} * static_cast<int64_t>(1 + rng.below(3)); break;
        case 2: f = rng.range(-(int64_t{1} << 51), (int64_t{1} << 51) - 1), s = 1 + static_cast<int32_t>(rng.below(0x3fffff)); break;
        case 3: f = rng.range(-20, 20), s = 1 + static_cast<int32_t>(rng.below(100)); break;
        default: f = static_cast<int64_t>(rng.below(256)), s = 1 + static_cast<int32_t>(rng.below(255)); break;
        }
        refs[k] = std::make_unique<SimRef>(0x1000 + static_cast<uint64_t>(k) * 7919 % 100003, k);
        refs[k]->id = (static_cast<uint64_t>(rng.below(1000)) << 20) | static_cast<uint64_t>(k); // unique, order unrelated to creation order
        fee[k] = f;
        size[k] = s;
        real->AddTransaction(*refs[k], FeePerWeight{f, s});
        top().add(k);
        note("A" + std::to_string(k));
        vh::log().obs("op_add");
    }
    void op_dep()
    {
        const int p = pick_alive(), c = pick_alive();
        if (p < 0 || c < 0) return;
        Level& l = top();
        if (l.present[p] && l.present[c]) {
            if (l.reach(p, false).count(c)) return; // would make a cycle (or p == c)
            real->AddDependency(*refs[p], *refs[c]);
            l.dep(p, c);
            vh::log().obs("op_dep");
        } else {
            real->AddDependency(*refs[p], *refs[c]); // a no-op by contract
            vh::log().obs("op_dep_noop");
        }
        note("D" + std::to_string(p) + ">" + std::to_string(c));
    }
    // merge clusters on purpose (random pairs rarely collide in the same cluster)
    void op_dep_chain(int count)
    {
        Level& l = top();
        auto mem = l.members();
        if (mem.size() < 2) return;
        for (int i = 0; i < count; ++i) {
            const int p = mem[rng.below(mem.size())], c = mem[rng.below(mem.size())];
            if (l.reach(p, false).count(c)) continue;
            real->AddDependency(*refs[p], *refs[c]);
            l.dep(p, c);
            note("D" + std::to_string(p) + ">" + std::to_string(c));
            vh::log().obs("op_dep");
        }
    }
    void op_remove()
    {
        const int k = pick_alive();
        if (k < 0) return;
        Level& l = top();
        const bool was_present = l.present[k];
        std::vector<int> set{k};
        if (l.present[k]) {
            const auto cl = l.reach(k, rng.coin());
            set.assign(cl.begin(), cl.end());
        }
        rng.shuffle(set);
        for (int x : set) {
            real->RemoveTransaction(*refs[x]);
            if (l.present[x]) l.remove(x);
            note("R" + std::to_string(x));
        }
        vh::log().obs(was_present ? "op_remove" : "op_remove_noop");
        if (set.size() > 1) vh::log().obs("op_remove_with_relatives");
    }
    void op_destroy()
    {
        const int k = pick_alive();
        if (k < 0) return;
        // closed under ancestors (or descendants) in both graphs combined
        const bool down = rng.coin();
        std::set<int> set{k};
        while (true) {
            const size_t before = set.size();
            for (auto& l : lv)
                for (int x : std::set<int>(set))
                    if (l.present[x])
                        for (int y : l.reach(x, down)) set.insert(y);
            if (set.size() == before) break;
        }
        std::vector<int> v(set.begin(), set.end());
        rng.shuffle(v);
        bool in_main = false, any = false;
        for (int x : v) {
            in_main |= static_cast<bool>(main().present[x]);
            for (auto& l : lv) any |= static_cast<bool>(l.present[x]);
        }
        if (staging() && in_main) {
            main_oversize_sticky = true;
            vh::log().obs("ref_destroyed_in_main_while_staging");
        }
        for (int x : v) {
            refs[x].reset(); // ~Ref
            for (auto& l : lv)
                if (l.present[x]) l.remove(x);
            size[x] = -1; // slot is never reused
            note("X" + std::to_string(x));
        }
        vh::log().obs(any ? "op_destroy_present" : "op_destroy_removed");
        if (staging()) vh::log().obs("op_destroy_with_staging");
    }
    void op_move_ref()
    {
        const int k = pick_alive();
        if (k < 0) return;
        auto moved = std::make_unique<SimRef>(std::move(*refs[k]));
        refs[k] = std::move(moved); // the old (now empty) object is destroyed here
        note("M" + std::to_string(k));
        vh::log().obs("op_move_ref");
    }
    void op_setfee()
    {
        const int k = pick_alive();
        if (k < 0) return;
        const int64_t f = rng.chance(1, 4) ? rng.range(-(int64_t{1} << 51), (int64_t{1} << 51) - 1) : static_cast<int64_t>(rng.below(300)) - 20;
        real->SetTransactionFee(*refs[k], f);
        bool anywhere = false;
        for (auto& l : lv) anywhere |= static_cast<bool>(l.present[k]);
        if (anywhere) fee[k] = f;
        note("F" + std::to_string(k));
        vh::log().obs(anywhere ? "op_setfee" : "op_setfee_noop");
    }
    void op_staging()
    {
        if (!staging()) {
            real->StartStaging();
            lv.push_back(lv[0]);
            note("S");
            vh::log().obs("op_start_staging");
        } else if (rng.coin()) {
            real->CommitStaging();
            lv.erase(lv.begin());
            main_oversize_sticky = false;
            note("C");
            vh::log().obs("op_commit_staging");
        } else {
            real->AbortStaging();
            lv.pop_back();
            main_oversize_sticky = false;
            note("B");
            vh::log().obs("op_abort_staging");
        }
    }
    void op_trim()
    {
        Level& l = top();
        const bool was_over = oversized(l);
        const auto removed_v = real->Trim();
        note("T");
        const auto removed = to_set(removed_v, "Trim");
        if (!was_over) {
            if (!removed.empty()) fail("trim-removed-without-oversize", "Trim removed transactions although no cluster exceeds the limits");
            vh::log().obs("op_trim_noop");
            return;
        }
        for (int x : removed)
            if (!l.present[x]) fail("trim-removed-absent-tx", "Trim reports a transaction that was not in the graph");
        for (int x : removed)
            for (int d : l.reach(x, true))
                if (!removed.count(d)) fail("trim-not-descendant-closed", "Trim removed tx " + std::to_string(x) + " but kept its descendant " + std::to_string(d));
        if (removed.empty()) fail("trim-left-oversized", "Trim removed nothing from an oversized graph");
        // removal order: descendants first keeps every intermediate state consistent; the end state does not depend on it
        for (int x : removed) l.remove(x);
        if (oversized(l)) fail("trim-left-oversized", "after Trim a cluster still exceeds the count or size limit");
        vh::log().obs("op_trim");
        vh::log().obs("trim_removed_txs", static_cast<int64_t>(removed.size()));
    }
    void op_dowork()
    {
        const uint64_t cost = rng.chance(1, 3) ? rng.below(300) : rng.below(200000);
        real->DoWork(cost);
        note("W");
        vh::log().obs("op_dowork");
    }
};

} // namespace

// params: ops (operations per sequence)
VH_CMD(txgraph)
{
    const int64_t nops = args.geti("ops", 150);
    for (uint64_t c = args.from; c < args.to; ++c) {
        vh::set_case(c);
        vh::Rng rng(args.seed, c);
        Sim sim(rng);
        // limits
        switch (rng.below(6)) {
        case 0: sim.max_count = 1 + rng.below(3); break;
        case 1: case 2: sim.max_count = 2 + rng.below(10); break;
        case 3: sim.max_count = 10 + rng.below(30); break;
        default: sim.max_count = 64; break;
        }
        const int fmode = static_cast<int>(rng.below(5));
        switch (rng.below(4)) {
        case 0: sim.max_size = 1 + rng.below(fmode == 2 ? (uint64_t{0x3fffff} * 8) : 200); break; // size limit binds
        case 1: sim.max_size = 1 + rng.below(uint64_t{0x3fffff} * 64); break;
        default: sim.max_size = uint64_t{0x3fffff} * 64; break;
        }
        const uint64_t acceptable_cost = rng.chance(1, 3) ? 0 : rng.below(10001);
        auto fallback = [](const TxGraph::Ref& a, const TxGraph::Ref& b) noexcept {
            return static_cast<const SimRef&>(a).id <=> static_cast<const SimRef&>(b).id;
        };
        sim.real = MakeTxGraph(sim.max_count, sim.max_size, acceptable_cost, fallback);
        // how often the inspectors run (they change the lazy internal state, so both dense and sparse observation matter)
        const uint32_t check_every = std::vector<uint32_t>{1, 2, 5, 12, 40}[rng.below(5)];
        const uint32_t full_every = std::vector<uint32_t>{4, 8, 16, 50}[rng.below(4)];
        const bool dep_heavy = rng.coin();
        bool bad = false;
        int op = 0;
        std::string last;
        try {
            // initial population (so that large clusters and the 64-transaction limit are reached within the sequence)
            const int init = std::vector<int>{0, 0, 6, 20, 40, 64}[rng.below(6)];
            for (int i = 0; i < init; ++i) {
                sim.op_add(fmode);
                if (rng.chance(2, 3)) sim.op_dep_chain(1 + static_cast<int>(rng.below(2)));
            }
            if (init) {
                sim.real->SanityCheck();
                if (rng.coin()) sim.full_check(true);
            }
            for (op = 0; op < nops; ++op) {
                const uint64_t r = rng.below(100);
                if (r < 28) sim.op_add(fmode), last = "add";
                else if (r < 44) sim.op_dep(), last = "dep";
                else if (r < (dep_heavy ? 56u : 48u)) sim.op_dep_chain(1 + static_cast<int>(rng.below(6))), last = "deps";
                else if (r < 62) sim.op_remove(), last = "remove";
                else if (r < 66) sim.op_destroy(), last = "destroy";
                else if (r < 68) sim.op_move_ref(), last = "move";
                else if (r < 75) sim.op_setfee(), last = "setfee";
                else if (r < 83) sim.op_staging(), last = "staging";
                else if (r < 89) sim.op_trim(), last = "trim";
                else if (r < 94) sim.op_dowork(), last = "dowork";
                else last = "check";
                sim.real->SanityCheck();
                vh::log().obs("sanity_checks");
                if (last == "check" || op % check_every == 0) sim.full_check(last == "check" || (op / check_every) % full_every == 0);
            }
            sim.full_check(true);
            // end of life: Refs may outlive the graph
            if (rng.coin()) {
                sim.real.reset();
                vh::log().obs("graph_destroyed_before_refs");
            }
        } catch (const Violation& v) {
            bad = true;
            vh::log().violation(v.key, v.what(),
                                vh::J().i("op_index", op).str("last_op", last).u("max_count", sim.max_count).u("max_size", sim.max_size).u("acceptable_cost", acceptable_cost)
                                    .b("staging", sim.staging()).str("trace", sim.trace));
        }
        vh::log().obs_max("txs_in_main", sim.main().count());
        vh::J j;
        j.u("case", c).i("ops", op).u("max_count", sim.max_count).str("max_size", std::to_string(sim.max_size)).u("acc", acceptable_cost).u("check_every", check_every)
            .i("main", sim.main().count()).b("staging", sim.staging()).b("nt", op >= 20).str("sig", std::to_string(sim.ops_hash));
        if (bad || c % 200 == 0) j.str("trace", sim.trace.substr(0, 1500));
        vh::log().rec(j);
        // destroy remaining refs (and the graph, if still alive) in a random order
        auto alive = sim.alive_slots();
        rng.shuffle(alive);
        for (int k : alive) sim.refs[k].reset();
    }
    return 0;
}
