// C45: descriptors, BIP32 derivation, addresses, bech32 (engine E5, families c45_desc / c45_bip32 / c45_addr / c45_bech32).
//  c45_desc   grammar-generated descriptor strings -> Parse; for every accepted one: canonical public/private strings
//             re-parse to the same strings and expand to the same scripts (online monitor); all single-character
//             substitutions must fail the checksum (online); strings are logged for the Python descsum reference.
//  c45_bip32  random seeds and paths -> CExtKey/CExtPubKey::Derive; Neuter/Derive commutation online; every step is
//             logged and recomputed by pyref/bip32.py.
//  c45_addr   every destination type x every built-in network: Encode/Decode round trip, cross-network decoding;
//             strings recomputed by the vendored segwit_addr/address.py, cross-network expectations by an own prefix table.
//  c45_bech32 bech32/bech32m strings <= 90 chars with 1..4 substituted characters must not decode with their encoding.
#include <common/vh.h>
#include <e5_msgen.h>

#include <addresstype.h>
#include <bech32.h>
#include <chainparams.h>
#include <key.h>
#include <key_io.h>
#include <pubkey.h>
#include <script/descriptor.h>
#include <script/script.h>
#include <script/signingprovider.h>
#include <util/bip32.h>
#include <util/chaintype.h>
#include <util/strencodings.h>

#include <algorithm>
#include <map>
#include <memory>
#include <optional>
#include <set>
#include <string>
#include <vector>

namespace {

const ChainType CHAINS[5] = {ChainType::MAIN, ChainType::TESTNET, ChainType::TESTNET4, ChainType::SIGNET, ChainType::REGTEST};
const char* CHAIN_NAMES[5] = {"main", "test", "testnet4", "signet", "regtest"};

CKey MakeKey(vh::Rng& rng, bool compressed)
{
    CKey k;
    do {
        auto b = rng.bytes(32);
        k.Set(b.begin(), b.end(), compressed);
    } while (!k.IsValid());
    return k;
}

enum class Ctx { TOP, P2SH, WPKH, WSH, TR, MUSIG };

struct DescGen {
    vh::Rng& rng;
    std::vector<CKey> keys;       // compressed
    std::vector<CExtKey> xkeys;
    std::vector<std::vector<unsigned char>> preimages;
    int multipath_len{0}; // 0: none used yet in this descriptor
    bool allow_bad;
    std::set<std::string> features;

    DescGen(vh::Rng& r, bool bad) : rng(r), allow_bad(bad)
    {
        for (int i = 0; i < 40; ++i) keys.push_back(MakeKey(rng, true));
        for (int i = 0; i < 6; ++i) {
            CExtKey x;
            auto seed = rng.bytes(32);
            x.SetSeed(MakeByteSpan(seed));
            // sometimes a deeper key so that depth / fingerprint / child fields are non-trivial
            if (rng.coin()) {
                CExtKey y;
                if (x.Derive(y, static_cast<unsigned>(rng.next()))) x = y;
            }
            xkeys.push_back(x);
        }
        for (int i = 0; i < 6; ++i) preimages.push_back(rng.bytes(32));
    }

    bool Bad(uint32_t permille) { return allow_bad && rng.chance(permille, 1000); }

    std::string PathElem(bool allow_hardened, bool& hardened_used)
    {
        uint32_t v;
        switch (rng.below(7)) {
        case 0: v = 0; break;
        case 1: v = 1; break;
        case 2: v = 0x7fffffffu; break;
        case 3: v = static_cast<uint32_t>(rng.below(100)); break;
        default: v = static_cast<uint32_t>(rng.below(0x80000000ull)); break;
        }
        std::string s = std::to_string(v);
        if (Bad(8)) s = std::to_string(0x80000000ull + rng.below(5)); // out of range
        if (Bad(4)) s = "";
        if (Bad(4)) s = "-1";
        if (Bad(4)) s = "+" + s;
        if (allow_hardened && rng.chance(1, 3)) {
            hardened_used = true;
            features.insert("hardened");
            s += rng.coin() ? "h" : "'";
            if (Bad(6)) s.back() = 'H';
        }
        return s;
    }

    std::string Path(bool allow_hardened, bool allow_multipath, bool& hardened_used)
    {
        std::string r;
        size_t n = rng.weighted({30, 25, 20, 12, 8, 5});
        size_t mp_at = (allow_multipath && n > 0 && rng.chance(1, 6)) ? rng.below(n) : SIZE_MAX;
        for (size_t i = 0; i < n; ++i) {
            r += "/";
            if (i == mp_at) {
                int len = multipath_len ? multipath_len : static_cast<int>(2 + rng.below(2));
                if (Bad(30)) len = len == 2 ? 3 : 2;
                if (!multipath_len) multipath_len = len;
                features.insert("multipath");
                r += "<";
                std::set<std::string> used;
                for (int j = 0; j < len; ++j) {
                    std::string e;
                    do {
                        e = PathElem(allow_hardened, hardened_used);
                    } while (!used.insert(e).second && !Bad(50));
                    r += (j ? ";" : "") + e;
                }
                r += ">";
            } else {
                r += PathElem(allow_hardened, hardened_used);
            }
        }
        if (Bad(5)) r += "/";
        return r;
    }

    std::string Origin()
    {
        bool dummy = false;
        std::string fp = vh::Hex(rng.bytes(4));
        if (Bad(10)) fp = fp.substr(0, 6);
        if (Bad(10)) fp[3] = 'g';
        features.insert("origin");
        return "[" + fp + Path(true, false, dummy) + "]";
    }

    // A KEY expression valid in ctx (mostly).
    std::string Key(Ctx ctx, bool allow_range = true)
    {
        std::string r;
        if (rng.chance(1, 4)) r += Origin();
        const bool uncompressed_ok = ctx == Ctx::TOP || ctx == Ctx::P2SH;
        size_t kind = rng.weighted({25, uncompressed_ok ? 6u : (allow_bad ? 1u : 0u), ctx == Ctx::TR ? 25u : (allow_bad ? 1u : 0u), 12, uncompressed_ok ? 4u : (allow_bad ? 1u : 0u), 22, 14});
        switch (kind) {
        case 0: { // compressed hex
            CPubKey p = rng.pick(keys).GetPubKey();
            std::string h = HexStr(p);
            if (Bad(6)) h[1] = '6' + (h[1] == '3'); // hybrid-looking prefix 06/07 (invalid length for hybrid)
            if (Bad(6)) h = h.substr(2) + "00";
            r += h;
            break;
        }
        case 1: { // uncompressed hex
            CPubKey p = rng.pick(keys).GetPubKey();
            p.Decompress();
            std::string h = HexStr(p);
            if (Bad(20)) h[1] = '6' + (p.begin()[64] & 1); // genuine hybrid key
            features.insert("uncompressed");
            r += h;
            break;
        }
        case 2: { // x-only
            CPubKey p = rng.pick(keys).GetPubKey();
            features.insert("xonly");
            r += HexStr(p).substr(2);
            break;
        }
        case 3: { // WIF compressed
            features.insert("wif");
            r += EncodeSecret(rng.pick(keys));
            break;
        }
        case 4: { // WIF uncompressed
            CKey k = rng.pick(keys);
            CKey u;
            u.Set(UCharCast(k.begin()), UCharCast(k.end()), false);
            features.insert("wif");
            r += EncodeSecret(u);
            break;
        }
        default: { // xpub / xprv
            const CExtKey& x = rng.pick(xkeys);
            const bool priv = kind == 6;
            features.insert(priv ? "xprv" : "xpub");
            r += priv ? EncodeExtKey(x) : EncodeExtPubKey(x.Neuter());
            bool hardened = false;
            r += Path(true, true, hardened);
            if (allow_range && rng.chance(1, 2)) {
                features.insert("range");
                switch (rng.below(4)) {
                case 0: r += "/*h"; features.insert("hardened_range"); break;
                case 1: r += "/*'"; features.insert("hardened_range"); break;
                default: r += "/*"; break;
                }
            }
            break;
        }
        }
        if (Bad(4)) r = " " + r;
        return r;
    }

    std::string MusigKey()
    {
        features.insert("musig");
        size_t n = 1 + rng.below(3) + (rng.chance(1, 3) ? 1 : 0);
        bool all_x = rng.coin();
        bool any_range = false;
        std::string r = "musig(";
        for (size_t i = 0; i < n; ++i) {
            if (i) r += ",";
            std::string k;
            if (all_x) {
                const CExtKey& x = rng.pick(xkeys);
                bool priv = rng.chance(1, 3);
                k = priv ? EncodeExtKey(x) : EncodeExtPubKey(x.Neuter());
                bool hd = false;
                if (rng.chance(1, 3)) k = Origin() + k;
                k += Path(true, true, hd);
                if (rng.chance(1, 4)) { k += "/*"; any_range = true; }
            } else {
                k = Key(Ctx::MUSIG, rng.chance(1, 4));
            }
            r += k;
        }
        r += ")";
        if (all_x && !any_range && rng.chance(2, 3)) {
            bool hd = false;
            r += Path(Bad(100), true, hd);
            if (rng.coin()) r += "/*";
        } else if (Bad(40)) {
            r += "/0/*";
        }
        return r;
    }

    std::string TrKey()
    {
        if (rng.chance(1, 7)) return MusigKey();
        return Key(Ctx::TR);
    }

    std::string Multi(Ctx ctx, const char* name, size_t maxkeys)
    {
        size_t n = 1 + rng.below(maxkeys);
        if (Bad(10)) n = maxkeys + 1 + rng.below(3);
        size_t k = 1 + rng.below(n);
        if (Bad(10)) k = n + 1;
        if (Bad(10)) k = 0;
        std::string r = std::string(name) + "(" + std::to_string(k);
        for (size_t i = 0; i < n; ++i) r += "," + (ctx == Ctx::TR ? Key(Ctx::TR) : Key(ctx));
        features.insert(name);
        return r + ")";
    }

    std::string Miniscript(Ctx ctx)
    {
        const bool tap = ctx == Ctx::TR;
        std::vector<int> ks;
        for (int i = 0; i < 24; ++i) ks.push_back(i);
        msgen::Gen g(rng, tap, ks, static_cast<int>(preimages.size()));
        msgen::Node n = g.Top(static_cast<int>(1 + rng.below(4)), !Bad(150));
        // key i is rendered once per descriptor (so that the same key index always prints the same expression)
        std::map<int, std::string> keymap;
        msgen::Printer p;
        p.sugar = rng.chance(2, 3);
        p.keystr = [&](int i) {
            auto it = keymap.find(i);
            if (it != keymap.end()) return it->second;
            // distinct pool keys for distinct indices: hex / wif / xpub-with-unique-path
            std::string s;
            switch (rng.below(5)) {
            case 0: case 1: s = tap && rng.coin() ? HexStr(keys[i].GetPubKey()).substr(2) : HexStr(keys[i].GetPubKey()); break;
            case 2: s = EncodeSecret(keys[i]); break;
            default: {
                const CExtKey& x = rng.pick(xkeys);
                s = (rng.chance(1, 3) ? EncodeExtKey(x) : EncodeExtPubKey(x.Neuter())) + "/" + std::to_string(1000 + i);
                if (rng.chance(1, 3)) s += rng.coin() ? "h" : "'";
                bool hd = false;
                if (rng.chance(1, 3)) s += Path(true, true, hd);
                if (rng.coin()) s += "/*";
                if (rng.chance(1, 5)) s = Origin() + s;
            }
            }
            keymap[i] = s;
            return s;
        };
        p.hashstr = [&](int i, msgen::F f) {
            const auto& pre = preimages[i];
            // the hash value itself is irrelevant for the round trip; use preimage bytes as the digest
            size_t len = (f == msgen::F::SHA256 || f == msgen::F::HASH256) ? 32 : 20;
            return vh::Hex(pre.data(), len);
        };
        features.insert(tap ? "miniscript_tap" : "miniscript_wsh");
        return p.Str(n);
    }

    // SCRIPT expression for a context
    std::string Script(Ctx ctx, int depth)
    {
        switch (ctx) {
        case Ctx::TOP: {
            switch (rng.weighted({6, 8, 10, 5, 5, 5, 10, 14, 22, 3, 3, 3, 2, 2})) {
            case 0: features.insert("pk"); return "pk(" + Key(Ctx::TOP) + ")";
            case 1: features.insert("pkh"); return "pkh(" + Key(Ctx::TOP) + ")";
            case 2: features.insert("wpkh"); return "wpkh(" + Key(Ctx::WPKH) + ")";
            case 3: features.insert("combo"); return "combo(" + Key(Ctx::TOP) + ")";
            case 4: return Multi(Ctx::TOP, "multi", 3);
            case 5: return Multi(Ctx::TOP, "sortedmulti", 3);
            case 6: features.insert("sh"); return "sh(" + Script(Ctx::P2SH, depth + 1) + ")";
            case 7: features.insert("wsh"); return "wsh(" + Script(Ctx::WSH, depth + 1) + ")";
            case 8: return Tr();
            case 9: features.insert("rawtr"); return "rawtr(" + TrKey() + ")";
            case 10: {
                features.insert("addr");
                CTxDestination d;
                switch (rng.below(5)) {
                case 0: d = PKHash(uint160(rng.bytes(20))); break;
                case 1: d = ScriptHash(uint160(rng.bytes(20))); break;
                case 2: d = WitnessV0KeyHash(uint160(rng.bytes(20))); break;
                case 3: d = WitnessV0ScriptHash(uint256(rng.bytes(32))); break;
                default: d = WitnessV1Taproot(XOnlyPubKey(rng.bytes(32))); break;
                }
                return "addr(" + EncodeDestination(d) + ")";
            }
            case 11: {
                features.insert("raw");
                std::string h = vh::Hex(rng.bytes(rng.below(40)));
                if (Bad(30)) h += "0";
                return "raw(" + h + ")";
            }
            case 12: features.insert("unused"); return "unused(" + Key(Ctx::TOP, Bad(200)) + ")";
            default: // misplaced constructions
                if (!allow_bad) return "pkh(" + Key(Ctx::TOP) + ")";
                switch (rng.below(4)) {
                case 0: return Miniscript(Ctx::WSH);
                case 1: return "multi_a(1," + Key(Ctx::TOP) + ")";
                case 2: return "pk(" + MusigKey() + ")";
                default: return "sh(sh(pk(" + Key(Ctx::P2SH) + ")))";
                }
            }
        }
        case Ctx::P2SH: {
            switch (rng.weighted({10, 10, 20, 15, 15, 25, allow_bad ? 5u : 0u})) {
            case 0: features.insert("pk"); return "pk(" + Key(Ctx::P2SH) + ")";
            case 1: features.insert("pkh"); return "pkh(" + Key(Ctx::P2SH) + ")";
            case 2: features.insert("sh_wpkh"); return "wpkh(" + Key(Ctx::WPKH) + ")";
            case 3: return Multi(Ctx::P2SH, "multi", rng.chance(1, 8) ? 16 : 5);
            case 4: return Multi(Ctx::P2SH, "sortedmulti", 5);
            case 5: features.insert("sh_wsh"); return "wsh(" + Script(Ctx::WSH, depth + 1) + ")";
            default: return rng.coin() ? "combo(" + Key(Ctx::P2SH) + ")" : Tr();
            }
        }
        case Ctx::WSH: {
            switch (rng.weighted({8, 8, 14, 14, 50, allow_bad ? 6u : 0u})) {
            case 0: features.insert("pk"); return "pk(" + Key(Ctx::WSH) + ")";
            case 1: features.insert("pkh"); return "pkh(" + Key(Ctx::WSH) + ")";
            case 2: return Multi(Ctx::WSH, "multi", rng.chance(1, 8) ? 20 : 5);
            case 3: return Multi(Ctx::WSH, "sortedmulti", 5);
            case 4: return Miniscript(Ctx::WSH);
            default: return rng.coin() ? "wpkh(" + Key(Ctx::WPKH) + ")" : "wsh(pk(" + Key(Ctx::WSH) + "))";
            }
        }
        case Ctx::TR: {
            switch (rng.weighted({25, 15, 12, 45, allow_bad ? 3u : 0u})) {
            case 0: features.insert("tr_pk"); return "pk(" + TrKey() + ")";
            case 1: return Multi(Ctx::TR, "multi_a", rng.chance(1, 10) ? 30 : 5);
            case 2: return Multi(Ctx::TR, "sortedmulti_a", 5);
            case 3: return Miniscript(Ctx::TR);
            default: return "pkh(" + Key(Ctx::TR) + ")"; // miniscript pkh in tapscript: valid miniscript actually
            }
        }
        default: return "";
        }
    }

    std::string Tree(int depth)
    {
        if (depth >= 4 || rng.chance(3, 5)) return Script(Ctx::TR, 1);
        std::string l = Tree(depth + 1), r = Tree(depth + 1);
        std::string s = "{" + l + "," + r + "}";
        if (Bad(15)) s = "{" + l + "}";
        return s;
    }

    std::string Tr()
    {
        features.insert("tr");
        std::string r = "tr(" + TrKey();
        if (rng.chance(2, 3)) {
            features.insert("tr_tree");
            r += "," + Tree(0);
        }
        return r + ")";
    }
};

// Drops the 02/03 prefix of every stand-alone 66-digit hex run (a compressed key), and the checksum: two descriptor strings
// that differ only in "compressed vs x-only spelling of the same key" become equal.
std::string XOnlyForm(const std::string& in)
{
    std::string s = in.substr(0, in.rfind('#'));
    std::string r;
    size_t i = 0;
    auto hex = [](char c) { return (c >= '0' && c <= '9') || (c >= 'a' && c <= 'f'); };
    while (i < s.size()) {
        if (hex(s[i]) && (i == 0 || !hex(s[i - 1]))) {
            size_t j = i;
            while (j < s.size() && hex(s[j])) ++j;
            if (j - i == 66 && s[i] == '0' && (s[i + 1] == '2' || s[i + 1] == '3')) {
                r += s.substr(i + 2, 64);
            } else {
                r += s.substr(i, j - i);
            }
            i = j;
        } else {
            r += s[i++];
        }
    }
    return r;
}

struct Expansion {
    bool ok{false};
    std::vector<CScript> scripts;
    bool operator==(const Expansion& o) const { return ok == o.ok && scripts == o.scripts; }
    std::string Str() const
    {
        std::string r = ok ? "ok:" : "fail:";
        for (const auto& s : scripts) r += HexStr(s) + ",";
        return r;
    }
};

Expansion DoExpand(const Descriptor& d, int pos, const SigningProvider& prov)
{
    Expansion e;
    FlatSigningProvider out;
    e.ok = d.Expand(pos, prov, e.scripts, out);
    if (!e.ok) e.scripts.clear();
    return e;
}

const std::string SUBST_CHARS = [] {
    std::string s;
    for (int c = 32; c < 127; ++c) s += static_cast<char>(c);
    s += '\n';
    s += '\x7f';
    s += '\x80';
    s += '\t';
    return s;
}();

// all single-character substitutions of a checksummed descriptor must be rejected
void ChecksumSubstitutions(const std::string& s, vh::Rng& rng, bool full, int64_t sample, uint64_t& nsub)
{
    const size_t hash_pos = s.rfind('#');
    std::vector<size_t> positions;
    if (full) {
        for (size_t i = 0; i < s.size(); ++i) positions.push_back(i);
    } else {
        for (int64_t i = 0; i < sample; ++i) positions.push_back(rng.below(s.size()));
        if (rng.chance(1, 4)) positions.push_back(hash_pos);
        positions.push_back(hash_pos + 1 + rng.below(8));
    }
    std::string m = s;
    for (size_t i : positions) {
        const char orig = s[i];
        for (char c : SUBST_CHARS) {
            if (c == orig) continue;
            m[i] = c;
            ++nsub;
            bool bad = false;
            if (i != hash_pos) {
                // the string still has its '#': the checksum routine must reject it
                if (!GetDescriptorChecksum(m).empty()) bad = true;
            }
            FlatSigningProvider tmp;
            std::string err;
            if (!Parse(m, tmp, err, /*require_checksum=*/true).empty()) bad = true;
            if (bad) {
                vh::log().violation("descriptor-checksum-misses-substitution", "a single-character substitution passes the descriptor checksum",
                                    vh::J().str("original", s).str("mutated", m).u("pos", i));
                m[i] = orig;
                return;
            }
        }
        m[i] = orig;
    }
}

} // namespace

// p: bad (permille-ish switch 0/1: also generate malformed descriptors), subst_every (run the exhaustive substitution
// test on every n-th accepted descriptor; others get the sampled variant)
VH_CMD(c45_desc)
{
    ECC_Context ecc;
    const bool bad = args.geti("bad", 1) != 0;
    const uint64_t subst_every = static_cast<uint64_t>(args.geti("subst_every", 32));
    const int64_t subst_sample = args.geti("subst_sample", 3);
    const size_t subst_maxlen = static_cast<size_t>(args.geti("subst_maxlen", 320));
    uint64_t accepted_total = 0;
    for (uint64_t c = args.from; c < args.to; ++c) {
        vh::set_case(c);
        vh::Rng rng(args.seed, c);
        const int chain = static_cast<int>(c % 5);
        SelectParams(CHAINS[chain]);
        DescGen g(rng, bad && rng.chance(1, 3));
        std::string s = g.Script(Ctx::TOP, 0);
        // light string-level damage
        bool damaged = false;
        if (g.allow_bad && !s.empty() && rng.chance(1, 6)) {
            damaged = true;
            size_t i = rng.below(s.size());
            switch (rng.below(4)) {
            case 0: s.erase(i, 1); break;
            case 1: s.insert(i, 1, s[i]); break;
            case 2: s[i] = "0123456789()[],'/*abcdefgh<>;{}"[rng.below(31)]; break;
            default: if (i + 1 < s.size()) std::swap(s[i], s[i + 1]); break;
            }
        }
        // with / without checksum
        std::string input = s;
        const int cs_mode = static_cast<int>(rng.below(3));
        if (cs_mode == 1) {
            std::string cs = GetDescriptorChecksum(s);
            if (!cs.empty()) input = s + "#" + cs;
        }
        FlatSigningProvider keys;
        std::string err;
        std::vector<std::unique_ptr<Descriptor>> parsed;
        parsed = Parse(input, keys, err, /*require_checksum=*/cs_mode == 1);
        std::string feats;
        for (const auto& f : g.features) feats += (feats.empty() ? "" : ",") + f;
        vh::J rec;
        rec.u("case", c).str("chain", CHAIN_NAMES[chain]).str("in", input).b("damaged", damaged).str("feat", feats).u("n", parsed.size());
        if (parsed.empty()) {
            rec.str("err", err);
            vh::log().obs("rejected");
            vh::log().rec(rec);
            continue;
        }
        vh::log().obs("accepted");
        if (parsed.size() > 1) vh::log().obs("multipath_accepted");
        std::vector<std::string> outs;
        uint64_t nsub = 0;
        for (size_t di = 0; di < parsed.size(); ++di) {
            const Descriptor& d = *parsed[di];
            const std::string s1 = d.ToString();
            vh::J dj;
            dj.str("pub", s1).b("range", d.IsRange()).b("solvable", d.IsSolvable());
            auto fail = [&](const char* key, const char* msg, const std::string& a, const std::string& b) {
                vh::log().violation(key, msg, vh::J().str("input", input).str("chain", CHAIN_NAMES[chain]).str("pub", s1).str("a", a).str("b", b).u("multipath_index", di));
            };
            // checksum appended by ToString must be what GetDescriptorChecksum says for the payload
            const size_t hp = s1.rfind('#');
            if (hp == std::string::npos || s1.size() - hp - 1 != 8 || GetDescriptorChecksum(s1.substr(0, hp)) != s1.substr(hp + 1) || GetDescriptorChecksum(s1) != s1.substr(hp + 1)) {
                fail("descriptor-checksum-inconsistent", "ToString checksum differs from GetDescriptorChecksum", s1, GetDescriptorChecksum(s1.substr(0, hp == std::string::npos ? s1.size() : hp)));
            }
            // public string round trip
            FlatSigningProvider keys1;
            std::string err1;
            auto p1 = Parse(s1, keys1, err1, /*require_checksum=*/true);
            if (p1.size() != 1) {
                const bool is_multipath = input.find('<') != std::string::npos && parsed.size() > 1;
                const bool underivable = !DoExpand(d, 0, FlatSigningProvider{}).ok; // keys of this variant need private keys
                if (is_multipath && di >= 1 && underivable && err1.find("duplicate public keys") != std::string::npos) {
                    // multipath: only the first variant's keys are compared for duplicates when the multipath string is parsed; a
                    // later variant whose keys cannot be derived without private keys (hardened steps below an xpub) compares them
                    // all "equal" when parsed on its own
                    fail("descriptor-multipath-variant-not-reparsable-duplicate-keys", "the public string of a multipath variant (index >= 1) is rejected for duplicate keys when parsed on its own", err1, std::to_string(p1.size()));
                } else {
                    fail("descriptor-pubstring-reparse", "canonical public string does not parse back to exactly one descriptor", err1, std::to_string(p1.size()));
                }
                continue;
            }
            const Descriptor& d1 = *p1[0];
            if (d1.ToString() != s1) fail("descriptor-pubstring-unstable", "re-parsed public string prints differently", s1, d1.ToString());
            if (!keys1.keys.empty()) fail("descriptor-pubstring-leaks-keys", "public string carried private keys", s1, "");
            // private string round trip
            std::string sp;
            const bool have_priv = d.ToPrivateString(keys, sp);
            std::unique_ptr<Descriptor> d2;
            FlatSigningProvider keys2;
            if (have_priv) {
                vh::log().obs("private_strings");
                dj.str("priv", sp);
                std::string err2;
                auto p2 = Parse(sp, keys2, err2, /*require_checksum=*/true);
                if (p2.size() != 1) {
                    fail("descriptor-privstring-reparse", "private string does not parse back to exactly one descriptor", err2, sp);
                } else {
                    d2 = std::move(p2[0]);
                    if (d2->ToString() != s1) {
                        const bool taproot_desc = s1.rfind("tr(", 0) == 0 || s1.rfind("rawtr(", 0) == 0;
                        if (taproot_desc && d2->ToString().size() < s1.size() && XOnlyForm(d2->ToString()) == XOnlyForm(s1)) {
                            // tr(): a key written as 33-byte hex whose private key is known is printed as WIF, which re-parses as an x-only key
                            fail("descriptor-privstring-public-differs-xonly-spelling", "descriptor parsed from the private string prints a compressed hex key of a tr() descriptor in x-only form", s1, d2->ToString());
                        } else {
                            fail("descriptor-privstring-public-differs", "descriptor parsed from the private string has another public string", s1, d2->ToString());
                        }
                    }
                    std::string sp2;
                    if (!d2->ToPrivateString(keys2, sp2) || sp2 != sp) fail("descriptor-privstring-unstable", "re-parsed private string prints differently", sp, sp2);
                    std::string sp1;
                    if (!d1.ToPrivateString(keys, sp1) || sp1 != sp) fail("descriptor-privstring-differs-after-reparse", "descriptor re-parsed from the public string prints another private string with the same keys", sp, sp1);
                }
            } else if (!keys.keys.empty() && d.HavePrivateKeys(keys)) {
                fail("descriptor-privstring-missing", "HavePrivateKeys is true but ToPrivateString failed", s1, "");
            }
            // expansion at several positions
            const FlatSigningProvider nokeys;
            std::vector<int> positions{0};
            if (d.IsRange()) positions = {0, 1, 2, 0x7fffffff};
            if (d1.IsRange() != d.IsRange()) fail("descriptor-range-differs", "IsRange differs after re-parse", "", "");
            std::vector<std::string> exps;
            for (int pos : positions) {
                Expansion e = DoExpand(d, pos, keys);
                Expansion e1 = DoExpand(d1, pos, keys);
                if (!(e == e1)) fail("descriptor-expand-differs-pub", "scripts differ after public-string round trip (with keys)", e.Str(), e1.Str());
                Expansion en = DoExpand(d, pos, nokeys);
                Expansion en1 = DoExpand(d1, pos, nokeys);
                if (!(en == en1)) fail("descriptor-expand-differs-pub", "scripts differ after public-string round trip (without keys)", en.Str(), en1.Str());
                if (en.ok && !(en == e)) fail("descriptor-expand-depends-on-keys", "scripts derived with and without private keys differ", en.Str(), e.Str());
                if (d2) {
                    Expansion e2 = DoExpand(*d2, pos, keys2);
                    if (!(e == e2)) fail("descriptor-expand-differs-priv", "scripts differ after private-string round trip", e.Str(), e2.Str());
                    if (e2.ok) vh::log().obs("expansions_private");
                }
                if (e.ok) vh::log().obs("expansions");
                if (e.ok && !en.ok) vh::log().obs("expansions_needing_private_keys");
                exps.push_back("[" + std::to_string(pos) + "," + vh::JStr(e.Str()) + "]");
            }
            dj.raw("exp", vh::JArr(exps));
            // substitutions
            ++accepted_total;
            const bool full = subst_every && (c % subst_every == 0) && s1.size() <= subst_maxlen;
            ChecksumSubstitutions(s1, rng, full, subst_sample, nsub);
            if (full) vh::log().obs("substitution_exhaustive_descriptors");
            outs.push_back(dj.done());
        }
        vh::log().obs("substitutions", static_cast<int64_t>(nsub));
        rec.raw("d", vh::JArr(outs)).u("nsub", nsub);
        vh::log().rec(rec);
    }
    return 0;
}

// ---------------------------------------------------------------------------------------------------------------------
// BIP32

VH_CMD(c45_bip32)
{
    ECC_Context ecc;
    // BIP32 test vector seeds/paths (inputs only; expected values live in pyref/bip32_vectors.py)
    struct Vec { const char* seed; std::vector<uint32_t> path; };
    const uint32_t H = 0x80000000u;
    const std::vector<Vec> vectors = {
        {"000102030405060708090a0b0c0d0e0f", {H, 1, 2 | H, 2, 1000000000}},
        {"fffcf9f6f3f0edeae7e4e1dedbd8d5d2cfccc9c6c3c0bdbab7b4b1aeaba8a5a29f9c999693908d8a8784817e7b7875726f6c696663605d5a5754514e4b484542", {0, 2147483647 | H, 1, 2147483646 | H, 2}},
        {"4b381541583be4423346c643850da4b320e46a87ae3d2a4e6da11eba819cd4acba45d239319ac14f863b8d5ab5a0d0c64d2e8a1e7d1457df2e5a3c51c73235be", {H}},
        {"3ddd5602285899a946114506157c7997e5444528f3003f6134712147db19b678", {H, 1 | H}},
    };
    for (uint64_t c = args.from; c < args.to; ++c) {
        vh::set_case(c);
        vh::Rng rng(args.seed, c);
        const int chain = static_cast<int>(c % 5);
        SelectParams(c < vectors.size() ? ChainType::MAIN : CHAINS[chain]);
        std::vector<unsigned char> seed;
        std::vector<uint32_t> path;
        if (c < vectors.size()) {
            seed = vh::UnHex(vectors[c].seed);
            path = vectors[c].path;
        } else {
            seed = rng.bytes(static_cast<size_t>(rng.range(16, 64)));
            size_t n = rng.below(9);
            for (size_t i = 0; i < n; ++i) {
                uint32_t v;
                switch (rng.below(6)) {
                case 0: v = 0; break;
                case 1: v = 0x7fffffffu; break;
                case 2: v = static_cast<uint32_t>(rng.below(20)); break;
                default: v = static_cast<uint32_t>(rng.below(0x80000000ull)); break;
                }
                if (rng.coin()) v |= H;
                path.push_back(v);
            }
        }
        CExtKey xprv;
        xprv.SetSeed(MakeByteSpan(seed));
        CExtPubKey xpub = xprv.Neuter();
        std::vector<std::string> steps;
        auto emit = [&](const CExtKey& k, const CExtPubKey& p) {
            unsigned char a[BIP32_EXTKEY_SIZE], b[BIP32_EXTKEY_SIZE];
            k.Encode(a);
            p.Encode(b);
            steps.push_back(vh::J().hex("prv", a, sizeof a).hex("pub", b, sizeof b).str("xprv", EncodeExtKey(k)).str("xpub", EncodeExtPubKey(p)).done());
            // encode/decode round trips
            CExtKey k2;
            k2.Decode(a);
            CExtPubKey p2;
            p2.Decode(b);
            if (!(k2 == k) || !(p2 == p) || !(DecodeExtKey(EncodeExtKey(k)) == k) || !(DecodeExtPubKey(EncodeExtPubKey(p)) == p)) {
                vh::log().violation("bip32-encode-roundtrip", "extended key does not survive Encode/Decode", vh::J().hex("prv", a, sizeof a));
            }
            if (!(k.Neuter() == p)) vh::log().violation("bip32-neuter-mismatch", "Neuter of the private node differs from the public node", vh::J().hex("prv", a, sizeof a));
        };
        emit(xprv, xpub);
        bool pub_alive = true; // public derivation chain still possible (no hardened step so far)
        bool ok = true;
        for (uint32_t idx : path) {
            CExtKey child;
            if (!xprv.Derive(child, idx)) {
                vh::log().obs("derive_failed");
                ok = false;
                break;
            }
            CExtPubKey child_pub_from_priv = child.Neuter();
            // public derivation from the *parent's* neutered key
            CExtPubKey parent_pub = xprv.Neuter();
            CExtPubKey child_pub;
            if (idx & H) {
                // (CPubKey::Derive asserts on hardened indices: public derivation of a hardened child is not callable)
                vh::log().obs("hardened_steps");
            } else {
                const bool pd = parent_pub.Derive(child_pub, idx);
                vh::log().obs("unhardened_steps");
                if (!pd || !(child_pub == child_pub_from_priv)) {
                    vh::log().violation("bip32-public-private-mismatch", "public derivation differs from the public key of private derivation", vh::J().u("index", idx).hex("seed", seed));
                }
            }
            // pure public chain from the master xpub while no hardened step occurred
            if (pub_alive) {
                if (idx & H) {
                    pub_alive = false;
                } else {
                    CExtPubKey nx;
                    if (!xpub.Derive(nx, idx) || !(nx == child_pub_from_priv)) {
                        vh::log().violation("bip32-public-chain-mismatch", "chain of public derivations diverges from private derivation", vh::J().u("index", idx).hex("seed", seed));
                    }
                    xpub = nx;
                }
            }
            xprv = child;
            emit(xprv, child_pub_from_priv);
        }
        std::vector<std::string> p;
        for (uint32_t v : path) p.push_back(std::to_string(v));
        vh::log().obs("paths");
        if (c < vectors.size()) vh::log().obs("bip32_vector_cases");
        vh::log().rec(vh::J().u("case", c).str("chain", CHAIN_NAMES[c < vectors.size() ? 0 : chain]).hex("seed", seed).raw("path", vh::JArr(p)).b("ok", ok).raw("steps", vh::JArr(steps)));
    }
    return 0;
}

// ---------------------------------------------------------------------------------------------------------------------
// addresses

namespace {
std::vector<unsigned char> PatternBytes(vh::Rng& rng, size_t n)
{
    std::vector<unsigned char> v(n, 0);
    switch (rng.below(6)) {
    case 0: break;
    case 1: std::fill(v.begin(), v.end(), 0xff); break;
    case 2: v.back() = 1; break;
    case 3: v.front() = 0x80; break;
    default: v = rng.bytes(n);
    }
    return v;
}
} // namespace

VH_CMD(c45_addr)
{
    ECC_Context ecc;
    for (uint64_t c = args.from; c < args.to; ++c) {
        vh::set_case(c);
        vh::Rng rng(args.seed, c);
        const int A = static_cast<int>(c % 5);
        const int t = static_cast<int>((c / 5) % 9);
        CTxDestination d;
        std::string tname;
        int wver = -1;
        std::vector<unsigned char> payload;
        switch (t) {
        case 0: payload = PatternBytes(rng, 20); d = PKHash(uint160(payload)); tname = "pkh"; break;
        case 1: payload = PatternBytes(rng, 20); d = ScriptHash(uint160(payload)); tname = "sh"; break;
        case 2: payload = PatternBytes(rng, 20); d = WitnessV0KeyHash(uint160(payload)); tname = "wpkh"; wver = 0; break;
        case 3: payload = PatternBytes(rng, 32); d = WitnessV0ScriptHash(uint256(payload)); tname = "wsh"; wver = 0; break;
        case 4: payload = PatternBytes(rng, 32); d = WitnessV1Taproot(XOnlyPubKey(payload)); tname = "tr"; wver = 1; break;
        case 5: payload = ANCHOR_BYTES; d = PayToAnchor(); tname = "anchor"; wver = 1; break;
        case 6: case 7: {
            // canonical unknown witness programs: version 1..16, 2..40 bytes, not taproot / anchor
            do {
                wver = static_cast<int>(rng.range(1, 16));
                size_t len = static_cast<size_t>(rng.below(4) == 0 ? (rng.coin() ? 2 : 40) : rng.range(2, 40));
                if (rng.chance(1, 5)) { wver = 1; len = rng.coin() ? 31 : 33; }
                payload = PatternBytes(rng, len);
            } while ((wver == 1 && payload.size() == 32) || (wver == 1 && payload == ANCHOR_BYTES));
            d = WitnessUnknown(wver, payload);
            tname = "wunknown";
            break;
        }
        default: {
            if (rng.coin()) {
                d = CNoDestination(CScript(payload.begin(), payload.end()));
                tname = "none";
            } else {
                d = PubKeyDestination(MakeKey(rng, true).GetPubKey());
                tname = "pubkey";
            }
        }
        }
        SelectParams(CHAINS[A]);
        const std::string s = EncodeDestination(d);
        std::vector<std::string> res;
        for (int B = 0; B < 5; ++B) {
            SelectParams(CHAINS[B]);
            std::string err;
            CTxDestination dd = DecodeDestination(s, err);
            const bool valid = IsValidDestination(dd);
            const bool equal = dd == d;
            const bool isvalidstr = IsValidDestinationString(s);
            if (isvalidstr != valid) vh::log().violation("address-validity-inconsistent", "IsValidDestinationString disagrees with DecodeDestination", vh::J().str("addr", s).str("net", CHAIN_NAMES[B]));
            std::string re = valid ? EncodeDestination(dd) : "";
            res.push_back(vh::J().str("net", CHAIN_NAMES[B]).b("valid", valid).b("equal", equal).i("idx", static_cast<int64_t>(dd.index())).str("re", re).done());
            // upper-case form of bech32 must decode identically
            if (wver >= 0 && B == A) {
                std::string up = ToUpper(s);
                CTxDestination du = DecodeDestination(up);
                if (!(du == dd)) vh::log().violation("address-uppercase-differs", "upper-case bech32 address decodes differently", vh::J().str("addr", up));
            }
        }
        vh::log().obs("dest_" + tname);
        vh::log().rec(vh::J().u("case", c).str("net", CHAIN_NAMES[A]).str("type", tname).i("wver", wver).hex("payload", payload).str("addr", s).raw("dec", vh::JArr(res)));
    }
    return 0;
}

// ---------------------------------------------------------------------------------------------------------------------
// bech32 substitutions

namespace {
const std::string B32 = "qpzry9x8gf2tvdw0s3jn54khce6mua7l";

struct Bech {
    std::string s;
    size_t sep;
    bech32::Encoding enc;
};

// candidate replacement characters for position i (each is exactly one symbol error of the checksum code)
std::string Alternatives(const Bech& b, size_t i)
{
    std::string r;
    const char o = b.s[i];
    if (i > b.sep) {
        for (char c : B32)
            if (c != o) r += c;
    } else if (i < b.sep) {
        for (int c = 33; c < 127; ++c) {
            if (c >= 'A' && c <= 'Z') continue;
            if ((c >> 5) != (o >> 5)) continue; // same high bits: one symbol of the expanded HRP changes
            if (c != o) r += static_cast<char>(c);
        }
    }
    return r;
}

bool Passes(const std::string& m, bech32::Encoding enc, int64_t& other)
{
    auto d = bech32::Decode(m);
    if (d.encoding == enc) return true;
    if (d.encoding != bech32::Encoding::INVALID) ++other;
    return false;
}
} // namespace

// p: nrand (random 2-,3-,4-substitution trials per case, each), pairs_every (every n-th case: all 2-substitutions), pairs_maxlen
VH_CMD(c45_bech32)
{
    const int64_t nrand = args.geti("nrand", 1000);
    const uint64_t pairs_every = static_cast<uint64_t>(args.geti("pairs_every", 50));
    const size_t pairs_maxlen = static_cast<size_t>(args.geti("pairs_maxlen", 40));
    for (uint64_t c = args.from; c < args.to; ++c) {
        vh::set_case(c);
        vh::Rng rng(args.seed, c);
        const bool do_pairs = pairs_every && c % pairs_every == 0;
        Bech b;
        b.enc = rng.coin() ? bech32::Encoding::BECH32 : bech32::Encoding::BECH32M;
        std::string hrp;
        switch (rng.below(5)) {
        case 0: hrp = "bc"; break;
        case 1: hrp = "tb"; break;
        case 2: hrp = "bcrt"; break;
        default: {
            size_t n = static_cast<size_t>(rng.chance(1, 8) ? rng.range(1, 83) : rng.range(1, 12));
            for (size_t i = 0; i < n; ++i) {
                char ch;
                do {
                    ch = static_cast<char>(rng.range(33, 126));
                } while (ch >= 'A' && ch <= 'Z');
                hrp += ch;
            }
        }
        }
        size_t maxlen = do_pairs ? pairs_maxlen : 90;
        if (hrp.size() + 7 > maxlen) hrp.resize(maxlen - 7);
        const size_t maxdata = maxlen - hrp.size() - 7;
        size_t nd;
        switch (rng.below(5)) {
        case 0: nd = maxdata; break;            // exactly at the length limit
        case 1: nd = std::min<size_t>(maxdata, 33); break; // p2wpkh-sized
        case 2: nd = std::min<size_t>(maxdata, 53); break; // p2wsh/p2tr-sized
        default: nd = rng.below(maxdata + 1);
        }
        std::vector<uint8_t> data(nd);
        for (auto& v : data) v = static_cast<uint8_t>(rng.below(32));
        b.s = bech32::Encode(b.enc, hrp, data);
        b.sep = hrp.size();
        int64_t other = 0;
        {
            auto d = bech32::Decode(b.s);
            if (d.encoding != b.enc || d.hrp != hrp || d.data != data) {
                vh::log().violation("bech32-roundtrip", "Decode(Encode(x)) != x", vh::J().str("s", b.s));
                continue;
            }
        }
        uint64_t n1 = 0, n2 = 0, n3 = 0, n4 = 0, npairs = 0;
        bool failed = false;
        auto report = [&](const std::string& m, int k) {
            vh::log().violation("bech32-substitution-undetected", "string with 1-4 substituted characters passes its checksum",
                                vh::J().str("original", b.s).str("mutated", m).i("substitutions", k));
            failed = true;
        };
        std::vector<size_t> positions;
        std::vector<std::string> alts(b.s.size());
        for (size_t i = 0; i < b.s.size(); ++i) {
            alts[i] = Alternatives(b, i);
            if (!alts[i].empty()) positions.push_back(i);
        }
        // all single substitutions
        std::string m = b.s;
        for (size_t i : positions) {
            for (char ch : alts[i]) {
                m[i] = ch;
                ++n1;
                if (Passes(m, b.enc, other) && !failed) report(m, 1);
            }
            m[i] = b.s[i];
        }
        // all double substitutions (selected cases)
        if (do_pairs) {
            for (size_t a = 0; a < positions.size() && !failed; ++a) {
                const size_t i = positions[a];
                for (char ci : alts[i]) {
                    m[i] = ci;
                    for (size_t bb = a + 1; bb < positions.size(); ++bb) {
                        const size_t j = positions[bb];
                        for (char cj : alts[j]) {
                            m[j] = cj;
                            ++npairs;
                            if (Passes(m, b.enc, other) && !failed) report(m, 2);
                        }
                        m[j] = b.s[j];
                    }
                }
                m[i] = b.s[i];
            }
            vh::log().obs("strings_all_pairs");
        }
        // random 2-, 3-, 4-substitutions
        for (int k = 2; k <= 4 && positions.size() >= 4; ++k) {
            for (int64_t r = 0; r < nrand; ++r) {
                size_t idx[4];
                for (int q = 0; q < k; ++q) {
                    bool dup;
                    do {
                        idx[q] = positions[rng.below(positions.size())];
                        dup = false;
                        for (int p2 = 0; p2 < q; ++p2) dup |= idx[p2] == idx[q];
                    } while (dup);
                    m[idx[q]] = alts[idx[q]][rng.below(alts[idx[q]].size())];
                }
                (k == 2 ? n2 : k == 3 ? n3 : n4)++;
                if (Passes(m, b.enc, other) && !failed) report(m, k);
                for (int q = 0; q < k; ++q) m[idx[q]] = b.s[idx[q]];
            }
        }
        vh::log().obs("sub1", n1);
        vh::log().obs("sub2", n2 + npairs);
        vh::log().obs("sub3", n3);
        vh::log().obs("sub4", n4);
        vh::log().obs("decodes_with_other_encoding", other);
        if (b.s.size() == 90) vh::log().obs("strings_len90");
        std::vector<std::string> dj;
        for (auto v : data) dj.push_back(std::to_string(v));
        vh::log().rec(vh::J().u("case", c).str("enc", b.enc == bech32::Encoding::BECH32 ? "bech32" : "bech32m").str("hrp", hrp).raw("data", vh::JArr(dj)).str("s", b.s)
                          .u("n1", n1).u("n2", n2).u("npairs", npairs).u("n3", n3).u("n4", n4).u("len", b.s.size()));
    }
    return 0;
}
