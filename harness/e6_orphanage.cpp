// C35: node::TxOrphanage (MakeTxOrphanage(max_global_latency_score, reserved_peer_usage) with small limits) in lock-step
// with an announcement-set model written from the comments in node/txorphanage.h.
//
// Model: a set of announcements (tx, peer, sequence, reconsider?). Every mutating operation is first applied to the model
// exactly (giving the state "immediately before limiting"); the real container's full content (GetOrphanTransactions) is
// then read back and the difference (= what limiting evicted) is judged against the statement:
//   * nothing appears that was not announced; nothing is evicted when the pre-limit state is within the global limits;
//   * afterwards TotalLatencyScore <= MaxGlobalLatencyScore and TotalOrphanUsage <= MaxGlobalUsage;
//   * a peer whose latency score <= MaxPeerLatencyScore and usage <= ReservedPeerUsage immediately before limiting
//     (per-peer limits computed from the pre-limit number of peers) loses no announcement;
//   * an orphan is present iff at least one announcement for it is.
// Which announcements of over-limit peers are evicted is deliberately not predicted. The model then adopts the evictions
// and all getters are compared.
#include <common/vh.h>

#include <consensus/validation.h>
#include <node/txorphanage.h>
#include <policy/policy.h>
#include <primitives/block.h>
#include <primitives/transaction.h>
#include <random.h>
#include <script/script.h>
#include <uint256.h>

#include <algorithm>
#include <map>
#include <memory>
#include <set>
#include <string>
#include <vector>

namespace {

using node::TxOrphanage;
constexpr int NPEERS = 6;

NodeId Peer(int p) { return 7 + 5 * p; }

uint64_t Fnv(const std::string& s)
{
    uint64_t h = 1469598103934665603ULL;
    for (unsigned char c : s) {
        h ^= c;
        h *= 1099511628211ULL;
    }
    return h;
}

struct PoolTx {
    CTransactionRef tx;
    int64_t weight;
    unsigned latency; // 1 + nin/10
    bool oversize;
};

struct MAnn {
    int tx, peer;
    uint64_t seq;
    bool reconsider{false};
};

struct Totals {
    std::map<int, int64_t> usage;
    std::map<int, unsigned> latency, count;
    int64_t total_usage{0};
    unsigned total_latency{0}, unique{0};
    size_t npeers{0};
};

struct Model {
    std::vector<MAnn> anns;
    uint64_t next_seq{0};
    unsigned max_global_latency;
    int64_t reserved;

    bool Has(int tx) const
    {
        for (const auto& a : anns)
            if (a.tx == tx) return true;
        return false;
    }
    MAnn* Find(int tx, int peer)
    {
        for (auto& a : anns)
            if (a.tx == tx && a.peer == peer) return &a;
        return nullptr;
    }
    Totals Sum(const std::vector<PoolTx>& pool) const
    {
        Totals t;
        std::set<int> uniq;
        for (const auto& a : anns) {
            t.usage[a.peer] += pool[a.tx].weight;
            t.latency[a.peer] += pool[a.tx].latency;
            t.count[a.peer] += 1;
            if (uniq.insert(a.tx).second) {
                t.total_usage += pool[a.tx].weight;
                t.total_latency += pool[a.tx].latency - 1;
            }
        }
        t.total_latency += anns.size();
        t.unique = uniq.size();
        t.npeers = t.count.size();
        return t;
    }
};

enum Kind { ADDTX, ADDANN, ERASETX, ERASEPEER, ERASEBLOCK, WORKSET, RECONSIDER, CHILDREN, NK };
const char* const KN[NK] = {"addtx", "addannouncer", "erasetx", "eraseforpeer", "eraseforblock", "addchildrentoworkset", "gettxtoreconsider", "getchildrenfromsamepeer"};

class Sim
{
public:
    std::unique_ptr<TxOrphanage> orph;
    Model m;
    std::vector<PoolTx> pool;
    std::vector<CTransactionRef> parents; // universe parents (never orphans themselves)
    std::map<Wtxid, int> by_wtxid;
    FastRandomContext frc;
    bool bad{false};
    std::vector<std::string> history;
    uint64_t nops{0}, evictions{0}, protected_evictions_checked{0};
    bool nontrivial{false};

    Sim(unsigned max_lat, int64_t reserved, uint64_t seed) : frc(uint256{static_cast<uint8_t>(seed & 0xff)})
    {
        orph = node::MakeTxOrphanage(max_lat, reserved);
        m.max_global_latency = max_lat;
        m.reserved = reserved;
    }

    void Violation(const std::string& key, const std::string& msg, const vh::J& extra = vh::J())
    {
        bad = true;
        static int logged = 0;
        if (logged++ >= 25) {
            vh::log().obs("violations_suppressed");
            return;
        }
        std::vector<std::string> h;
        const size_t from = history.size() > 120 ? history.size() - 120 : 0;
        for (size_t i = from; i < history.size(); ++i) h.push_back(vh::JStr(history[i]));
        std::vector<std::string> pd;
        for (size_t i = 0; i < pool.size(); ++i) pd.push_back("[" + std::to_string(pool[i].weight) + "," + std::to_string(pool[i].tx->vin.size()) + "]");
        vh::log().violation(key, msg, vh::J().raw("ops_tail", vh::JArr(h)).u("ops_total", history.size()).u("max_latency", m.max_global_latency).i("reserved_usage", m.reserved).raw("pool_weight_inputs", vh::JArr(pd)).raw("extra", extra.done()));
    }

    // Compare the real content with the model's pre-limit state, judge the evictions, adopt them, compare all getters.
    void Reconcile(const char* what)
    {
        const Totals pre = m.Sum(pool);
        const unsigned max_lat_pre = m.max_global_latency / std::max<size_t>(pre.npeers, 1);
        const int64_t max_usage_pre = m.reserved * static_cast<int64_t>(std::max<size_t>(pre.npeers, 1));
        const bool pre_over = pre.total_latency > m.max_global_latency || pre.total_usage > max_usage_pre;

        std::set<std::pair<int, int>> real;
        for (const auto& info : orph->GetOrphanTransactions()) {
            auto it = by_wtxid.find(info.tx->GetWitnessHash());
            if (it == by_wtxid.end()) {
                Violation("phantom-orphan", std::string("orphanage holds a transaction that was never added (after ") + what + ")");
                return;
            }
            if (info.announcers.empty()) {
                Violation("orphan-without-announcer", "orphan listed with an empty announcer set");
                return;
            }
            for (NodeId n : info.announcers) {
                int p = -1;
                for (int q = 0; q < NPEERS; ++q)
                    if (Peer(q) == n) p = q;
                real.emplace(it->second, p);
            }
        }
        std::set<std::pair<int, int>> want;
        for (const auto& a : m.anns) want.emplace(a.tx, a.peer);
        for (const auto& r : real) {
            if (!want.count(r)) {
                Violation("phantom-announcement", std::string("orphanage holds an announcement the model does not (after ") + what + ")", vh::J().i("tx", r.first).i("peer", r.second));
                return;
            }
        }
        std::vector<std::pair<int, int>> evicted;
        for (const auto& w : want)
            if (!real.count(w)) evicted.push_back(w);
        if (!evicted.empty()) {
            if (!pre_over) {
                Violation("evicted-within-limits", std::string("announcements disappeared although the orphanage was within its global limits (after ") + what + ")", vh::J().i("tx", evicted[0].first).i("peer", evicted[0].second).u("pre_latency", pre.total_latency).i("pre_usage", pre.total_usage).u("pre_peers", pre.npeers));
                return;
            }
            std::set<int> losers;
            for (const auto& e : evicted) losers.insert(e.second);
            bool protected_present = false;
            for (const auto& [p, cnt] : pre.count) {
                const bool prot = pre.latency.at(p) <= max_lat_pre && pre.usage.at(p) <= m.reserved;
                if (prot) protected_present = true;
                if (prot && losers.count(p)) {
                    Violation("protected-peer-evicted", std::string("a peer within its reserved usage and latency share lost an announcement to limiting (after ") + what + ")",
                              vh::J().i("peer", p).u("peer_latency", pre.latency.at(p)).u("max_peer_latency", max_lat_pre).i("peer_usage", pre.usage.at(p)).i("reserved", m.reserved).u("pre_peers", pre.npeers));
                    return;
                }
            }
            evictions += evicted.size();
            vh::log().obs("evicted_announcements", evicted.size());
            vh::log().obs(std::string("limit_step_after_") + what);
            if (pre.total_latency > m.max_global_latency) vh::log().obs("limit_by_latency");
            if (pre.total_usage > max_usage_pre) vh::log().obs("limit_by_usage");
            if (protected_present) {
                vh::log().obs("limit_step_with_protected_peer");
                nontrivial = true;
                ++protected_evictions_checked;
            }
            std::erase_if(m.anns, [&](const MAnn& a) { return !real.count({a.tx, a.peer}); });
            for (const auto& e : evicted)
                if (m.Has(e.first)) {
                    vh::log().obs("orphan_survives_losing_an_announcer");
                    break;
                }
        } else if (pre_over) {
            Violation("over-limit-not-trimmed", std::string("orphanage over its global limits and nothing was evicted (after ") + what + ")");
            return;
        }
        // getters
        const Totals t = m.Sum(pool);
        const unsigned max_peer_lat = m.max_global_latency / std::max<size_t>(t.npeers, 1);
        const int64_t max_usage = m.reserved * static_cast<int64_t>(std::max<size_t>(t.npeers, 1));
        vh::J g;
        g.u("announcements", orph->CountAnnouncements()).u("unique", orph->CountUniqueOrphans()).i("usage", orph->TotalOrphanUsage()).u("latency", orph->TotalLatencyScore())
            .u("want_announcements", m.anns.size()).u("want_unique", t.unique).i("want_usage", t.total_usage).u("want_latency", t.total_latency);
        if (orph->CountAnnouncements() != m.anns.size() || orph->CountUniqueOrphans() != t.unique || orph->TotalOrphanUsage() != t.total_usage || orph->TotalLatencyScore() != t.total_latency) {
            Violation("totals-mismatch", "global counters differ from the model", g);
            return;
        }
        if (orph->MaxGlobalLatencyScore() != m.max_global_latency || orph->ReservedPeerUsage() != m.reserved || orph->MaxPeerLatencyScore() != max_peer_lat || orph->MaxGlobalUsage() != max_usage) {
            Violation("limits-mismatch", "limit getters differ from the documented formulas", vh::J().u("max_peer_latency", orph->MaxPeerLatencyScore()).u("want", max_peer_lat).i("max_global_usage", orph->MaxGlobalUsage()).i("want_usage", max_usage));
            return;
        }
        if (orph->TotalLatencyScore() > orph->MaxGlobalLatencyScore() || orph->TotalOrphanUsage() > orph->MaxGlobalUsage() || orph->CountAnnouncements() > orph->MaxGlobalLatencyScore()) {
            Violation("over-global-limit", std::string("orphanage exceeds a global limit after ") + what, g);
            return;
        }
        for (int p = 0; p < NPEERS; ++p) {
            const auto cu = t.usage.count(p) ? t.usage.at(p) : 0;
            const auto cl = t.latency.count(p) ? t.latency.at(p) : 0;
            const auto cc = t.count.count(p) ? t.count.at(p) : 0;
            if (orph->UsageByPeer(Peer(p)) != cu || orph->LatencyScoreFromPeer(Peer(p)) != cl || orph->AnnouncementsFromPeer(Peer(p)) != cc) {
                Violation("peer-counters-mismatch", "per-peer counters differ from the model", vh::J().i("peer", p).i("usage", orph->UsageByPeer(Peer(p))).i("want_usage", cu).u("latency", orph->LatencyScoreFromPeer(Peer(p))).u("want_latency", cl));
                return;
            }
            bool work = false;
            for (const auto& a : m.anns) work |= (a.peer == p && a.reconsider);
            if (orph->HaveTxToReconsider(Peer(p)) != work) {
                Violation("work-set-mismatch", "HaveTxToReconsider differs from the model", vh::J().i("peer", p).b("want", work));
                return;
            }
        }
        for (size_t i = 0; i < pool.size(); ++i) {
            const Wtxid& w = pool[i].tx->GetWitnessHash();
            const bool have = m.Has(static_cast<int>(i));
            const CTransactionRef got = orph->GetTx(w);
            if (orph->HaveTx(w) != have || (got != nullptr) != have || (got && got->GetWitnessHash() != w)) {
                Violation(have ? "orphan-vanished" : "orphan-without-announcement", "HaveTx/GetTx differ from the model: an orphan must be present exactly while it has an announcement", vh::J().u("tx", i).b("want", have));
                return;
            }
            for (int p = 0; p < NPEERS; ++p) {
                if (orph->HaveTxFromPeer(w, Peer(p)) != (m.Find(static_cast<int>(i), p) != nullptr)) {
                    Violation("have-tx-from-peer", "HaveTxFromPeer differs from the model", vh::J().u("tx", i).i("peer", p));
                    return;
                }
            }
        }
        orph->SanityCheck();
    }

    void Step(Kind kind, int tx, int peer, const std::vector<int>& blocktx)
    {
        ++nops;
        std::string h = std::string(KN[kind]) + "(";
        if (kind == ADDTX || kind == ADDANN || kind == ERASETX || kind == WORKSET || kind == CHILDREN) h += "tx" + std::to_string(tx);
        if (kind == ADDTX || kind == ADDANN || kind == ERASEPEER || kind == RECONSIDER || kind == CHILDREN) h += ",p" + std::to_string(peer);
        if (kind == ERASEBLOCK)
            for (int b : blocktx) h += "tx" + std::to_string(b) + " ";
        history.push_back(h + ")");
        vh::log().obs(std::string("op_") + KN[kind]);
        switch (kind) {
        case ADDTX: {
            const PoolTx& pt = pool[tx];
            const bool had_tx = m.Has(tx), had_ann = m.Find(tx, peer) != nullptr;
            const bool r = orph->AddTx(pt.tx, Peer(peer));
            if (pt.oversize) {
                vh::log().obs("addtx_oversize_refused");
                if (r) Violation("oversize-accepted", "AddTx returned true for a transaction above the maximum standard weight");
            } else if (!had_ann) {
                m.anns.push_back(MAnn{tx, peer, m.next_seq++});
                vh::log().obs(had_tx ? "addtx_new_announcer" : "addtx_new_orphan");
            } else {
                vh::log().obs("addtx_duplicate");
            }
            if (!bad) Reconcile("AddTx");
            break;
        }
        case ADDANN: {
            const bool had_tx = m.Has(tx), had_ann = m.Find(tx, peer) != nullptr;
            orph->AddAnnouncer(pool[tx].tx->GetWitnessHash(), Peer(peer));
            if (had_tx && !had_ann) {
                m.anns.push_back(MAnn{tx, peer, m.next_seq++});
                vh::log().obs("addannouncer_added");
            } else {
                vh::log().obs(had_tx ? "addannouncer_duplicate" : "addannouncer_unknown_tx");
            }
            Reconcile("AddAnnouncer");
            break;
        }
        case ERASETX: {
            const bool had = m.Has(tx);
            const bool r = orph->EraseTx(pool[tx].tx->GetWitnessHash());
            if (r != had) {
                Violation("erasetx-result", "EraseTx return value differs from the documented one", vh::J().b("got", r).b("want", had));
                break;
            }
            std::erase_if(m.anns, [&](const MAnn& a) { return a.tx == tx; });
            vh::log().obs(had ? "erasetx_hit" : "erasetx_miss");
            Reconcile("EraseTx");
            break;
        }
        case ERASEPEER: {
            const size_t n = m.anns.size();
            orph->EraseForPeer(Peer(peer));
            std::erase_if(m.anns, [&](const MAnn& a) { return a.peer == peer; });
            vh::log().obs(n != m.anns.size() ? "eraseforpeer_hit" : "eraseforpeer_miss");
            Reconcile("EraseForPeer");
            break;
        }
        case ERASEBLOCK: {
            CBlock block;
            std::set<COutPoint> spent;
            for (int b : blocktx) {
                const CTransactionRef& t = b >= 0 ? pool[b].tx : parents[-b - 1];
                block.vtx.push_back(t);
                for (const auto& in : t->vin) spent.insert(in.prevout);
            }
            const size_t n = m.anns.size();
            orph->EraseForBlock(block);
            std::erase_if(m.anns, [&](const MAnn& a) {
                for (const auto& in : pool[a.tx].tx->vin)
                    if (spent.count(in.prevout)) return true;
                return false;
            });
            vh::log().obs(n != m.anns.size() ? "eraseforblock_hit" : "eraseforblock_miss");
            Reconcile("EraseForBlock");
            break;
        }
        case WORKSET: {
            const CTransaction& ptx = tx >= 0 ? *pool[tx].tx : *parents[-tx - 1];
            std::set<int> expect;
            for (const auto& a : m.anns) {
                bool child = false;
                for (const auto& in : pool[a.tx].tx->vin)
                    if (in.prevout.hash == ptx.GetHash() && in.prevout.n < ptx.vout.size()) child = true;
                if (!child) continue;
                bool already = false;
                for (const auto& b : m.anns) already |= (b.tx == a.tx && b.reconsider);
                if (!already) expect.insert(a.tx);
            }
            const auto ret = orph->AddChildrenToWorkSet(ptx, frc);
            std::set<int> got;
            for (const auto& [w, n] : ret) {
                auto it = by_wtxid.find(w);
                int p = -1;
                for (int q = 0; q < NPEERS; ++q)
                    if (Peer(q) == n) p = q;
                MAnn* a = (it != by_wtxid.end() && p >= 0) ? m.Find(it->second, p) : nullptr;
                if (!a || !expect.count(it->second) || !got.insert(it->second).second) {
                    Violation("workset-assignment", "AddChildrenToWorkSet assigned an orphan that is not an eligible child, twice, or to a non-announcer");
                    return;
                }
                a->reconsider = true;
            }
            if (got != expect) {
                Violation("workset-missing-child", "AddChildrenToWorkSet did not assign every eligible child", vh::J().u("got", got.size()).u("want", expect.size()));
                return;
            }
            if (!got.empty()) vh::log().obs("workset_children_assigned", got.size());
            Reconcile("AddChildrenToWorkSet");
            break;
        }
        case RECONSIDER: {
            std::set<int> work;
            for (const auto& a : m.anns)
                if (a.peer == peer && a.reconsider) work.insert(a.tx);
            const CTransactionRef r = orph->GetTxToReconsider(Peer(peer));
            if (work.empty() != (r == nullptr)) {
                Violation("reconsider-result", "GetTxToReconsider result inconsistent with the peer's work set", vh::J().u("work_set", work.size()));
                return;
            }
            if (r) {
                auto it = by_wtxid.find(r->GetWitnessHash());
                if (it == by_wtxid.end() || !work.count(it->second)) {
                    Violation("reconsider-result", "GetTxToReconsider returned a transaction outside the peer's work set");
                    return;
                }
                m.Find(it->second, peer)->reconsider = false;
                vh::log().obs("reconsider_returned_tx");
            }
            Reconcile("GetTxToReconsider");
            break;
        }
        case CHILDREN: {
            const CTransactionRef& parent = tx >= 0 ? pool[tx].tx : parents[-tx - 1];
            std::vector<const MAnn*> sel;
            for (const auto& a : m.anns) {
                if (a.peer != peer) continue;
                for (const auto& in : pool[a.tx].tx->vin)
                    if (in.prevout.hash == parent->GetHash()) {
                        sel.push_back(&a);
                        break;
                    }
            }
            // documented order: reconsiderable first, then most recent first
            std::sort(sel.begin(), sel.end(), [](const MAnn* a, const MAnn* b) {
                if (a->reconsider != b->reconsider) return a->reconsider;
                return a->seq > b->seq;
            });
            const auto got = orph->GetChildrenFromSamePeer(parent, Peer(peer));
            bool same = got.size() == sel.size();
            for (size_t i = 0; same && i < got.size(); ++i) same = got[i]->GetWitnessHash() == pool[sel[i]->tx].tx->GetWitnessHash();
            if (!same) {
                Violation("children-from-same-peer", "GetChildrenFromSamePeer differs from the model (set or documented order)", vh::J().u("got", got.size()).u("want", sel.size()));
                return;
            }
            if (got.size() > 1) vh::log().obs("children_from_same_peer_multi");
            break;
        }
        default:
            break;
        }
    }
};

CTransactionRef MakeParent(vh::Rng& rng, int nout)
{
    CMutableTransaction mtx;
    mtx.vin.resize(1);
    mtx.vin[0].prevout = COutPoint(Txid::FromUint256(uint256{static_cast<uint8_t>(rng.below(250) + 1)}), static_cast<uint32_t>(rng.below(1000)));
    mtx.vin[0].nSequence = static_cast<uint32_t>(rng.next());
    mtx.vout.resize(nout);
    for (auto& o : mtx.vout) {
        o.nValue = 1000;
        o.scriptPubKey = CScript() << OP_TRUE;
    }
    return MakeTransactionRef(mtx);
}

} // namespace

// One random sequence per case. Params: len (200).
VH_CMD(orphanage)
{
    const int len = static_cast<int>(args.geti("len", 200));
    for (uint64_t c = args.from; c < args.to; ++c) {
        vh::set_case(c);
        vh::Rng rng(args.seed, c);
        // limits: small enough that limiting happens often; always >= number of peers (MaxPeerLatencyScore must stay > 0)
        const unsigned max_lat = static_cast<unsigned>(rng.chance(1, 10) ? 3000 : rng.range(NPEERS, 60));
        static const int64_t reserves[] = {1500, 3000, 6000, 20000, 60000, 404000};
        const int64_t reserved = reserves[rng.below(6)];
        Sim sim(max_lat, reserved, rng.next());
        // universe: 8 parents x 25 outputs
        std::vector<COutPoint> universe;
        for (int i = 0; i < 8; ++i) {
            sim.parents.push_back(MakeParent(rng, 25));
            for (uint32_t n = 0; n < 25; ++n) universe.emplace_back(sim.parents.back()->GetHash(), n);
        }
        const int npool = 10 + static_cast<int>(rng.below(7));
        static const int nins[] = {1, 1, 1, 2, 3, 9, 10, 11, 19, 20, 25, 60, 150};
        for (int i = 0; i < npool; ++i) {
            CMutableTransaction mtx;
            const bool variant = i > 0 && rng.chance(1, 8); // same txid, different witness
            if (variant) {
                mtx = CMutableTransaction(*sim.pool[rng.below(i)].tx);
                mtx.vin[0].scriptWitness.stack.push_back(rng.bytes(1 + rng.below(40)));
            } else {
                int nin = nins[rng.below(13)];
                if (nin > 25 && !rng.chance(1, 3)) nin = 1 + static_cast<int>(rng.below(12));
                std::vector<COutPoint> src = universe;
                // sometimes spend an output of an earlier pool transaction (so that pool transactions have children)
                for (int k = 0; k < i; ++k) src.emplace_back(sim.pool[k].tx->GetHash(), 0);
                rng.shuffle(src);
                // favour a small hot region of the universe so that conflicts and shared parents are frequent
                for (int k = 0; k < nin; ++k) {
                    CTxIn in;
                    in.prevout = (k < 2 && rng.chance(1, 2)) ? universe[rng.below(6)] : src[k];
                    bool dup = false;
                    for (const auto& e : mtx.vin) dup |= e.prevout == in.prevout;
                    if (dup) in.prevout = src[k];
                    dup = false;
                    for (const auto& e : mtx.vin) dup |= e.prevout == in.prevout;
                    if (dup) continue;
                    mtx.vin.push_back(in);
                }
                mtx.vout.resize(1 + rng.below(2));
                for (auto& o : mtx.vout) {
                    o.nValue = static_cast<CAmount>(rng.below(100000));
                    o.scriptPubKey = CScript() << OP_TRUE;
                }
                // weight classes: tiny, ~reserved/3, ~reserved, big, just below / above the standardness limit (rare)
                int64_t pad = 0;
                switch (rng.below(8)) {
                case 0: pad = reserved / 12; break;
                case 1: pad = reserved / 4; break;
                case 2: pad = reserved / 3; break;
                case 3: pad = rng.below(2000); break;
                case 4: pad = rng.chance(1, 6) ? 99000 - 41 * static_cast<int64_t>(mtx.vin.size()) + rng.range(-300, 300) : 100; break;
                default: pad = rng.below(200); break;
                }
                if (pad > 99500) pad = 99500 + rng.below(1200);
                if (pad > 0) {
                    if (rng.coin()) {
                        std::vector<unsigned char> junk(pad, 0x51);
                        mtx.vout[0].scriptPubKey = CScript(junk.begin(), junk.end());
                    } else {
                        mtx.vin[0].scriptWitness.stack.push_back(std::vector<unsigned char>(std::min<int64_t>(pad * 4, 390000), 0x42));
                    }
                }
            }
            PoolTx pt;
            pt.tx = MakeTransactionRef(mtx);
            pt.weight = GetTransactionWeight(*pt.tx);
            pt.latency = 1 + static_cast<unsigned>(pt.tx->vin.size() / 10);
            pt.oversize = pt.weight > MAX_STANDARD_TX_WEIGHT;
            if (sim.by_wtxid.count(pt.tx->GetWitnessHash())) {
                --i;
                continue;
            }
            sim.by_wtxid[pt.tx->GetWitnessHash()] = static_cast<int>(sim.pool.size());
            sim.pool.push_back(pt);
            vh::log().obs_max("tx_weight", pt.weight);
            vh::log().obs_max("tx_inputs", pt.tx->vin.size());
            if (pt.latency > 1) vh::log().obs("pool_tx_latency_above_1");
        }
        std::vector<uint32_t> w = {40, 18, 5, 3, 5, 8, 8, 6};
        if (rng.chance(1, 3)) w[ADDTX] = 70;
        // some peers are "heavy" announcers, others announce little (so that protected peers exist during evictions)
        std::vector<uint32_t> pw(NPEERS);
        for (auto& x : pw) x = rng.chance(1, 2) ? 1 + rng.below(3) : 10 + rng.below(20);
        std::map<int, int> kinds;
        for (int i = 0; i < len && !sim.bad; ++i) {
            const Kind kind = static_cast<Kind>(rng.weighted(w));
            int tx = static_cast<int>(rng.below(sim.pool.size()));
            const int peer = static_cast<int>(rng.weighted(pw));
            std::vector<int> blocktx;
            if (kind == ERASEBLOCK) {
                const int n = 1 + static_cast<int>(rng.below(3));
                for (int k = 0; k < n; ++k) blocktx.push_back(static_cast<int>(rng.below(sim.pool.size())));
            }
            if ((kind == WORKSET || kind == CHILDREN) && rng.chance(2, 3)) tx = -1 - static_cast<int>(rng.below(sim.parents.size()));
            if ((kind == ADDANN || kind == ERASETX) && !sim.m.anns.empty() && rng.chance(3, 4)) tx = sim.m.anns[rng.below(sim.m.anns.size())].tx;
            sim.Step(kind, tx, peer, blocktx);
            ++kinds[kind];
            vh::log().obs_max("announcements", sim.m.anns.size());
        }
        std::string ks, fs;
        for (auto [k, n] : kinds) ks += std::string(KN[k]) + "=" + std::to_string(n) + " ";
        std::vector<std::string> st;
        for (const auto& a : sim.m.anns) st.push_back(std::to_string(sim.pool[a.tx].weight) + "/" + std::to_string(sim.pool[a.tx].latency) + "@" + std::to_string(a.peer) + (a.reconsider ? "r" : ""));
        std::sort(st.begin(), st.end());
        for (auto& x : st) fs += x + ",";
        vh::log().obs("sequences");
        vh::log().obs("ops_executed", sim.nops);
        if (sim.evictions) vh::log().obs("sequences_with_eviction");
        vh::J j;
        j.u("case", c).u("n", 1).u("ops", sim.nops).b("nt", sim.nontrivial).str("sig", std::to_string(Fnv(fs + ks + std::to_string(sim.evictions)))).u("evictions", sim.evictions).u("protected_steps", sim.protected_evictions_checked).b("failed", sim.bad);
        if (c < 3) j.raw("sample", vh::J().str("kinds", ks).u("max_global_latency", max_lat).i("reserved_peer_usage", reserved).u("pool", sim.pool.size()).u("evicted_announcements", sim.evictions).u("limit_steps_with_protected_peer", sim.protected_evictions_checked).str("final_announcements_weight/latency@peer", fs).done());
        vh::log().rec(j);
    }
    return 0;
}
