// C32 — E6 `transport`: V1Transport / V2Transport wired back to back by a byte scheduler.
//
// Session kinds (case index mod 8):
//   v1v1      V1Transport <-> V1Transport
//   v2v2      V2Transport(initiator) <-> V2Transport(responder), keys/entropy/garbage injected through the test constructor
//   v1v2      V1Transport -> V2Transport(responder): the responder must fall back to v1
//   man_i / man_r   a hand-made BIP324 peer (BIP324Cipher driven by this harness: garbage 0..4095, decoy packets before and
//                   after the version packet, non-empty version contents, long-form encoding of short-id types)
//                   -> V2Transport (initiator / responder)
// A scheduler moves bytes in random fragment sizes (1 byte .. everything), interleaves both directions and the calls
// SetMessageToSend / GetBytesToSend / MarkBytesSent / ReceivedBytes / ReceivedMessageComplete / GetReceivedMessage.
//
// Online oracle: the delivered (type, payload) sequence is always a prefix of the sent sequence and complete at the end;
// no transport error; both session ids equal. Tampering: a recorded V2 stream with one flipped bit is fed (again randomly
// fragmented) to a fresh receiver built from the same key material: it must deliver a strict prefix of the genuine messages
// (never a different message) and must notice: ReceivedBytes fails, or not all messages are delivered. V1: flipped payload / checksum byte => exactly that message is reported
// with reject_message, the others are delivered unchanged; flipped magic byte / size above the limit => ReceivedBytes fails.
//
// Offline oracle (checks/C32.py + pyref/bip324ref.py): the wire bytes of every V2 endpoint are recomputed with the vendored
// Python BIP324 implementation (ellswift ECDH, HKDF, FSChaCha20, FSChaCha20Poly1305 + own packet framing) from the logged
// private key, garbage and message list and must be identical (compared by length + SHA256, first bytes given for diagnosis);
// V1 wire bytes are recomputed from the message list; delivered messages are compared by (type, length, SHA256(payload)).
//
// Record: {"case","kind","mode","magic", "ends":[E0,E1], "sid":[hex|null,hex|null], "tamper":[...], "steps", "frags", "sig","nt"}
//   endpoint E: {"impl":"v1"|"v2"|"manual","init":bool,"fallback":bool,"key":hex32,"garb":hex,"ell":hex64 (first 64 wire bytes, v2/manual),
//                "sent":[M...] (v1/v2: messages accepted by SetMessageToSend, in order) | "pk":[P...] (manual: packets in order),
//                "wire_len","wire_sha","wire":hex (only when short), "got":[{"t","n","h","rej"}...], "err":bool}
//   message M: {"t":type,"n":payload length,"pat":hex}  payload = pat repeated cyclically up to n bytes
//   packet  P: {"ig":bool,"k":"decoy"|"version"|"app","t":type,"sid":short id used or -1 (long form),"n","pat"} ; the first packet carries the garbage as AAD
//   tamper T: {"dir":receiver endpoint index,"impl":"v1"|"v2","total":genuine message count,"trials":[[pos,bit,class,err,delivered,prefix_ok,rejected_index],...]}
//
// params: tamper (trials per stream, default 8), tamper_all (1: every bit of short streams in 1 of 8 sessions), big (0/1 allow MB-size payloads)
#include <common/vh.h>

#include <bip324.h>
#include <chainparams.h>
#include <crypto/sha256.h>
#include <hash.h>
#include <key.h>
#include <net.h>
#include <protocol.h>
#include <pubkey.h>
#include <span.h>
#include <test/util/setup_common.h>
#include <uint256.h>

#include <algorithm>
#include <deque>
#include <map>
#include <memory>
#include <optional>
#include <string>
#include <vector>

namespace {

const BasicTestingSetup& Setup()
{
    static const auto setup = MakeNoLogFileContext<const BasicTestingSetup>(ChainType::REGTEST);
    return *setup;
}

// BIP324 short message type ids (own copy of the table in the BIP)
const std::vector<std::pair<int, const char*>> SHORT{
    {1, "addr"}, {2, "block"}, {3, "blocktxn"}, {4, "cmpctblock"}, {5, "feefilter"}, {6, "filteradd"}, {7, "filterclear"}, {8, "filterload"},
    {9, "getblocks"}, {10, "getblocktxn"}, {11, "getdata"}, {12, "getheaders"}, {13, "headers"}, {14, "inv"}, {15, "mempool"}, {16, "merkleblock"},
    {17, "notfound"}, {18, "ping"}, {19, "pong"}, {20, "sendcmpct"}, {21, "tx"}, {22, "getcfilters"}, {23, "cfilter"}, {24, "getcfheaders"},
    {25, "cfheaders"}, {26, "getcfcheckpt"}, {27, "cfcheckpt"}, {28, "addrv2"}, {37, "feature"}};
const char* LONGKNOWN[] = {"version", "verack", "wtxidrelay", "sendheaders", "sendaddrv2", "getaddr", "sendtxrcncl"};

int ShortId(const std::string& t)
{
    for (const auto& [id, name] : SHORT)
        if (t == name) return id;
    return -1;
}

struct Msg {
    std::string type;
    size_t n{0};
    std::vector<uint8_t> pat;
};
std::vector<uint8_t> Payload(const Msg& m)
{
    std::vector<uint8_t> p(m.n);
    if (m.n == 0) return p;
    for (size_t i = 0; i < m.n;) {
        const size_t k = std::min(m.pat.size(), m.n - i);
        std::copy(m.pat.begin(), m.pat.begin() + k, p.begin() + i);
        i += k;
    }
    return p;
}
std::string MsgJson(const Msg& m) { return vh::J().str("t", m.type).u("n", m.n).hex("pat", m.pat).done(); }

std::string Sha(std::span<const uint8_t> d)
{
    unsigned char h[32];
    CSHA256().Write(d.data(), d.size()).Finalize(h);
    return vh::Hex(h, 32);
}

struct Got {
    std::string type;
    size_t n;
    std::string sha;
    bool rej;
};
std::string GotJson(const Got& g) { return vh::J().str("t", g.type).u("n", g.n).str("h", g.sha).b("rej", g.rej).done(); }

std::string RandType(vh::Rng& rng, bool allow_empty)
{
    auto cls = rng.below(20);
    if (cls == 14 && !allow_empty) cls = 15;
    if (cls < 11) return rng.pick(SHORT).second;
    if (cls < 14) return LONGKNOWN[rng.below(std::size(LONGKNOWN))];
    if (cls == 14) return "";
    std::string s;
    const size_t len = cls < 17 ? 12 : 1 + rng.below(12);
    for (size_t i = 0; i < len; ++i) s += static_cast<char>(0x21 + rng.below(0x7E - 0x21 + 1));
    return s;
}
Msg RandMsg(vh::Rng& rng, size_t big, bool allow_empty = false)
{
    Msg m;
    m.type = RandType(rng, allow_empty);
    const auto cls = rng.below(100);
    if (big) m.n = big;
    else if (cls < 15) m.n = 0;
    else if (cls < 70) m.n = 1 + rng.below(120);
    else if (cls < 93) m.n = 100 + rng.below(3000);
    else m.n = 3000 + rng.below(70000);
    const size_t pl = std::min<size_t>(m.n, 1 + rng.below(64));
    m.pat = rng.bytes(pl);
    return m;
}

enum class Mode { TINY, MIXED, WHOLE, COARSE };
const char* MODEN[] = {"tiny", "mixed", "whole", "coarse"};
size_t Frag(vh::Rng& rng, Mode mode, size_t n)
{
    if (n <= 1) return n;
    switch (mode) {
    case Mode::TINY: return 1 + rng.below(std::min<size_t>(n, 3));
    case Mode::WHOLE: return rng.chance(9, 10) ? n : 1 + rng.below(n);
    case Mode::COARSE: return std::min(n, std::max<size_t>(1, n / 40 + rng.below(n / 10 + 1)));
    case Mode::MIXED: break;
    }
    switch (rng.below(4)) {
    case 0: return 1;
    case 1: return n;
    case 2: return 1 + rng.below(std::min<size_t>(n, 16));
    default: return 1 + rng.below(n);
    }
}

struct FragSig {
    uint64_t h{0xcbf29ce484222325ULL};
    uint64_t count{0};
    void add(uint64_t v)
    {
        h = (h ^ v) * 0x100000001b3ULL;
        ++count;
    }
};

// Feed bytes to a receiver the way CNode::ReceiveMsgBytes does, in random fragments, retrieving completed messages.
// Returns false when the transport reported an error. `defer` randomly leaves a completed message unretrieved for a while.
bool Feed(Transport& r, std::span<const uint8_t> bytes, vh::Rng& rng, Mode mode, std::vector<Got>& out, FragSig* fs)
{
    size_t pos = 0;
    while (pos < bytes.size()) {
        const size_t k = Frag(rng, mode, bytes.size() - pos);
        if (fs) fs->add(k);
        std::span<const uint8_t> sp = bytes.subspan(pos, k);
        pos += k;
        while (!sp.empty()) {
            if (r.ReceivedMessageComplete()) {
                bool rej = false;
                CNetMessage m = r.GetReceivedMessage(NodeClock::time_point{}, rej);
                out.push_back({m.m_type, m.m_recv.size(), Sha(MakeUCharSpan(m.m_recv)), rej});
                continue;
            }
            const size_t before = sp.size();
            if (!r.ReceivedBytes(sp)) return false;
            if (sp.size() == before && !r.ReceivedMessageComplete()) return false; // no progress: treat as a failure of the transport
        }
    }
    while (r.ReceivedMessageComplete()) {
        bool rej = false;
        CNetMessage m = r.GetReceivedMessage(NodeClock::time_point{}, rej);
        out.push_back({m.m_type, m.m_recv.size(), Sha(MakeUCharSpan(m.m_recv)), rej});
    }
    return true;
}

struct End {
    std::unique_ptr<Transport> t;
    std::string impl; // v1 v2 manual
    bool init{false};
    bool fallback{false};
    std::vector<uint8_t> key, ent, garb;
    std::deque<Msg> tosend;
    std::vector<Msg> sent;
    std::vector<std::string> pk; // manual: packet json
    std::vector<Msg> manual_app; // manual: application messages in order (what the peer must deliver)
    std::vector<uint8_t> wire;
    size_t inflight{0}; // wire[inflight..] not yet delivered to the peer
    std::vector<Got> got;
    bool err{false};
    std::vector<size_t> bounds; // interesting offsets in wire (element starts)
    size_t app_end{0};          // manual: offset just after the last application packet (only decoys follow); 0 = not applicable
};

std::unique_ptr<V2Transport> MakeV2(const End& e)
{
    CKey k;
    k.Set(e.key.begin(), e.key.end(), true);
    return std::make_unique<V2Transport>(0, e.init, k, MakeByteSpan(e.ent), e.garb);
}
void RandKeyMaterial(vh::Rng& rng, End& e, size_t garb_len)
{
    do {
        e.key = rng.bytes(32);
        CKey k;
        k.Set(e.key.begin(), e.key.end(), true);
        if (k.IsValid()) break;
    } while (true);
    e.ent = rng.bytes(32);
    e.garb = rng.bytes(garb_len);
}
size_t RandGarbLen(vh::Rng& rng)
{
    switch (rng.below(8)) {
    case 0: return 0;
    case 1: return 4095;
    case 2: return 4094;
    case 3: return 1 + rng.below(15);
    case 4: return 16;
    default: return rng.below(4096);
    }
}

std::string EndJson(const End& e)
{
    std::vector<std::string> sent, got;
    for (const auto& m : e.sent) sent.push_back(MsgJson(m));
    for (const auto& g : e.got) got.push_back(GotJson(g));
    vh::J j;
    j.str("impl", e.impl).b("init", e.init).b("fallback", e.fallback).hex("key", e.key).hex("garb", e.garb);
    if (e.impl != "v1" && e.wire.size() >= 64 && !e.fallback) j.hex("ell", e.wire.data(), 64);
    if (e.impl == "manual") j.raw("pk", vh::JArr(e.pk));
    else j.raw("sent", vh::JArr(sent));
    j.u("wire_len", e.wire.size()).str("wire_sha", Sha(e.wire));
    if (e.wire.size() <= 600) j.hex("wire", e.wire);
    j.raw("got", vh::JArr(got)).b("err", e.err);
    return j.done();
}

bool SameMsg(const Got& g, const Msg& m)
{
    if (g.rej || g.type != m.type || g.n != m.n) return false;
    return g.sha == Sha(Payload(m));
}

// pull up to a fragment of the bytes the transport wants to send
bool Pull(End& e, vh::Rng& rng, Mode mode, FragSig& fs)
{
    const auto& [bytes, more, type] = e.t->GetBytesToSend(!e.tosend.empty());
    if (bytes.empty()) return false;
    const size_t k = rng.chance(1, 20) ? 0 : Frag(rng, mode, bytes.size());
    fs.add(1000000 + k);
    e.wire.insert(e.wire.end(), bytes.begin(), bytes.begin() + k);
    e.t->MarkBytesSent(k);
    return k > 0;
}

struct TamperOut {
    std::vector<std::string> trials;
    uint64_t n{0};
};

} // namespace

VH_CMD(transport)
{
    Setup();
    const int64_t n_tamper = args.geti("tamper", 8);
    const bool tamper_all = args.geti("tamper_all", 0) != 0;
    const bool allow_big = args.geti("big", 1) != 0;
    const auto magic = Params().MessageStart();
    for (uint64_t c = args.from; c < args.to; ++c) {
        vh::set_case(c);
        vh::Rng rng(args.seed, c);
        static const char* KINDS[] = {"v2v2", "v1v1", "v2v2", "man_i", "v2v2", "v1v2", "man_r", "v2v2"};
        const std::string kind = KINDS[c % 8];
        uint64_t bad = 0;
        auto violation = [&](const std::string& key, const std::string& msg, const vh::J& d) {
            if (bad++ < 3) vh::log().violation(key, msg, d);
        };
        // workload size class
        const bool rekey = (c % 3 == 0);                       // cross the 224-packet rekey boundary
        const bool bigcase = allow_big && (c % 64 == 20 || c % 64 == 41); // one MB-size payload
        Mode mode = static_cast<Mode>(rng.below(3));
        if (bigcase) mode = Mode::COARSE;
        End E[2];
        FragSig fs;
        uint64_t steps = 0;
        std::vector<std::string> tamper_json;
        auto gen_msgs = [&](std::deque<Msg>& q, bool first_version) {
            size_t n = rekey ? 226 + rng.below(40) : rng.below(12);
            if (rng.chance(1, 10)) n = 0;
            if (first_version && n == 0) n = 1;
            for (size_t i = 0; i < n; ++i) {
                // the empty message type only exists in v1 (BIP324 has no encoding for it; V2Transport would map it to the unassigned short id 29)
                Msg m = RandMsg(rng, 0, /*allow_empty=*/kind == "v1v1");
                if (rekey && m.n > 200) m.n = rng.below(200), m.pat.resize(std::min<size_t>(m.pat.size(), std::max<size_t>(m.n, 1)));
                if (m.n == 0) m.pat.clear();
                if (i == 0 && first_version) m.type = "version";
                q.push_back(std::move(m));
            }
        };
        if (kind == "v1v1" || kind == "v2v2" || kind == "v1v2") {
            // ---------- two real transports back to back ----------
            for (int s = 0; s < 2; ++s) {
                End& e = E[s];
                e.init = (s == 0);
                const bool v2 = kind == "v2v2" || (kind == "v1v2" && s == 1);
                e.impl = v2 ? "v2" : "v1";
                if (v2) {
                    RandKeyMaterial(rng, e, RandGarbLen(rng));
                    e.t = MakeV2(e);
                } else {
                    e.t = std::make_unique<V1Transport>(0);
                }
                gen_msgs(e.tosend, /*first_version=*/kind == "v1v2" && s == 0);
            }
            if (kind == "v1v2") E[1].fallback = true;
            {
                // byte-at-a-time scheduling only for sessions that move few bytes (every step costs several transport calls)
                size_t total = 0;
                for (int s = 0; s < 2; ++s)
                    for (const auto& m : E[s].tosend) total += m.n + 24;
                if (mode == Mode::TINY && total > 6000) mode = Mode::MIXED;
            }
            if (bigcase) {
                const size_t sizes[] = {4000000, 3999999, 1000000 + static_cast<size_t>(rng.below(2000000))};
                Msg m = RandMsg(rng, sizes[rng.below(3)]);
                E[rng.below(2)].tosend.push_back(std::move(m));
            }
            const size_t total_msgs = E[0].tosend.size() + E[1].tosend.size();
            const uint64_t step_cap = 4000000 + 2000 * total_msgs;
            size_t checked[2] = {0, 0}; // how many of got[] were compared with the peer's sent[]
            std::vector<uint8_t> tmp;
            while (bad == 0) {
                if (++steps > step_cap) {
                    violation("transport-stalled", "the two transports did not finish exchanging their messages", vh::J().u("steps", steps).str("kind", kind));
                    break;
                }
                if (steps % 16 == 0 && E[0].tosend.empty() && E[1].tosend.empty() && E[0].inflight == E[0].wire.size() && E[1].inflight == E[1].wire.size()) {
                    bool idle = true;
                    for (int s = 0; s < 2; ++s) {
                        const auto& [bytes, more, type] = E[s].t->GetBytesToSend(false);
                        if (!bytes.empty() || E[s].t->ReceivedMessageComplete()) idle = false;
                    }
                    if (idle) break;
                }
                const int s = static_cast<int>(rng.below(2));
                End& e = E[s];
                End& peer = E[1 - s];
                switch (rng.below(3)) {
                case 0: // hand the next message to the transport
                    if (!e.tosend.empty()) {
                        CSerializedNetMsg sm;
                        sm.m_type = e.tosend.front().type;
                        sm.data = Payload(e.tosend.front());
                        if (e.t->SetMessageToSend(sm)) {
                            e.sent.push_back(std::move(e.tosend.front()));
                            e.tosend.pop_front();
                        }
                    }
                    break;
                case 1: Pull(e, rng, mode, fs); break;
                case 2: { // deliver a fragment of what the peer has put on the wire to e
                    if (e.t->ReceivedMessageComplete() && rng.coin()) {
                        bool rej = false;
                        CNetMessage m = e.t->GetReceivedMessage(NodeClock::time_point{}, rej);
                        e.got.push_back({m.m_type, m.m_recv.size(), Sha(MakeUCharSpan(m.m_recv)), rej});
                    }
                    const size_t avail = peer.wire.size() - peer.inflight;
                    if (avail == 0) break;
                    const size_t k = Frag(rng, mode, avail);
                    fs.add(k);
                    std::span<const uint8_t> sp{peer.wire.data() + peer.inflight, k};
                    while (!sp.empty()) {
                        if (e.t->ReceivedMessageComplete()) {
                            if (rng.chance(1, 4)) break; // leave the rest on the wire, fetch the message later
                            bool rej = false;
                            CNetMessage m = e.t->GetReceivedMessage(NodeClock::time_point{}, rej);
                            e.got.push_back({m.m_type, m.m_recv.size(), Sha(MakeUCharSpan(m.m_recv)), rej});
                            continue;
                        }
                        if (!e.t->ReceivedBytes(sp)) {
                            e.err = true;
                            violation("transport-error-on-genuine-stream", "ReceivedBytes failed on an untampered stream", vh::J().str("kind", kind).i("side", s).u("offset", peer.inflight + k - sp.size()));
                            break;
                        }
                    }
                    peer.inflight += k - sp.size();
                    break;
                }
                }
                // online prefix check
                for (int r = 0; r < 2 && bad == 0; ++r) {
                    while (checked[r] < E[r].got.size()) {
                        const size_t i = checked[r];
                        if (i >= E[1 - r].sent.size() || !SameMsg(E[r].got[i], E[1 - r].sent[i])) {
                            violation("delivered-differs-from-sent", "a received message differs from the message sent at that position",
                                      vh::J().str("kind", kind).i("receiver", r).u("index", i).raw("got", GotJson(E[r].got[i])).raw("sent", i < E[1 - r].sent.size() ? MsgJson(E[1 - r].sent[i]) : "null"));
                            break;
                        }
                        ++checked[r];
                    }
                }
            }
            if (bad == 0) {
                for (int r = 0; r < 2; ++r) {
                    if (E[r].got.size() != E[1 - r].sent.size()) violation("message-lost", "not all sent messages were delivered", vh::J().str("kind", kind).i("receiver", r).u("got", E[r].got.size()).u("sent", E[1 - r].sent.size()));
                }
            }
        } else {
            // ---------- hand-made BIP324 peer (endpoint 0) -> V2Transport under test (endpoint 1) ----------
            End& M = E[0];
            End& T = E[1];
            M.impl = "manual";
            T.impl = "v2";
            T.init = (kind == "man_i");
            M.init = !T.init;
            RandKeyMaterial(rng, T, RandGarbLen(rng));
            RandKeyMaterial(rng, M, RandGarbLen(rng));
            T.t = MakeV2(T);
            CKey mk;
            mk.Set(M.key.begin(), M.key.end(), true);
            BIP324Cipher cipher(mk, MakeByteSpan(M.ent));
            const auto& ourpub = cipher.GetOurPubKey();
            M.wire.insert(M.wire.end(), UCharCast(ourpub.data()), UCharCast(ourpub.data()) + ourpub.size());
            M.bounds.push_back(0);
            M.bounds.push_back(M.wire.size());
            M.wire.insert(M.wire.end(), M.garb.begin(), M.garb.end());
            auto feed_all = [&]() {
                if (M.inflight < M.wire.size()) {
                    std::span<const uint8_t> sp{M.wire.data() + M.inflight, M.wire.size() - M.inflight};
                    if (!Feed(*T.t, sp, rng, mode, T.got, &fs)) {
                        T.err = true;
                        violation("transport-error-on-genuine-stream", "ReceivedBytes failed on a valid BIP324 stream", vh::J().str("kind", kind));
                    }
                    M.inflight = M.wire.size();
                }
            };
            auto pull_all = [&]() {
                for (int guard = 0; guard < 100000; ++guard) {
                    const auto& [bytes, more, type] = T.t->GetBytesToSend(false);
                    if (bytes.empty()) break;
                    Pull(T, rng, mode, fs);
                }
            };
            if (mode == Mode::TINY && rekey) mode = Mode::MIXED;
            if (!T.init) feed_all(); // the responder only starts once it has seen (non-v1) bytes
            pull_all();
            if (T.wire.size() < 64) {
                violation("handshake-no-key", "V2Transport did not emit its 64-byte public key", vh::J().str("kind", kind).u("bytes", T.wire.size()));
            } else {
                EllSwiftPubKey theirs(MakeByteSpan(T.wire).first(64));
                cipher.Initialize(theirs, /*initiator=*/M.init);
                M.bounds.push_back(M.wire.size());
                const auto term = cipher.GetSendGarbageTerminator();
                M.wire.insert(M.wire.end(), UCharCast(term.data()), UCharCast(term.data()) + term.size());
                bool aad_sent = false;
                auto packet = [&](const std::vector<uint8_t>& contents, bool ignore) {
                    std::vector<std::byte> out(contents.size() + BIP324Cipher::EXPANSION);
                    cipher.Encrypt(MakeByteSpan(contents), aad_sent ? std::span<const std::byte>{} : MakeByteSpan(M.garb), ignore, out);
                    aad_sent = true;
                    M.bounds.push_back(M.wire.size());
                    M.wire.insert(M.wire.end(), UCharCast(out.data()), UCharCast(out.data()) + out.size());
                };
                auto decoys = [&](size_t maxn) {
                    const size_t n = rng.below(maxn + 1);
                    for (size_t i = 0; i < n; ++i) {
                        Msg d;
                        d.n = rng.chance(1, 4) ? 0 : rng.below(200);
                        d.pat = rng.bytes(std::min<size_t>(d.n, 1 + rng.below(64)));
                        packet(Payload(d), true);
                        M.pk.push_back(vh::J().b("ig", true).str("k", "decoy").str("t", "").i("sid", -1).u("n", d.n).hex("pat", d.pat).done());
                        vh::log().obs("decoys");
                    }
                };
                decoys(4);
                {
                    Msg v;
                    v.n = rng.chance(2, 3) ? 0 : 1 + rng.below(40);
                    v.pat = rng.bytes(std::min<size_t>(v.n, 16));
                    packet(Payload(v), false);
                    M.pk.push_back(vh::J().b("ig", false).str("k", "version").str("t", "").i("sid", -1).u("n", v.n).hex("pat", v.pat).done());
                }
                const size_t napp = rekey ? 226 + rng.below(30) : 1 + rng.below(10);
                for (size_t i = 0; i < napp; ++i) {
                    decoys(rng.chance(1, 3) ? 2 : 0);
                    Msg m = RandMsg(rng, 0);
                    if (rekey && m.n > 200) m.n = rng.below(200), m.pat.resize(std::min<size_t>(m.pat.size(), std::max<size_t>(m.n, 1)));
                    if (m.n == 0) m.pat.clear();
                    int sid = ShortId(m.type);
                    if (sid >= 0 && rng.chance(1, 8)) sid = -1; // long-form encoding of a type that has a short id
                    std::vector<uint8_t> contents;
                    if (sid >= 0) {
                        contents.push_back(static_cast<uint8_t>(sid));
                    } else {
                        contents.assign(13, 0);
                        std::copy(m.type.begin(), m.type.end(), contents.begin() + 1);
                    }
                    const auto pl = Payload(m);
                    contents.insert(contents.end(), pl.begin(), pl.end());
                    packet(contents, false);
                    M.pk.push_back(vh::J().b("ig", false).str("k", "app").str("t", m.type).i("sid", sid).u("n", m.n).hex("pat", m.pat).done());
                    M.manual_app.push_back(std::move(m));
                }
                M.app_end = M.wire.size();
                decoys(2);
                M.bounds.push_back(M.wire.size());
                feed_all();
                // the transport under test also sends a few messages (its wire bytes are checked offline)
                gen_msgs(T.tosend, false);
                for (int guard = 0; guard < 1000000 && !T.tosend.empty(); ++guard) {
                    CSerializedNetMsg sm;
                    sm.m_type = T.tosend.front().type;
                    sm.data = Payload(T.tosend.front());
                    if (T.t->SetMessageToSend(sm)) {
                        T.sent.push_back(std::move(T.tosend.front()));
                        T.tosend.pop_front();
                    }
                    pull_all();
                }
                pull_all();
                if (bad == 0) {
                    if (T.got.size() != M.manual_app.size()) violation("message-lost", "not all non-decoy application packets were delivered", vh::J().str("kind", kind).u("got", T.got.size()).u("sent", M.manual_app.size()));
                    for (size_t i = 0; i < std::min(T.got.size(), M.manual_app.size()); ++i) {
                        if (!SameMsg(T.got[i], M.manual_app[i])) {
                            violation("delivered-differs-from-sent", "a received message differs from the packet sent at that position", vh::J().str("kind", kind).u("index", i).raw("got", GotJson(T.got[i])).raw("sent", MsgJson(M.manual_app[i])));
                            break;
                        }
                    }
                }
            }
        }
        // ---------- session ids ----------
        std::string sid[2] = {"null", "null"};
        for (int s = 0; s < 2; ++s) {
            if (!E[s].t) continue;
            const auto info = E[s].t->GetInfo();
            if (info.session_id) sid[s] = vh::JStr(vh::Hex(*info.session_id));
        }
        if (kind == "v2v2" && bad == 0) {
            if (sid[0] == "null" || sid[0] != sid[1]) violation("session-id-mismatch", "the two sides of a v2 handshake report different session ids", vh::J().raw("a", sid[0]).raw("b", sid[1]));
            vh::log().obs("v2_sessions");
        }
        if (kind == "v1v2" && bad == 0) {
            if (E[1].t->GetInfo().transport_type != TransportProtocolType::V1) violation("no-v1-fallback", "a v2 responder talking to a v1 peer did not fall back to v1", vh::J());
            vh::log().obs("v1_fallbacks");
        }
        // ---------- tampering ----------
        for (int r = 0; r < 2 && bad == 0; ++r) {
            End& rx = E[r];        // receiver whose key material is reused
            End& tx = E[1 - r];    // sender of the recorded stream
            if (!rx.t) continue;
            const std::vector<Msg>& genuine = tx.impl == "manual" ? tx.manual_app : tx.sent;
            if (genuine.empty() || tx.wire.empty()) continue;
            const bool v2stream = rx.impl == "v2" && !rx.fallback && tx.impl != "v1";
            const bool v1stream = tx.impl == "v1" || (tx.impl == "v2" && tx.fallback);
            if (tx.wire.size() > 300000) continue;
            std::vector<std::string> trials;
            if (v2stream) {
                // element boundaries of the stream (for position classes)
                std::vector<size_t> bounds = tx.bounds;
                if (bounds.empty()) {
                    size_t o = 0;
                    bounds = {0, 64, 64 + tx.garb.size(), 64 + tx.garb.size() + 16};
                    o = 64 + tx.garb.size() + 16 + 20; // + empty version packet
                    bounds.push_back(o);
                    for (const auto& m : tx.sent) {
                        o += (ShortId(m.type) >= 0 ? 1 : 13) + m.n + 20;
                        bounds.push_back(o);
                    }
                }
                const bool all = tamper_all && tx.wire.size() <= 450 && (c % 8 == 0 || c % 8 == 3 || c % 8 == 6);
                const uint64_t ntr = all ? tx.wire.size() * 8 : static_cast<uint64_t>(n_tamper);
                for (uint64_t i = 0; i < ntr && bad == 0; ++i) {
                    size_t pos;
                    int bit;
                    int cls;
                    if (all) {
                        pos = i / 8;
                        bit = static_cast<int>(i % 8);
                        cls = 9;
                    } else {
                        cls = static_cast<int>(rng.below(5));
                        bit = static_cast<int>(rng.below(8));
                        const size_t b = bounds[rng.below(bounds.size())];
                        if (cls == 0) pos = rng.below(std::min<size_t>(tx.wire.size(), 64));                                  // public key
                        else if (cls == 1) pos = std::min(tx.wire.size() - 1, b + rng.below(3));                              // start of an element (length field)
                        else if (cls == 2) pos = b >= 16 ? b - 1 - rng.below(16) : rng.below(tx.wire.size());                 // end of an element (tag / terminator)
                        else if (cls == 3) pos = std::min(tx.wire.size() - 1, 64 + rng.below(tx.garb.size() + 16 + 20));      // garbage / terminator / version packet
                        else pos = rng.below(tx.wire.size());
                        pos = std::min(pos, tx.wire.size() - 1);
                    }
                    std::vector<uint8_t> s2 = tx.wire;
                    s2[pos] ^= static_cast<uint8_t>(1u << bit);
                    auto fresh = MakeV2(rx);
                    std::vector<Got> got;
                    const Mode m2 = tx.wire.size() > 20000 ? Mode::COARSE : static_cast<Mode>(rng.below(3));
                    const bool ok = Feed(*fresh, s2, rng, m2, got, nullptr);
                    bool prefix = got.size() <= genuine.size();
                    for (size_t g = 0; prefix && g < got.size(); ++g) prefix = SameMsg(got[g], genuine[g]);
                    // detected = an error was reported, or the receiver is still waiting (not everything was delivered)
                    // a flip in the trailing decoy packets (after the last application packet) cannot affect the messages before it:
                    // complete delivery is then legitimate (the receiver errors or stalls on the damaged decoy afterwards)
                    const bool strict = got.size() < genuine.size() || !ok || (tx.app_end != 0 && pos >= tx.app_end);
                    if (!prefix) violation("tampered-stream-delivered-different-message", "a v2 stream with one flipped bit made the receiver deliver a message that was not sent", vh::J().str("kind", kind).u("pos", pos).i("bit", bit).u("delivered", got.size()));
                    else if (!strict) violation("tampered-stream-fully-delivered", "a v2 stream with one flipped bit was delivered completely without an error", vh::J().str("kind", kind).u("pos", pos).i("bit", bit).u("delivered", got.size()).b("error_reported", !ok));
                    trials.push_back("[" + std::to_string(pos) + "," + std::to_string(bit) + "," + std::to_string(cls) + "," + (ok ? "0" : "1") + "," + std::to_string(got.size()) + "," + (prefix ? "1" : "0") + ",-1]");
                    vh::log().obs("tamper_positions");
                    if (!ok) vh::log().obs("tamper_error_reported");
                    else vh::log().obs("tamper_stalled_without_delivery");
                }
                if (all) vh::log().obs("tamper_exhaustive_streams");
                tamper_json.push_back(vh::J().i("dir", r).str("impl", "v2").u("total", genuine.size()).u("len", tx.wire.size()).u("app_end", tx.app_end).raw("trials", vh::JArr(trials)).done());
            } else if (v1stream && (rx.impl == "v1" || rx.fallback)) {
                // message offsets
                std::vector<size_t> off;
                size_t o = 0;
                for (const auto& m : genuine) {
                    off.push_back(o);
                    o += 24 + m.n;
                }
                for (int64_t i = 0; i < n_tamper && bad == 0; ++i) {
                    const size_t mi = rng.below(genuine.size());
                    int cls = static_cast<int>(rng.below(4)); // 0 payload, 1 checksum, 2 magic, 3 oversize
                    if (cls == 0 && genuine[mi].n == 0) cls = 1;
                    if (rx.fallback && mi == 0 && cls >= 2) cls = 1; // the first 16 bytes decide v1/v2 detection, keep them
                    std::vector<uint8_t> s2 = tx.wire;
                    size_t pos;
                    const int bit = static_cast<int>(rng.below(8));
                    if (cls == 0) pos = off[mi] + 24 + rng.below(genuine[mi].n);
                    else if (cls == 1) pos = off[mi] + 20 + rng.below(4);
                    else if (cls == 2) pos = off[mi] + rng.below(4);
                    else pos = off[mi] + 16;
                    if (cls == 3) {
                        const uint32_t sz = 4000001 + static_cast<uint32_t>(rng.below(3) == 0 ? 0 : rng.below(0xffffffffu - 4000001));
                        s2[pos] = sz & 0xff, s2[pos + 1] = (sz >> 8) & 0xff, s2[pos + 2] = (sz >> 16) & 0xff, s2[pos + 3] = (sz >> 24) & 0xff;
                    } else {
                        s2[pos] ^= static_cast<uint8_t>(1u << bit);
                    }
                    std::unique_ptr<Transport> fresh;
                    if (rx.fallback) fresh = MakeV2(rx);
                    else fresh = std::make_unique<V1Transport>(0);
                    std::vector<Got> got;
                    const bool ok = Feed(*fresh, s2, rng, static_cast<Mode>(rng.below(3)), got, nullptr);
                    bool good = true;
                    int64_t rejected = -1;
                    if (cls <= 1) {
                        // exactly message mi is reported as failed; everything else is delivered unchanged
                        good = ok && got.size() == genuine.size();
                        for (size_t g = 0; good && g < got.size(); ++g) {
                            if (g == mi) {
                                good = got[g].rej;
                                rejected = static_cast<int64_t>(g);
                            } else {
                                good = SameMsg(got[g], genuine[g]);
                            }
                        }
                        if (!good) violation("v1-corrupt-message-delivered", "a v1 message whose payload does not match its checksum was not reported as failed (or another message was disturbed)", vh::J().str("kind", kind).u("msg", mi).i("class", cls).u("pos", pos).u("delivered", got.size()).b("ok", ok));
                        vh::log().obs("v1_checksum_rejections");
                    } else {
                        good = !ok && got.size() == mi;
                        for (size_t g = 0; good && g < got.size(); ++g) good = SameMsg(got[g], genuine[g]);
                        if (!good) violation("v1-bad-header-accepted", "a v1 header with wrong magic / oversize length did not make ReceivedBytes fail at that message", vh::J().str("kind", kind).u("msg", mi).i("class", cls).u("delivered", got.size()).b("ok", ok));
                        vh::log().obs(cls == 2 ? "v1_bad_magic_errors" : "v1_oversize_errors");
                    }
                    trials.push_back("[" + std::to_string(pos) + "," + std::to_string(bit) + "," + std::to_string(cls) + "," + (ok ? "0" : "1") + "," + std::to_string(got.size()) + "," + (good ? "1" : "0") + "," + std::to_string(rejected) + "]");
                    vh::log().obs("tamper_positions_v1");
                }
                tamper_json.push_back(vh::J().i("dir", r).str("impl", "v1").u("total", genuine.size()).u("len", tx.wire.size()).raw("trials", vh::JArr(trials)).done());
            }
        }
        // ---------- record ----------
        size_t maxpay = 0, nmsgs = 0;
        for (int s = 0; s < 2; ++s) {
            for (const auto& m : E[s].sent) maxpay = std::max(maxpay, m.n), ++nmsgs;
            for (const auto& m : E[s].manual_app) maxpay = std::max(maxpay, m.n), ++nmsgs;
        }
        if (rekey && (kind == "v2v2" || kind == "man_i" || kind == "man_r") && bad == 0) vh::log().obs("rekey_crossed");
        if (maxpay >= 1000000) vh::log().obs("big_payloads");
        if (maxpay == 4000000) vh::log().obs("max_size_payloads");
        vh::log().obs("sessions_" + kind);
        vh::log().obs_max("payload", static_cast<int64_t>(maxpay));
        vh::log().obs_max("garbage", static_cast<int64_t>(std::max(E[0].garb.size(), E[1].garb.size())));
        if (E[0].garb.empty() && E[0].impl != "v1") vh::log().obs("garbage_0");
        if (E[0].garb.size() == 4095 || E[1].garb.size() == 4095) vh::log().obs("garbage_4095");
        char sigbuf[64];
        std::snprintf(sigbuf, sizeof sigbuf, "%016llx", static_cast<unsigned long long>(fs.h));
        vh::log().rec(vh::J().u("case", c).str("kind", kind).str("mode", MODEN[static_cast<int>(mode)]).hex("magic", magic).raw("ends", "[" + EndJson(E[0]) + "," + EndJson(E[1]) + "]")
                          .raw("sid", "[" + sid[0] + "," + sid[1] + "]").raw("tamper", vh::JArr(tamper_json)).u("steps", steps).u("frags", fs.count).b("rekey", rekey)
                          .str("sig", kind + "/" + MODEN[static_cast<int>(mode)] + "/" + std::to_string(nmsgs) + "/" + sigbuf).b("nt", nmsgs > 0 && fs.count > 4).u("bad", bad));
    }
    return 0;
}
