// E8 `walletsim` — reusable wallet fixture: a real SQLite descriptor wallet (CWallet) attached through interfaces::Chain to an
// in-process regtest node (TestChain100Setup), plus an own reference model ("shadow ledger") of what the active chain and the
// mempool hold for a given set of scripts.
//
// Used by e8_wallet.cpp (C41 C44 C56). Meant to be reused by the wallet encryption / persistence / crash engines (C42 C43 C62):
// everything they need is in WalletSim (Create/Unload/Load of the wallet on its real file, address helpers, funding, mining,
// reorg helpers, canonical dump).
//
// Conventions
//  * Nothing here uses the repository's random context for workload decisions; callers pass vh::Rng.
//  * ShadowLedger is written from scratch: it reads *blocks of the active chain* and the *mempool's transaction list* and derives
//    everything else itself. It never asks the wallet for a balance, a depth, a spent flag or a trust flag. The only thing it takes
//    from the wallet is the membership predicate "is this scriptPubKey one of the wallet's" (passed in as a callback, memoised).
//  * All methods must be called from one thread, with neither cs_main nor cs_wallet held.
#pragma once

#include <common/vh.h>

#include <addresstype.h>
#include <consensus/amount.h>
#include <key.h>
#include <outputtype.h>
#include <policy/feerate.h>
#include <primitives/block.h>
#include <primitives/transaction.h>
#include <script/script.h>
#include <uint256.h>
#include <validation.h>
#include <wallet/coincontrol.h>
#include <wallet/wallet.h>

#include <functional>
#include <map>
#include <memory>
#include <optional>
#include <set>
#include <string>
#include <vector>

struct TestChain100Setup;
class CTxMemPool;
class ChainstateManager;
namespace wallet {
struct WalletContext;
}

namespace simw {

// ------------------------------------------------------------------------------------------------------------------------
// Shadow ledger
// ------------------------------------------------------------------------------------------------------------------------

//! An output paying one of the tracked scripts, created by an active-chain or in-mempool transaction.
struct SCoin {
    COutPoint op;
    CTxOut out;
    int height{-1};       //!< height of the active-chain block that created it; -1: created by an in-mempool transaction
    bool coinbase{false};
    std::optional<Txid> spent_chain;   //!< active-chain transaction spending it
    std::optional<Txid> spent_mempool; //!< in-mempool transaction spending it
    std::vector<Txid> limbo_spenders;  //!< known transactions spending it that are neither on the active chain, in the mempool nor conflicted
    bool Unspent() const { return !spent_chain && !spent_mempool; }
};

enum class CoinClass { SPENT, IMMATURE, TRUSTED, UNTRUSTED_PENDING };
enum class TxStatus { UNKNOWN, CHAIN, MEMPOOL, CONFLICTED, LIMBO };

struct Balances {
    CAmount trusted{0}, untrusted_pending{0}, immature{0};
    //! value of unspent coins (by class) that a LIMBO transaction spends: the property does not pin down whether they count
    CAmount amb_trusted{0}, amb_untrusted_pending{0}, amb_immature{0};
};

class ShadowLedger
{
public:
    using IsMineFn = std::function<bool(const CScript&)>;
    ShadowLedger(ChainstateManager& chainman, CTxMemPool& pool, IsMineFn is_mine);

    //! Re-read the active chain (incrementally: only blocks above the fork point with what was read before) and the mempool,
    //! then recompute every derived fact. Call after the validation queue was drained.
    void Refresh();

    int TipHeight() const { return static_cast<int>(m_chain.size()) - 1; }
    uint256 TipHash() const { return m_chain.empty() ? uint256{} : m_chain.back().hash; }

    //! Every tracked output created by an active-chain or in-mempool transaction (spent ones included).
    const std::map<COutPoint, SCoin>& Coins() const { return m_coins; }
    const SCoin* Find(const COutPoint& op) const;
    //! Tracked outputs of *known* transactions that are currently neither on chain nor in the mempool (value lookup for presets).
    std::optional<CTxOut> FindAnyOutput(const COutPoint& op) const;

    int Depth(const SCoin& c) const { return c.height < 0 ? 0 : TipHeight() - c.height + 1; }
    //! C44 classification. SPENT = spent by an active-chain or in-mempool transaction.
    CoinClass Classify(const SCoin& c) const;
    bool Ambiguous(const SCoin& c) const { return c.Unspent() && !c.limbo_spenders.empty(); }
    Balances GetBalances() const;

    TxStatus Status(const Txid& txid) const;
    int TxHeight(const Txid& txid) const; //!< -1 unless CHAIN
    //! in-mempool transaction all of whose inputs spend tracked outputs of confirmed or (recursively) trusted in-mempool transactions
    bool MempoolTxTrusted(const Txid& txid) const { return m_trusted_mempool.count(txid) > 0; }
    //! Tell the ledger about a transaction handed to the wallet that may never reach chain or mempool.
    void NoteTx(const CTransactionRef& tx);
    const std::map<Txid, CTransactionRef>& KnownTxs() const { return m_known; }
    //! the same transactions in the order in which they were first seen
    const std::vector<Txid>& KnownOrder() const { return m_known_order; }
    //! all in-mempool transactions in a parents-first order (as of the last Refresh)
    const std::vector<CTransactionRef>& MempoolTxs() const { return m_mempool; }
    //! who spends this outpoint on the active chain / in the mempool (any outpoint, tracked or not)
    std::optional<Txid> SpenderOf(const COutPoint& op) const;
    //! tracked scripts that were the scriptPubKey of an output some known transaction spent (avoid-reuse model)
    bool ScriptWasSpentFrom(const CScript& spk) const { return m_spent_scripts.count(spk) > 0; }

    //! transactions of the active-chain block at height h (as of the last Refresh)
    const std::vector<CTransactionRef>& BlockTxs(int h) const { return m_chain.at(h).vtx; }
    const uint256& BlockHash(int h) const { return m_chain.at(h).hash; }
    uint64_t StatBlocksRead() const { return m_blocks_read; }

private:
    struct BlockRec {
        uint256 hash;
        std::vector<CTransactionRef> vtx;
    };
    bool Mine(const CScript& spk);
    void Recompute();

    ChainstateManager& m_chainman;
    CTxMemPool& m_pool;
    IsMineFn m_is_mine;
    std::map<CScript, bool> m_mine_memo;
    std::vector<BlockRec> m_chain; //!< index = height
    std::vector<CTransactionRef> m_mempool;
    std::map<COutPoint, SCoin> m_coins;
    std::map<COutPoint, Txid> m_spender; //!< every input of every active-chain / in-mempool tx
    std::map<Txid, CTransactionRef> m_known; //!< every relevant tx ever seen (pays a tracked script or spends a tracked output)
    std::vector<Txid> m_known_order;
    std::set<COutPoint> m_ever_mine; //!< every tracked outpoint ever seen
    std::map<Txid, std::pair<TxStatus, int>> m_status;
    std::set<Txid> m_trusted_mempool;
    std::set<CScript> m_spent_scripts;
    uint64_t m_blocks_read{0};
};

// ------------------------------------------------------------------------------------------------------------------------
// Fixture
// ------------------------------------------------------------------------------------------------------------------------

struct Options {
    int keypool{40};               //!< -keypool (lookahead per descriptor); small values make wallet creation fast under ASan
    bool avoid_reuse{false};       //!< create the wallet with WALLET_FLAG_AVOID_REUSE
    bool unsafe_sqlite_sync{true}; //!< -unsafesqlitesync (crash engines want false)
    bool create_wallet{true};      //!< false: only the node; call CreateWallet()/LoadWallet() later
};

//! Result of a mempool (test-)submission
struct Accept {
    bool ok{false};
    std::string reason; //!< reject reason (+ debug message)
    int64_t vsize{0};
    CAmount fees{0};
    std::vector<Txid> replaced; //!< only for real submissions
};

//! kinds of destinations not controlled by the wallet (recipients)
enum class ForeignKind { P2PKH, P2SH, P2WPKH, P2WSH, P2TR, P2PK, WIT_UNKNOWN, NONSTANDARD, N_KINDS };

class WalletSim
{
public:
    explicit WalletSim(const Options& opts = {});
    ~WalletSim();
    WalletSim(const WalletSim&) = delete;

    // --- node -------------------------------------------------------------------------------------------------------
    TestChain100Setup& Node() { return *m_node; }
    ChainstateManager& Chainman();
    CTxMemPool& Pool();
    //! SyncWithValidationInterfaceQueue: after this the wallet has processed every block / mempool notification issued so far
    void Drain();
    int TipHeight();
    uint256 TipHash();
    uint256 HashAtHeight(int h);
    //! advance mock time
    void AdvanceTime(int seconds);

    // --- wallet life cycle (real file <datadir>/wallets/... on disk) -----------------------------------------------------
    wallet::CWallet& W() { return *m_wallet; }
    std::shared_ptr<wallet::CWallet> WalletPtr() { return m_wallet; }
    wallet::WalletContext& Context() { return *m_context; }
    bool HasWallet() const { return bool(m_wallet); }
    void CreateWallet();  //!< wallet::TestCreateWallet (MakeWalletDatabase + CWallet::CreateNew + postInitProcess)
    void UnloadWallet();  //!< wallet::TestUnloadWallet
    void LoadWallet();    //!< wallet::TestLoadWallet (MakeWalletDatabase(require_existing) + CWallet::LoadExisting)
    std::string WalletFilePath() const;

    // --- addresses -------------------------------------------------------------------------------------------------------
    //! new receive address (enters the address book with `label`)
    CTxDestination NewDest(OutputType type, const std::string& label = "");
    //! new internal (change) address
    CTxDestination NewChangeDest(OutputType type);
    //! destination nobody in this simulation can spend (deterministic from rng). NONSTANDARD yields a CNoDestination script.
    static CTxDestination ForeignDest(vh::Rng& rng, ForeignKind kind);
    static bool ForeignKindStandard(ForeignKind k) { return k != ForeignKind::NONSTANDARD; }

    // --- faucet: coins of the fixture's coinbase key (100 coinbases of 50 BTC, P2PK; change kept as P2WPKH) -------------------
    //! Build and sign a transaction paying `outs` from faucet coins (confirmed mature ones first, then unconfirmed faucet change).
    //! fee is absolute. `also_spend`: further faucet-owned outpoints to include. Returns null when the faucet is dry.
    CTransactionRef FaucetTx(const std::vector<CTxOut>& outs, CAmount fee, bool signal_rbf = true, const std::vector<COutPoint>& also_spend = {}, bool confirmed_only = false);
    //! take one confirmed, mature, unspent faucet coin out of circulation (for use as an "external input"); nullopt when dry
    std::optional<SCoin> ReserveFaucetCoin();
    const CKey& FaucetKey() const;
    CScript FaucetScript() const; //!< P2WPKH of the faucet key
    const ShadowLedger& FaucetLedger() const { return *m_faucet_ledger; }
    //! sign inputs of mtx that spend faucet scripts (used for "external inputs" of wallet transactions)
    void FaucetSign(CMutableTransaction& mtx, const std::map<COutPoint, CTxOut>& prevouts);

    // --- mempool -----------------------------------------------------------------------------------------------------------
    Accept TestAccept(const CTransactionRef& tx);
    Accept Submit(const CTransactionRef& tx);
    //! txids the mempool reported as removed, with the reason string, since the last call (drains the queue first)
    std::vector<std::pair<Txid, std::string>> TakeRemovals();

    // --- blocks / reorgs -----------------------------------------------------------------------------------------------------
    //! Build a block on `parent` (null: current tip) with the given transactions (any order; sorted parents-first here), coinbase
    //! paying the subsidy to `cb_spk`, and hand it to ProcessNewBlock. Returns its hash (null hash if building failed).
    uint256 MineOn(const uint256* parent, std::vector<CTransactionRef> txs, const CScript& cb_spk);
    //! Mine a block on the tip containing everything in the mempool plus `extra`.
    uint256 MineMempool(const CScript& cb_spk, const std::vector<CTransactionRef>& extra = {});
    //! n empty blocks to a burn script
    void MineEmpty(int n);
    bool Invalidate(const uint256& hash);
    void Reconsider(const uint256& hash);
    static CScript BurnScript();
    //! whether hash is on the active chain
    bool OnActiveChain(const uint256& hash);

    // --- shadow --------------------------------------------------------------------------------------------------------------
    //! Drain + refresh both ledgers + forget locks of outpoints that a known transaction spends
    void Sync();
    const ShadowLedger& Ledger() const { return *m_ledger; }
    ShadowLedger& LedgerMut() { return *m_ledger; }
    //! own bookkeeping of LockCoin/UnlockCoin requests. The wallet silently drops a lock when a transaction spending the coin is
    //! *added* to it; so does this (a transaction first seen after the lock was taken that spends the coin).
    bool Lock(const COutPoint& op, bool persist = false);
    bool Unlock(const COutPoint& op);
    const std::set<COutPoint>& Locked() const { return m_locked; }

    // --- wallet operations -------------------------------------------------------------------------------------------------------
    //! wallet::CreateTransaction; error text in *err on failure
    std::optional<wallet::CreatedTransactionResult> Create(const std::vector<wallet::CRecipient>& recipients, std::optional<unsigned> change_pos,
                                                           const wallet::CCoinControl& cc, bool sign, std::string* err);
    //! CWallet::CommitTransaction (adds to the wallet and submits to the mempool when broadcasting is enabled)
    void Commit(const CTransactionRef& tx);

    // --- canonical dump ---------------------------------------------------------------------------------------------------------
    //! Text dump of the wallet's persistent state: flags, descriptors (public string, range, next index, active/internal),
    //! transactions (serialised record hash, state, replaces/replaced_by), address book, locked coins. Sorted, so equal states give
    //! equal strings. `with_volatile` adds memory-only facts (mempool membership, mempool conflicts, best block).
    std::string Dump(bool with_volatile = false);
    static std::string DumpDigest(const std::string& dump);

private:
    class Recorder;
    std::unique_ptr<TestChain100Setup> m_node;
    std::unique_ptr<wallet::WalletContext> m_context;
    std::shared_ptr<wallet::CWallet> m_wallet;
    std::unique_ptr<ShadowLedger> m_ledger;
    std::unique_ptr<ShadowLedger> m_faucet_ledger;
    std::shared_ptr<Recorder> m_recorder;
    std::set<COutPoint> m_locked;
    std::map<COutPoint, size_t> m_lock_mark; //!< number of known transactions when the lock was taken
    std::set<COutPoint> m_faucet_reserved; //!< faucet coins handed out in transactions that were never seen on chain/mempool
    Options m_opts;
    std::vector<std::string> m_arg_store;
    uint64_t m_extranonce{0};
};

//! helpers shared by the engines
std::string TxHex(const CTransaction& tx);
std::string OutpointStr(const COutPoint& op);
int64_t TxVSize(const CTransaction& tx);

} // namespace simw
