// C57 — E1 class *assumevalid* (DESIGN §4 C57): scripts are skipped only under the assumed-valid conditions.
//
// One case = one regtest block tree of > 2100 blocks built with the fixture's generator (all blocks valid per the reference ledger),
// except ONE planted block P whose single non-coinbase transaction carries a broken signature (one bit flipped; the unbroken spend is
// valid). The node is created with assumed_valid_block = hash of block A (and optionally minimum_chain_work), receives the headers of
// every chain first (so that m_best_header is known), then the blocks of P's chain in order up to P and two more. The position class
// is chosen by the case index (case % 12) so that every class occurs in any 12 consecutive cases:
//    0 deep           P on the assumed chain at height h <= A, buried by >= 2017 blocks under the best header          (skipping allowed)
//    1 deep_at_av     P is the assumed-valid block itself, buried by >= 2017                                             (skipping allowed)
//    2 boundary_in    best height - h == 2017  (equivalent time = two weeks + 10 min)                                    (skipping allowed)
//    3 boundary_out   best height - h == 2016  (equivalent time = exactly two weeks)                                     (must verify)
//    4 recent         h <= A, best height - h in 1..2015                                                                 (must verify)
//    5 above_av       h > A (A+1 half of the time), buried by >= 2017                                                    (must verify)
//    6 fork_side      P is a one-block side branch forking below A from the (best, assumed) chain, buried height           (must verify)
//    7 best_not_av    two header chains: A lies on X, the best header on the longer Y; P on Y at a height <= A, buried    (must verify)
//    8 av_not_best    same tree, P on X (the assumed chain, buried by >= 2017 of X) while the best header is on Y         (must verify)
//    9 minwork_above  class 0 position, minimum_chain_work = best header work + 1 (or more)                              (must verify)
//   10 minwork_equal  class 0 position, minimum_chain_work = best header work exactly                                    (skipping allowed)
//   11 near_boundary  best height - h in {2015, 2018}                                                                    (verify / allowed)
// The oracle is checks/C57.py: it recomputes "allowed" from the model facts logged here (tree relations from the reference ledger's
// parent pointers, chain work from the ledger's own 256-bit arithmetic) with Python integers and demands a rejection with
// block-script-verify-flag-failed everywhere else. Nothing is demanded in the allowed class except that acceptance is observed at all.
//
// Record: {"case","fam":"assumevalid","cls","n_best","a","h","nx","ny","fork","on_av","on_best","w_best","w_p","proof_best","minwork",
//          "spk","tx_ok_unbroken","tx_ok_broken","best_hdr_ok","pre_tip_ok","ret","nchk","valid","res","reason","failed","data","validity",
//          "tip_is_p","children_connected","expect_allowed","sig","node_opts"}
//
// params: nmin (default 2200), nmax (default 4400): range of the main chain length of the single-chain classes
#include <common/vh.h>
#include <sim_chain.h>

#include <chainparams.h>
#include <key.h>
#include <script/interpreter.h>
#include <util/chaintype.h>

#include <memory>
#include <stdexcept>
#include <string>
#include <vector>

namespace {
using namespace sim;

constexpr int BURY = 2017; // blocks on top for "more than two weeks of work" at equal difficulty and 10-minute spacing

const char* CLS[] = {"deep", "deep_at_av", "boundary_in", "boundary_out", "recent", "above_av", "fork_side", "best_not_av", "av_not_best", "minwork_above", "minwork_equal", "near_boundary"};

bool InterpreterAccepts(const CTransaction& tx, const CTxOut& spent)
{
    PrecomputedTransactionData txdata;
    txdata.Init(tx, std::vector<CTxOut>{spent}, true);
    const script_verify_flags flags = SCRIPT_VERIFY_P2SH | SCRIPT_VERIFY_DERSIG | SCRIPT_VERIFY_CHECKLOCKTIMEVERIFY | SCRIPT_VERIFY_CHECKSEQUENCEVERIFY | SCRIPT_VERIFY_WITNESS | SCRIPT_VERIFY_NULLDUMMY | SCRIPT_VERIFY_TAPROOT;
    ScriptError err;
    return VerifyScript(tx.vin[0].scriptSig, spent.scriptPubKey, &tx.vin[0].scriptWitness, flags, TransactionSignatureChecker(&tx, 0, spent.nValue, txdata, MissingDataBehavior::FAIL), &err);
}

struct Plan {
    int cls{0};
    int f{0};       //!< fork height (0 = single chain)
    int nx{0};      //!< height of chain X's tip (X carries the assumed-valid block)
    int ny{0};      //!< height of chain Y's tip (0 = no Y)
    int a{0};       //!< assumed-valid height (on X)
    int h{0};       //!< height of P
    char p_chain{'X'}; //!< 'X', 'Y' or 'S' (one-off side block on X's ancestor at h-1)
    int minwork{0}; //!< 0 none, 1 = best work, 2 = best work + delta
    bool expect_allowed{false};
};

Plan MakePlan(vh::Rng& rng, int cls, int nmin, int nmax)
{
    Plan p;
    p.cls = cls;
    auto single = [&] { p.nx = (int)rng.range(nmin, nmax); };
    switch (cls) {
    case 0:
    case 9:
    case 10:
        single();
        p.h = (int)rng.range(102, p.nx - BURY);
        p.a = (int)rng.range(p.h, rng.chance(1, 4) ? p.h + 3 : p.nx);
        p.a = std::min(p.a, p.nx);
        p.expect_allowed = cls != 9;
        p.minwork = cls == 9 ? 2 : cls == 10 ? 1 : 0;
        break;
    case 1:
        single();
        p.h = (int)rng.range(102, p.nx - BURY);
        p.a = p.h;
        p.expect_allowed = true;
        break;
    case 2:
    case 3: {
        single();
        p.h = p.nx - (cls == 2 ? BURY : BURY - 1);
        p.a = (int)rng.range(p.h, p.nx);
        p.expect_allowed = cls == 2;
        break;
    }
    case 4:
        single();
        p.h = p.nx - (int)rng.range(1, BURY - 2);
        p.a = (int)rng.range(p.h, p.nx);
        break;
    case 5:
        single();
        p.a = (int)rng.range(101, p.nx - BURY - 1);
        p.h = rng.coin() ? p.a + 1 : (int)rng.range(p.a + 1, p.nx - BURY);
        break;
    case 6:
        single();
        p.h = (int)rng.range(102, p.nx - BURY);
        p.a = (int)rng.range(p.h, p.nx);
        p.p_chain = 'S';
        break;
    case 7:
        // A on X (short), best header on Y (long); P on Y below A's height
        p.h = (int)rng.range(102, 500);
        p.f = (int)rng.range(std::max(1, p.h - 150), p.h - 1);
        p.a = (int)rng.range(p.h, p.h + 40);
        p.nx = p.a + (int)rng.below(30);
        p.ny = p.h + BURY + (int)rng.below(300);
        p.p_chain = 'Y';
        break;
    case 8:
        // P on X (assumed chain, buried), best header on the longer Y
        p.h = (int)rng.range(102, 400);
        p.f = rng.chance(1, 4) ? (int)rng.range(1, p.h - 1) : (int)rng.range(std::max(1, p.h - 60), p.h - 1);
        p.nx = p.h + BURY + (int)rng.below(150);
        p.a = (int)rng.range(p.h, p.nx);
        p.ny = p.nx + 1 + (int)rng.below(40);
        p.p_chain = 'X';
        break;
    case 11: {
        single();
        const bool in = rng.coin();
        p.h = p.nx - (in ? BURY + 1 : BURY - 2);
        p.a = (int)rng.range(p.h, p.nx);
        p.expect_allowed = in;
        break;
    }
    default: throw std::runtime_error("bad class");
    }
    return p;
}

} // namespace

VH_CMD(assumevalid)
{
    const int nmin = (int)args.geti("nmin", 2200), nmax = (int)args.geti("nmax", 4400);
    if (nmin < 2150 || nmax < nmin) return 2;
    for (uint64_t c = args.from; c < args.to; ++c) {
        vh::set_case(c);
        vh::Rng rng(args.seed, c);
        const int cls = (int)(c % 12);
        const Plan plan = MakePlan(rng, cls, nmin, nmax);

        NodeOpts opts;
        opts.worker_threads = rng.coin() ? 0 : 2;
        opts.prevoutfetch_threads = rng.coin() ? 0 : 2;
        opts.check_block_index = 0; // CheckBlockIndex is quadratic over > 4000 deliveries and not what this property is about
        opts.with_mempool = false;
        if (rng.chance(1, 3)) {
            opts.sig_cache_bytes = 0;
            opts.script_cache_bytes = 0;
        }
        SelectParams(ChainType::REGTEST); // the ledger reads the regtest genesis block; the node (created later) selects the same again
        RefLedger led(RefParams::FromNodeOpts(opts));
        std::vector<RefBlock*> X{led.Genesis()}, Y; // X[i] = block at height i on chain X; Y[i - f] from the fork
        RefBlock* P = nullptr;
        std::vector<RefBlock*> p_path;     // blocks to deliver up to and including P
        std::vector<RefBlock*> p_children; // up to two blocks after P on its chain
        bool ok_unbroken = false, ok_broken = true;
        std::string spk_name;
        {
            // ---------------------------------------------------------------- generation (needs a signing context of its own)
            ECC_Context ecc;
            KeyRing keys(rng, 3);
            BlockBuilder bb(led, keys);
            uint64_t salt = 1;
            const CScript burn = CScript() << OP_RETURN << std::vector<unsigned char>{0x43, 0x35, 0x37};
            static const OutType types[] = {OutType::P2WPKH, OutType::P2PKH, OutType::P2TR, OutType::P2WSH, OutType::P2PK, OutType::P2SH_P2WPKH};
            const OutType fund_type = types[rng.below(6)];
            spk_name = OutTypeName(fund_type);
            const CScript fund_spk = keys.Spk(fund_type, rng.below(3));
            const int g = plan.h - 100 - (int)rng.below(std::min(20, plan.h - 101) + 1); // funding height, >= 1
            auto build = [&](RefBlock* parent, char chain) -> RefBlock* {
                const int height = parent->height + 1;
                BlockSpec s;
                s.salt = salt++ + (chain == 'Y' ? 1000000 : chain == 'S' ? 2000000 : 0);
                const bool on_p_chain = chain == plan.p_chain || height <= plan.f || (plan.p_chain == 'S' && chain == 'X');
                s.cb.spk = (height == g && on_p_chain) ? fund_spk : burn;
                std::vector<CTransactionRef> txs;
                const bool is_p = height == plan.h && chain == plan.p_chain;
                if (is_p) {
                    // the funding coinbase (an ancestor of this block) is spent with a signature that has one bit flipped
                    const RefBlock* fb = led.Ancestor(parent, g);
                    if (!fb || fb->block->vtx[0]->vout[0].scriptPubKey != fund_spk) throw std::runtime_error("assumevalid generator: funding block not an ancestor");
                    Spendable sp;
                    sp.op = COutPoint(fb->block->vtx[0]->GetHash(), 0);
                    sp.out = fb->block->vtx[0]->vout[0];
                    sp.height = g;
                    sp.coinbase = true;
                    CMutableTransaction mtx = MakeTx(keys, {sp}, {CTxOut(sp.out.nValue, burn)});
                    ok_unbroken = InterpreterAccepts(CTransaction(mtx), sp.out);
                    if (!BreakSignature(mtx, 0)) throw std::runtime_error("assumevalid generator: no signature to break");
                    ok_broken = InterpreterAccepts(CTransaction(mtx), sp.out);
                    txs.push_back(MakeTransactionRef(mtx));
                }
                auto blk = bb.Build(parent, txs, s);
                BlockMeta m;
                m.tag = is_p ? "planted" : "filler";
                RefBlock* rb = led.Add(blk, m); // the ledger is NOT told about the broken script: otherwise model-valid
                if (!rb || !rb->SelfValid()) throw std::runtime_error("assumevalid generator: block is model-invalid at height " + std::to_string(height));
                if (is_p) P = rb;
                return rb;
            };
            for (int i = 1; i <= plan.nx; ++i) X.push_back(build(X.back(), 'X'));
            if (plan.ny) {
                Y.push_back(X[plan.f]);
                for (int i = plan.f + 1; i <= plan.ny; ++i) Y.push_back(build(Y.back(), 'Y'));
            }
            if (plan.p_chain == 'S') build(X[plan.h - 1], 'S');
        }
        if (!P) throw std::runtime_error("assumevalid generator: planted block missing");
        auto at = [&](char chain, int height) -> RefBlock* {
            if (chain == 'Y' && height > plan.f) return Y[height - plan.f];
            return X[height];
        };
        const char path_chain = plan.p_chain == 'S' ? 'X' : plan.p_chain;
        for (int i = 1; i < plan.h; ++i) p_path.push_back(at(path_chain, i));
        p_path.push_back(P);
        if (plan.p_chain != 'S') {
            const int top = plan.p_chain == 'Y' ? plan.ny : plan.nx;
            for (int i = plan.h + 1; i <= std::min(top, plan.h + 2); ++i) p_children.push_back(at(plan.p_chain, i));
        }
        RefBlock* AV = X[plan.a];
        RefBlock* best = plan.ny ? Y.back() : X.back();
        if (plan.ny && !(Y.back()->chainwork > X.back()->chainwork)) throw std::runtime_error("assumevalid generator: Y must have more work");
        U256 minwork; // zero
        if (plan.minwork == 1) minwork = best->chainwork;
        if (plan.minwork == 2) minwork = best->chainwork + U256::From64(rng.coin() ? 1 : 1 + rng.below(1000000));
        opts.assumed_valid_block = AV->hash;
        if (plan.minwork) opts.minimum_chain_work = *uint256::FromHex(minwork.Hex());

        // -------------------------------------------------------------------- node
        SimNode node(opts);
        node.SetTime((int64_t)best->block->nTime + 1000);
        auto send_headers = [&](const std::vector<RefBlock*>& chain, size_t from) {
            std::vector<CBlockHeader> batch;
            for (size_t i = from; i < chain.size(); ++i) {
                batch.push_back(CBlockHeader(*chain[i]->block));
                if (batch.size() == 2000 || i + 1 == chain.size()) {
                    SubmitResult r = node.SubmitHeaders(batch);
                    if (!r.ret) throw std::runtime_error("assumevalid: header batch refused: " + (r.verdict ? r.verdict->reason : std::string("?")));
                    batch.clear();
                }
            }
        };
        // either chain's headers may arrive first: the best header must be decided by work, not by arrival
        const bool x_first = plan.ny && rng.coin();
        if (x_first) {
            send_headers(X, 1);
            send_headers(Y, 1);
        } else {
            if (plan.ny) {
                std::vector<RefBlock*> trunk(X.begin(), X.begin() + plan.f + 1);
                send_headers(trunk, 1);
                send_headers(Y, 1);
                std::vector<RefBlock*> rest(X.begin() + plan.f, X.end());
                send_headers(rest, 1);
            } else {
                send_headers(X, 1);
            }
        }
        const bool side_hdr_first = plan.p_chain == 'S' && rng.coin();
        if (side_hdr_first) node.SubmitHeaders({CBlockHeader(*P->block)});
        uint256 node_best;
        {
            LOCK(::cs_main);
            node_best = node.Chainman().m_best_header ? node.Chainman().m_best_header->GetBlockHash() : uint256{};
        }
        const bool best_hdr_ok = node_best == best->hash;

        // blocks of P's chain up to P's parent
        for (size_t i = 0; i + 1 < p_path.size(); ++i) {
            SubmitResult r = node.SubmitBlock(p_path[i]->block, true, true);
            if (!r.ret) throw std::runtime_error("assumevalid: filler block refused at height " + std::to_string(p_path[i]->height));
        }
        const bool pre_tip_ok = node.TipHash() == P->parent->hash;
        node.Sync();
        node.Verdicts().TakeEvents();

        // ---- the planted block
        SubmitResult r = node.SubmitBlock(P->block, true, true);
        node.Sync();
        const IndexInfo ii = node.Index(P->hash);
        const bool tip_is_p = node.TipHash() == P->hash;
        int children_connected = 0;
        for (RefBlock* ch : p_children) {
            node.SubmitBlock(ch->block, true, true);
            if (node.TipHash() == ch->hash) ++children_connected;
        }
        node.Sync();
        node.Verdicts().TakeEvents();

        // ---- model facts
        const bool on_av = led.IsDescendantOrSelf(AV, P);
        const bool on_best = led.IsDescendantOrSelf(best, P);
        const bool accepted = r.verdict && r.verdict->valid && tip_is_p;
        std::string sig = std::string(CLS[cls]) + "/" + std::to_string(plan.nx) + "/" + std::to_string(plan.ny) + "/" + std::to_string(plan.f) + "/" + std::to_string(plan.a) + "/" + std::to_string(plan.h) + "/" + spk_name;
        vh::log().rec(vh::J().u("case", c).str("fam", "assumevalid").str("cls", CLS[cls]).i("n_best", best->height).i("a", plan.a).i("h", plan.h).i("nx", plan.nx).i("ny", plan.ny).i("fork", plan.f)
                          .str("p_chain", std::string(1, plan.p_chain)).b("on_av", on_av).b("on_best", on_best).str("w_best", best->chainwork.Hex()).str("w_p", P->chainwork.Hex())
                          .str("proof_best", best->work.Hex()).str("minwork", minwork.Hex()).i("spacing", 600).str("spk", spk_name).b("tx_ok_unbroken", ok_unbroken).b("tx_ok_broken", ok_broken)
                          .b("best_hdr_ok", best_hdr_ok).b("pre_tip_ok", pre_tip_ok).b("x_first", x_first).b("side_hdr_first", side_hdr_first)
                          .b("ret", r.ret).u("nchk", r.n_checked).b("valid", r.verdict && r.verdict->valid).str("res", r.verdict ? r.verdict->ResultName() : "NONE")
                          .str("reason", r.verdict ? r.verdict->reason : "").b("failed", ii.failed).b("data", ii.have_data).u("validity", ii.validity).b("tip_is_p", tip_is_p)
                          .i("children", (int64_t)p_children.size()).i("children_connected", children_connected).b("expect_allowed", plan.expect_allowed).b("accepted", accepted)
                          .str("sig", sig).raw("node_opts", opts.Describe()));
        vh::log().obs("av_cases");
        vh::log().obs(std::string("av_gen_") + CLS[cls]);
        vh::log().obs("av_blocks_built", (int64_t)led.Blocks().size());
        vh::log().obs("av_blocks_connected", (int64_t)p_path.size());
    }
    return 0;
}
