// VH_FLAVOURS: asan tsan
// E7 `conc` — C63: validation notifications describe exactly what happened, in order.
//   c63_notify : TestChain100Setup node with the real scheduler thread; a recording CValidationInterface is registered on
//                m_node.validation_signals. Workload per history: phases in which the main driver thread connects blocks
//                (with mempool transactions, with conflicting transactions), invalidates / reconsiders blocks (reorgs, competing
//                branches) while a second thread submits transactions (incl. double spends / replacements). After every
//                phase the queue is drained and the tip is sampled. The recorded notification sequence and the driver's own
//                records are checked offline against the trace specification (checks/C63.py).
#include <common/vh.h>
#include <e7_conc.h>

#include <consensus/merkle.h>
#include <interfaces/mining.h>
#include <kernel/mempool_entry.h>
#include <kernel/mempool_removal_reason.h>
#include <node/context.h>
#include <node/miner.h>
#include <pow.h>
#include <primitives/block.h>
#include <test/util/setup_common.h>
#include <txmempool.h>
#include <validation.h>
#include <validationinterface.h>

#include <atomic>
#include <mutex>
#include <thread>

namespace {

enum HTag : uint16_t { H_CB = e7::T_H_BASE + 32, H_DRV_B, H_DRV_E, H_SUB_B, H_SUB_E };

std::string TxList(const CBlock& b, bool skip_coinbase)
{
    std::vector<std::string> v;
    for (size_t i = skip_coinbase ? 1 : 0; i < b.vtx.size(); ++i) v.push_back(vh::JStr(b.vtx[i]->GetHash().ToString()));
    return vh::JArr(v);
}

//! Records every notification in the order the callbacks run (they run one at a time on the scheduler thread).
class Recorder : public CValidationInterface
{
public:
    std::mutex mu;
    std::vector<std::string> ev;
    uint64_t c{0};

protected:
    void add(vh::J& j)
    {
        e7::PointId(H_CB);
        std::lock_guard<std::mutex> l(mu);
        ev.push_back(j.done());
    }
    void TransactionAddedToMempool(const NewMempoolTransactionInfo& tx, uint64_t seq) override
    {
        vh::J j;
        j.u("case", c).str("n", "added").str("txid", tx.info.m_tx->GetHash().ToString()).str("wtxid", tx.info.m_tx->GetWitnessHash().ToString()).u("seq", seq);
        add(j);
    }
    void TransactionRemovedFromMempool(const CTransactionRef& tx, MemPoolRemovalReason reason, uint64_t seq) override
    {
        vh::J j;
        j.u("case", c).str("n", "removed").str("txid", tx->GetHash().ToString()).str("wtxid", tx->GetWitnessHash().ToString()).str("reason", RemovalReasonToString(reason)).u("seq", seq);
        add(j);
    }
    void MempoolTransactionsRemovedForBlock(const std::shared_ptr<const CBlock>& block, const std::vector<RemovedMempoolTransactionInfo>& txs, unsigned int height) override
    {
        std::vector<std::string> v;
        for (auto& t : txs) v.push_back(vh::JStr(t.info.m_tx->GetHash().ToString()));
        vh::J j;
        j.u("case", c).str("n", "removed_for_block").str("block", block->GetHash().ToString()).u("height", height).raw("txs", vh::JArr(v)).raw("block_txs", TxList(*block, true));
        add(j);
    }
    void BlockConnected(const kernel::ChainstateRole& role, const std::shared_ptr<const CBlock>& block, const CBlockIndex* pindex) override
    {
        vh::J j;
        j.u("case", c).str("n", "connected").str("block", block->GetHash().ToString()).str("prev", block->hashPrevBlock.ToString()).str("index_hash", pindex->GetBlockHash().ToString())
            .i("height", pindex->nHeight).str("merkle", BlockMerkleRoot(*block).ToString()).str("hdr_merkle", block->hashMerkleRoot.ToString()).raw("txs", TxList(*block, false));
        add(j);
    }
    void BlockDisconnected(const std::shared_ptr<const CBlock>& block, const CBlockIndex* pindex) override
    {
        vh::J j;
        j.u("case", c).str("n", "disconnected").str("block", block->GetHash().ToString()).str("prev", block->hashPrevBlock.ToString()).str("index_hash", pindex->GetBlockHash().ToString())
            .i("height", pindex->nHeight).str("merkle", BlockMerkleRoot(*block).ToString()).str("hdr_merkle", block->hashMerkleRoot.ToString()).raw("txs", TxList(*block, false));
        add(j);
    }
};

struct Spend {
    CTransactionRef tx;
    uint32_t vout;
    int height;
    CAmount value;
};

void RealSleepUs(uint64_t us)
{
    struct timespec ts {static_cast<time_t>(us / 1000000), static_cast<long>((us % 1000000) * 1000)};
    nanosleep(&ts, nullptr);
}

int RunCase(const vh::Args& args, uint64_t c, e7::Affinity& aff)
{
    vh::Rng rng(args.seed, c);
    static const int CPUS[] = {1, 2, 16};
    static const uint32_t PROBS[] = {0, 100, 300, 600};
    const int ncpu = aff.Pin(CPUS[rng.below(3)], rng);
    const uint32_t prob = PROBS[rng.below(4)];
    const int n_phases = static_cast<int>(args.geti("phases", 4));

    TestOpts opts;
    opts.extra_args = {"-nodebuglogfile", "-nodebug"};
    opts.min_validation_cache = true; // avoids initialising 32 MiB of signature/script caches per node (slow under TSan)
    TestChain100Setup setup{ChainType::REGTEST, opts};
    setup.mineBlocks(12);
    ChainstateManager& chainman = *setup.m_node.chainman;
    auto mining = interfaces::MakeMining(setup.m_node);
    const CScript p2pk = CScript() << ToByteVector(setup.coinbaseKey.GetPubKey()) << OP_CHECKSIG;
    setup.m_node.validation_signals->SyncWithValidationInterfaceQueue();

    Recorder rec;
    rec.c = c;
    setup.m_node.validation_signals->RegisterValidationInterface(&rec);
    e7::Begin(args.seed * 131 + c, prob);

    std::vector<std::string> drv; // driver records (main thread)
    auto tip_hash = [&] { return WITH_LOCK(cs_main, return chainman.ActiveChain().Tip()->GetBlockHash().ToString()); };
    const int base_height = WITH_LOCK(cs_main, return chainman.ActiveChain().Height());
    drv.push_back(vh::J().u("case", c).str("d", "init").str("tip", tip_hash()).i("height", base_height).i("cpus", ncpu).u("prob", prob).done());

    // spendable outputs: two disjoint pools so that the two driver threads never touch the same harness data
    std::vector<Spend> pool_main, pool_sub;
    for (int i = 0; i < 12; ++i) {
        Spend s{setup.m_coinbase_txns[i], 0, i + 1, setup.m_coinbase_txns[i]->vout[0].nValue};
        (i % 2 ? pool_main : pool_sub).push_back(s);
    }
    std::vector<uint256> invalidated; // blocks currently marked invalid by the driver
    std::vector<uint256> own_blocks;  // blocks connected by this driver, in connection order (may be inactive now)

    auto make_tx = [&](const Spend& sp, CAmount fee) {
        CMutableTransaction mtx = setup.CreateValidMempoolTransaction(sp.tx, sp.vout, sp.height, setup.coinbaseKey, p2pk, sp.value - fee, /*submit=*/false);
        return MakeTransactionRef(mtx);
    };
    auto note_block = [&](const CBlock& b, const char* how) {
        drv.push_back(vh::J().u("case", c).str("d", "block").str("how", how).str("hash", b.GetHash().ToString()).str("prev", b.hashPrevBlock.ToString()).raw("txs", TxList(b, false)).done());
    };
    auto sample = [&](const char* after) {
        drv.push_back(vh::J().u("case", c).str("d", "tip").str("after", after).str("tip", tip_hash()).done());
    };

    for (int ph = 0; ph < n_phases; ++ph) {
        // ---- concurrent submitter ----------------------------------------------------------------------------------------------
        std::vector<std::string> sub_log;
        std::vector<Spend> sub_new;
        const int n_sub = rng.range(3, 10);
        std::thread submitter([&, ph] {
            vh::Rng r(args.seed, c * 1000 + 100 + ph);
            std::vector<Spend> spent_once; // for double spends / replacements
            for (int i = 0; i < n_sub; ++i) {
                RealSleepUs(r.range(0, 15000));
                Spend sp;
                bool dbl = false;
                if (!spent_once.empty() && r.chance(1, 4)) {
                    sp = r.pick(spent_once);
                    dbl = true;
                } else if (!pool_sub.empty()) {
                    const size_t k = r.below(pool_sub.size());
                    sp = pool_sub[k];
                    pool_sub.erase(pool_sub.begin() + k);
                } else {
                    break;
                }
                static const CAmount FEES[] = {2000, 10000, 50000, 300000, 2000000};
                const CAmount fee = FEES[r.below(5)] + (dbl ? static_cast<CAmount>(r.below(1000)) : 0);
                if (sp.value <= fee + 1000) continue;
                CTransactionRef tx = make_tx(sp, fee);
                e7::PointId(H_SUB_B);
                bool ok;
                std::string why;
                {
                    LOCK(cs_main);
                    const MempoolAcceptResult res = chainman.ProcessTransaction(tx);
                    ok = res.m_result_type == MempoolAcceptResult::ResultType::VALID;
                    if (!ok) why = res.m_state.GetRejectReason();
                }
                e7::PointId(H_SUB_E);
                sub_log.push_back(vh::J().u("case", c).str("d", "submit").str("txid", tx->GetHash().ToString()).str("wtxid", tx->GetWitnessHash().ToString()).b("accepted", ok).b("double_spend", dbl).str("why", why).done());
                if (!dbl) spent_once.push_back(sp);
                if (ok) sub_new.push_back(Spend{tx, 0, 0, sp.value - fee});
            }
        });

        // ---- main driver: chain operations ------------------------------------------------------------------------------------------
        const int n_ops = rng.range(2, 6);
        for (int op = 0; op < n_ops; ++op) {
            RealSleepUs(rng.range(0, 20000));
            const int height = WITH_LOCK(cs_main, return chainman.ActiveChain().Height());
            const size_t kind = rng.weighted({40, 15, 25, 20});
            e7::PointId(H_DRV_B);
            if (kind == 0 || (kind == 2 && height <= base_height) || (kind == 3 && invalidated.empty())) {
                // block built from the mempool through the mining interface
                auto t = mining->createNewBlock({.use_mempool = !rng.chance(1, 5)}, /*cooldown=*/false);
                CBlock block = t->getBlock();
                block.hashMerkleRoot = BlockMerkleRoot(block);
                while (!CheckProofOfWork(block.GetHash(), block.nBits, chainman.GetConsensus())) ++block.nNonce;
                note_block(block, "template");
                auto sp = std::make_shared<const CBlock>(block);
                chainman.ProcessNewBlock(sp, true, true, nullptr);
                own_blocks.push_back(sp->GetHash());
                setup.m_clock += std::chrono::seconds{1};
                sample("mine");
                vh::log().obs("blocks_mined");
            } else if (kind == 1) {
                // block carrying a transaction that is not in the mempool and may conflict with mempool transactions
                std::vector<CMutableTransaction> txs;
                if (!pool_main.empty()) {
                    const size_t k = rng.below(pool_main.size());
                    Spend sp = pool_main[k];
                    pool_main.erase(pool_main.begin() + k);
                    CTransactionRef in_pool = make_tx(sp, 3000 + rng.below(500));
                    bool ok = false;
                    if (rng.chance(2, 3)) {
                        LOCK(cs_main);
                        ok = chainman.ProcessTransaction(in_pool).m_result_type == MempoolAcceptResult::ResultType::VALID;
                        drv.push_back(vh::J().u("case", c).str("d", "submit").str("txid", in_pool->GetHash().ToString()).str("wtxid", in_pool->GetWitnessHash().ToString()).b("accepted", ok).b("double_spend", false).str("why", "").done());
                    }
                    CTransactionRef in_block = make_tx(sp, 7000 + rng.below(500));
                    drv.push_back(vh::J().u("case", c).str("d", "blocktx").str("txid", in_block->GetHash().ToString()).str("wtxid", in_block->GetWitnessHash().ToString()).b("conflicts_with_pool", ok).done());
                    txs.emplace_back(*in_block);
                    pool_main.push_back(Spend{in_block, 0, 0, sp.value - 7500});
                    if (ok) vh::log().obs("conflict_blocks");
                }
                const CBlock block = setup.CreateBlock(txs, p2pk);
                note_block(block, "explicit");
                auto sp = std::make_shared<const CBlock>(block);
                chainman.ProcessNewBlock(sp, true, true, nullptr);
                own_blocks.push_back(sp->GetHash());
                setup.m_clock += std::chrono::seconds{1};
                sample("mine-explicit");
                vh::log().obs("blocks_mined");
            } else if (kind == 2) {
                // invalidate one of the last blocks connected by this driver (depth 1..3): disconnects, re-adds transactions
                const int depth = static_cast<int>(std::min<int64_t>(rng.range(1, 3), height - base_height));
                CBlockIndex* target;
                {
                    LOCK(cs_main);
                    target = chainman.ActiveChain()[height - depth + 1];
                }
                drv.push_back(vh::J().u("case", c).str("d", "invalidate").str("hash", target->GetBlockHash().ToString()).i("depth", depth).done());
                BlockValidationState state;
                chainman.ActiveChainstate().InvalidateBlock(state, target);
                if (state.IsValid()) chainman.ActiveChainstate().ActivateBestChain(state);
                invalidated.push_back(target->GetBlockHash());
                sample("invalidate");
                vh::log().obs("invalidate_calls");
            } else {
                // reconsider: the old branch comes back if it has more work than what was built meanwhile
                const size_t k = rng.below(invalidated.size());
                const uint256 h = invalidated[k];
                invalidated.erase(invalidated.begin() + k);
                drv.push_back(vh::J().u("case", c).str("d", "reconsider").str("hash", h.ToString()).done());
                {
                    LOCK(cs_main);
                    CBlockIndex* pi = chainman.m_blockman.LookupBlockIndex(h);
                    chainman.ActiveChainstate().ResetBlockFailureFlags(pi);
                    chainman.RecalculateBestHeader();
                }
                BlockValidationState state;
                chainman.ActiveChainstate().ActivateBestChain(state);
                sample("reconsider");
                vh::log().obs("reconsider_calls");
            }
            e7::PointId(H_DRV_E);
        }
        submitter.join();
        for (auto& s : sub_log) drv.push_back(s);
        for (auto& s : sub_new) pool_sub.push_back(s);
        // ---- quiescent point: drain and compare ---------------------------------------------------------------------------------
        setup.m_node.validation_signals->SyncWithValidationInterfaceQueue();
        size_t n_ev;
        {
            std::lock_guard<std::mutex> l(rec.mu);
            n_ev = rec.ev.size();
        }
        std::vector<std::string> pool_now;
        {
            LOCK2(cs_main, setup.m_node.mempool->cs);
            for (const auto& e : setup.m_node.mempool->entryAll()) pool_now.push_back(vh::JStr(e.get().GetTx().GetHash().ToString()));
        }
        std::sort(pool_now.begin(), pool_now.end());
        drv.push_back(vh::J().u("case", c).str("d", "drain").u("events_so_far", n_ev).str("tip", tip_hash()).raw("mempool", vh::JArr(pool_now)).done());
    }
    setup.m_node.validation_signals->UnregisterValidationInterface(&rec);
    setup.m_node.validation_signals->SyncWithValidationInterfaceQueue();

    for (auto& s : drv) vh::log().line(s);
    {
        std::lock_guard<std::mutex> l(rec.mu);
        for (auto& s : rec.ev) vh::log().line(s);
    }
    const auto evs = e7::Collect();
    const uint64_t fp = e7::Fingerprint(evs);
    vh::log().obs("perturbations", e7::g_perturbations.exchange(0));
    vh::log().rec(vh::J().u("case", c).str("d", "case_end").u("notifications", rec.ev.size()).str("fp", vh::Hex(reinterpret_cast<const unsigned char*>(&fp), 8)));
    aff.Restore();
    return 0;
}

} // namespace

VH_CMD(c63_notify)
{
    e7::Affinity aff;
    for (uint64_t c = args.from; c < args.to; ++c) {
        vh::set_case(c);
        RunCase(args, c, aff);
    }
    return 0;
}
