// C11 (engine E5 family `flags`): script verification flags behave as soft forks.
// One case = one spend (structured template with a valid or deliberately flawed variant, or a random opcode soup).
// The spend is evaluated under many valid flag sets: random pairs A subset-of B, every single-bit removal from the full /
// standard sets, the standard (policy) set and the consensus set of the next block (the node's own GetBlockScriptFlags on a
// regtest chain).  Every evaluation is done twice (a checker object that lives for the whole case, and a fresh one) to observe
// determinism of result and ScriptError.  The harness only records; the implications are checked offline (checks/C11.py).
#include <common/vh.h>
#include <e5_spend.h>

#include <chain.h>
#include <policy/policy.h>
#include <test/util/setup_common.h>
#include <validation.h>

#include <functional>
#include <map>

using namespace e5;

namespace {

constexpr uint64_t ALL_FLAGS = MAX_SCRIPT_VERIFY_FLAGS;
constexpr uint64_t F_P2SH = uint64_t{1} << static_cast<uint8_t>(SCRIPT_VERIFY_P2SH);
constexpr uint64_t F_WITNESS = uint64_t{1} << static_cast<uint8_t>(SCRIPT_VERIFY_WITNESS);
constexpr uint64_t F_CLEANSTACK = uint64_t{1} << static_cast<uint8_t>(SCRIPT_VERIFY_CLEANSTACK);

// the interpreter's own preconditions (asserted inside VerifyScript): CLEANSTACK => P2SH & WITNESS, WITNESS => P2SH
bool ValidFlags(uint64_t f)
{
    if ((f & F_CLEANSTACK) && (~f & (F_P2SH | F_WITNESS))) return false;
    if ((f & F_WITNESS) && !(f & F_P2SH)) return false;
    return true;
}
uint64_t Trim(uint64_t f)
{
    if (!(f & F_P2SH)) f &= ~F_WITNESS;
    if (!(f & F_WITNESS)) f &= ~F_CLEANSTACK;
    return f;
}
uint64_t Fill(uint64_t f)
{
    if (f & F_CLEANSTACK) f |= F_WITNESS;
    if (f & F_WITNESS) f |= F_P2SH;
    return f;
}

uint64_t RandBits(vh::Rng& rng, unsigned density_16) // each bit set with probability density/16
{
    uint64_t v = 0;
    for (int i = 0; i < MAX_SCRIPT_VERIFY_FLAGS_BITS; ++i) {
        if (rng.below(16) < density_16) v |= uint64_t{1} << i;
    }
    return v;
}

enum class Q { GOOD, HIGH_S, PADDED, UNDEF_HT, WRONG, EMPTY, OTHER_HT };

struct Ctx {
    vh::Rng& rng;
    CMutableTransaction tx;
    std::vector<CTxOut> spent;
    unsigned nIn{0};
    std::string tpl, var;
    std::vector<CKey> keys;

    explicit Ctx(vh::Rng& r) : rng(r) {}
    CTxIn& in() { return tx.vin[nIn]; }
    CTxOut& out() { return spent[nIn]; }
    void name(const std::string& t, const std::string& v) { tpl = t; var = v; }
    void addvar(const std::string& v) { var += (var.empty() ? "" : "+") + v; }

    CKey NewKey(bool compressed = true)
    {
        keys.push_back(RandCKey(rng, compressed));
        return keys.back();
    }

    valtype Ecdsa(const CKey& key, const CScript& script_code, SigVersion sv, Q q = Q::GOOD)
    {
        if (q == Q::EMPTY) return {};
        int ht = SIGHASH_ALL;
        if (q == Q::UNDEF_HT) {
            static const int U[] = {0, 4, 0x41, 0x50, 0xff};
            ht = U[rng.below(5)];
        } else if (q == Q::OTHER_HT || rng.chance(1, 6)) {
            static const int D[] = {1, 2, 3, 0x81, 0x82, 0x83};
            ht = D[rng.below(6)];
        }
        uint256 digest = SignatureHash(script_code, tx, nIn, ht, out().nValue, sv);
        if (q == Q::WRONG) digest.begin()[rng.below(32)] ^= 0x04;
        valtype sig;
        key.Sign(digest, sig);
        if (q == Q::HIGH_S) sig = NegateS(sig);
        if (q == Q::PADDED) sig = PadR(sig);
        sig.push_back(static_cast<unsigned char>(ht));
        return sig;
    }

    // BIP341/342 signature; ht < 0: 64-byte signature. merkle_root as for CKey::SignSchnorr.
    valtype Schnorr(const CKey& key, const uint256* merkle_root, int ht, const std::optional<valtype>& annex, const std::optional<uint256>& leaf, uint32_t cpos, bool wrong = false)
    {
        const CTransaction ctx{tx};
        PrecomputedTransactionData txdata;
        txdata.Init(ctx, std::vector<CTxOut>{spent}, /*force=*/true);
        ScriptExecutionData ed = MakeExecData(annex, leaf, cpos);
        uint256 digest;
        const int eff = ht < 0 ? 0 : ht;
        if (!SignatureHashSchnorr(digest, ed, ctx, nIn, static_cast<uint8_t>(eff), leaf ? SigVersion::TAPSCRIPT : SigVersion::TAPROOT, txdata, MissingDataBehavior::FAIL)) {
            ScriptExecutionData ed2 = MakeExecData(annex, leaf, cpos);
            if (!SignatureHashSchnorr(digest, ed2, ctx, nIn, (eff & 0x80) | 1, leaf ? SigVersion::TAPSCRIPT : SigVersion::TAPROOT, txdata, MissingDataBehavior::FAIL)) digest = RandU256(rng);
        }
        if (wrong) digest.begin()[rng.below(32)] ^= 0x04;
        valtype sig = SignSchnorrRaw(key, digest, merkle_root, RandU256(rng));
        if (ht >= 0) sig.push_back(static_cast<unsigned char>(ht));
        return sig;
    }
};

Q RandQ(vh::Rng& rng)
{
    switch (rng.below(12)) {
    case 0: return Q::HIGH_S;
    case 1: return Q::PADDED;
    case 2: return Q::UNDEF_HT;
    case 3: return Q::WRONG;
    case 4: return Q::OTHER_HT;
    default: return Q::GOOD;
    }
}
const char* QName(Q q)
{
    switch (q) {
    case Q::GOOD: return "good";
    case Q::HIGH_S: return "high_s";
    case Q::PADDED: return "nonder";
    case Q::UNDEF_HT: return "undef_ht";
    case Q::WRONG: return "wrongsig";
    case Q::EMPTY: return "emptysig";
    case Q::OTHER_HT: return "other_ht";
    }
    return "?";
}

valtype ScriptNum(int64_t n) { return CScriptNum::serialize(n); }

// ---------------------------------------------------------------------------------------------------------------
// random opcode soup
CScript Soup(Ctx& c, size_t maxops, bool tapscript)
{
    vh::Rng& rng = c.rng;
    CScript s;
    static const opcodetype STACK[] = {OP_DUP, OP_DROP, OP_SWAP, OP_OVER, OP_ROT, OP_2DUP, OP_2DROP, OP_NIP, OP_TUCK, OP_DEPTH, OP_SIZE, OP_IFDUP, OP_TOALTSTACK, OP_FROMALTSTACK, OP_PICK, OP_ROLL, OP_3DUP, OP_2SWAP, OP_2OVER, OP_2ROT};
    static const opcodetype ARITH[] = {OP_1ADD, OP_1SUB, OP_NEGATE, OP_ABS, OP_NOT, OP_0NOTEQUAL, OP_ADD, OP_SUB, OP_BOOLAND, OP_BOOLOR, OP_NUMEQUAL, OP_NUMEQUALVERIFY, OP_NUMNOTEQUAL, OP_LESSTHAN, OP_GREATERTHAN, OP_MIN, OP_MAX, OP_WITHIN, OP_EQUAL, OP_EQUALVERIFY, OP_VERIFY};
    static const opcodetype CRYPTO[] = {OP_RIPEMD160, OP_SHA1, OP_SHA256, OP_HASH160, OP_HASH256, OP_CHECKSIG, OP_CHECKSIGVERIFY, OP_CHECKMULTISIG, OP_CHECKMULTISIGVERIFY, OP_CODESEPARATOR, OP_CHECKSIGADD};
    static const opcodetype NOPS[] = {OP_NOP, OP_NOP1, OP_CHECKLOCKTIMEVERIFY, OP_CHECKSEQUENCEVERIFY, OP_NOP4, OP_NOP5, OP_NOP6, OP_NOP7, OP_NOP8, OP_NOP9, OP_NOP10};
    const size_t n = 1 + rng.below(maxops);
    int open_ifs = 0;
    for (size_t i = 0; i < n; ++i) {
        switch (rng.weighted({30, 10, 18, 14, 6, 8, 8, 2, 2, 2})) {
        case 0: s << static_cast<opcodetype>(rng.chance(1, 6) ? uint64_t{OP_0} : rng.chance(1, 8) ? uint64_t{OP_1NEGATE} : OP_1 + rng.below(16)); break;
        case 1: {
            valtype d = rng.bytes(rng.chance(1, 2) ? rng.below(5) : rng.below(40));
            if (rng.chance(1, 8)) {
                // non-minimal push
                s.push_back(OP_PUSHDATA1);
                s.push_back(static_cast<unsigned char>(d.size()));
                s.insert(s.end(), d.begin(), d.end());
            } else {
                s << d;
            }
            break;
        }
        case 2: s << STACK[rng.below(sizeof(STACK) / sizeof(STACK[0]))]; break;
        case 3: s << ARITH[rng.below(sizeof(ARITH) / sizeof(ARITH[0]))]; break;
        case 4: s << CRYPTO[rng.below(sizeof(CRYPTO) / sizeof(CRYPTO[0]))]; break;
        case 5: s << NOPS[rng.below(sizeof(NOPS) / sizeof(NOPS[0]))]; break;
        case 6:
            if (open_ifs > 0 && rng.coin()) {
                s << (rng.chance(1, 3) ? OP_ELSE : OP_ENDIF);
                if (s.back() == OP_ENDIF) --open_ifs;
            } else {
                s << (rng.coin() ? OP_IF : OP_NOTIF);
                ++open_ifs;
            }
            break;
        case 7: s.push_back(static_cast<unsigned char>(0x4f + rng.below(0x100 - 0x4f))); break; // anything, incl. disabled / OP_SUCCESSx / invalid
        case 8: s << OP_RETURN; break;
        case 9:
            if (tapscript) s.push_back(static_cast<unsigned char>(rng.chance(1, 2) ? 0x50 : 187 + rng.below(60)));
            else s << OP_VERIF;
            break;
        }
    }
    while (open_ifs-- > 0 && rng.chance(7, 8)) s << OP_ENDIF;
    if (rng.chance(1, 2)) s << OP_1;
    return s;
}

std::vector<valtype> SoupStack(vh::Rng& rng)
{
    std::vector<valtype> st;
    const size_t n = rng.below(5);
    for (size_t i = 0; i < n; ++i) {
        switch (rng.below(5)) {
        case 0: st.push_back({}); break;
        case 1: st.push_back({1}); break;
        case 2: st.push_back(ScriptNum(rng.range(-3, 20))); break;
        case 3: st.push_back({static_cast<unsigned char>(rng.below(256)), 0}); break; // often a non-minimal number / non-minimal bool
        default: st.push_back(rng.bytes(rng.below(34))); break;
        }
    }
    return st;
}

// ---------------------------------------------------------------------------------------------------------------
// inner scripts for the ECDSA sigversions: script + function that produces the satisfying stack (bottom first)
struct Inner {
    std::string name, var;
    CScript script;
    std::function<std::vector<valtype>(Ctx&, SigVersion)> sat;
};

Inner MakeInner(Ctx& c, SigVersion sv)
{
    vh::Rng& rng = c.rng;
    Inner in;
    const bool v0 = sv == SigVersion::WITNESS_V0;
    const bool compressed = v0 ? !rng.chance(1, 8) : !rng.chance(1, 3);
    switch (rng.below(16)) {
    case 0: { // single key, signature quality variants
        CKey k = c.NewKey(compressed);
        valtype pub = PubBytes(k.GetPubKey());
        in.name = "pk";
        if (!v0 && rng.chance(1, 8)) { pub = HybridPub(k); in.var = "hybridkey"; }
        if (!compressed) in.var += "uncompressed";
        in.script = CScript() << pub << OP_CHECKSIG;
        const Q q = RandQ(rng);
        in.var += std::string(in.var.empty() ? "" : "+") + QName(q);
        const CScript sc = in.script;
        in.sat = [k, q, sc](Ctx& c, SigVersion sv) { return std::vector<valtype>{c.Ecdsa(k, sc, sv, q)}; };
        break;
    }
    case 1: { // pubkey hash
        CKey k = c.NewKey(compressed);
        const valtype pub = PubBytes(k.GetPubKey());
        in.name = "pkh";
        const bool wrong_hash = rng.chance(1, 8);
        in.var = wrong_hash ? "wronghash" : "ok";
        valtype h = Hash160Of(pub);
        if (wrong_hash) h[3] ^= 1;
        in.script = CScript() << OP_DUP << OP_HASH160 << h << OP_EQUALVERIFY << OP_CHECKSIG;
        const Q q = RandQ(rng);
        in.var += std::string("+") + QName(q);
        const CScript sc = in.script;
        in.sat = [k, q, sc, pub](Ctx& c, SigVersion sv) { return std::vector<valtype>{c.Ecdsa(k, sc, sv, q), pub}; };
        break;
    }
    case 2: case 3: { // k-of-n multisig, optionally negated
        const int n = 1 + static_cast<int>(rng.below(3));
        const int k = 1 + static_cast<int>(rng.below(n));
        std::vector<CKey> ks;
        CScript s;
        s << static_cast<opcodetype>(OP_1 + k - 1);
        for (int i = 0; i < n; ++i) {
            ks.push_back(c.NewKey(v0 ? true : !rng.chance(1, 4)));
            s << PubBytes(ks.back().GetPubKey());
        }
        s << static_cast<opcodetype>(OP_1 + n - 1) << OP_CHECKMULTISIG;
        const int mode = static_cast<int>(rng.below(8)); // 0-2 ok, 3 non-null dummy, 4 wrong order, 5 negated with bad sig, 6 missing sig, 7 high-S
        in.name = "multisig";
        static const char* MN[] = {"ok", "ok", "ok", "nonnull_dummy", "wrong_order", "not_badsig", "missing_sig", "high_s"};
        in.var = MN[mode];
        if (mode == 5) s << OP_NOT;
        in.script = s;
        const CScript sc = s;
        in.sat = [ks, k, n, mode, sc](Ctx& c, SigVersion sv) {
            std::vector<valtype> st;
            st.push_back(mode == 3 ? valtype{static_cast<unsigned char>(1 + c.rng.below(255))} : valtype{});
            std::vector<int> idx;
            for (int i = 0; i < n && static_cast<int>(idx.size()) < k; ++i) idx.push_back(i);
            if (mode == 4 && k >= 2) std::swap(idx[0], idx[1]);
            if (mode == 6) idx.pop_back();
            for (size_t j = 0; j < idx.size(); ++j) {
                Q q = Q::GOOD;
                if (mode == 5 && j == 0) q = c.rng.coin() ? Q::WRONG : Q::EMPTY;
                if (mode == 7 && j == 0) q = Q::HIGH_S;
                st.push_back(c.Ecdsa(ks[idx[j]], sc, sv, q));
            }
            return st;
        };
        break;
    }
    case 4: { // CHECKSIG NOT with a failing signature (NULLFAIL)
        CKey k = c.NewKey();
        in.name = "pk_not";
        in.script = CScript() << PubBytes(k.GetPubKey()) << OP_CHECKSIG << OP_NOT;
        const Q q = rng.chance(2, 3) ? Q::WRONG : Q::EMPTY;
        in.var = QName(q);
        const CScript sc = in.script;
        in.sat = [k, q, sc](Ctx& c, SigVersion sv) { return std::vector<valtype>{c.Ecdsa(k, sc, sv, q)}; };
        break;
    }
    case 5: case 6: { // CLTV / CSV
        const bool cltv = rng.coin();
        CKey k = c.NewKey();
        in.name = cltv ? "cltv" : "csv";
        const int mode = static_cast<int>(rng.below(6)); // 0,1 satisfied; 2 unsatisfied; 3 negative; 4 type mismatch; 5 final sequence / disable flag / version 1
        static const char* MN[] = {"satisfied", "satisfied", "unsatisfied", "negative", "type_mismatch", "disabled_or_final"};
        in.var = MN[mode];
        int64_t operand;
        if (cltv) {
            const bool time = rng.coin();
            const uint32_t base = time ? LOCKTIME_THRESHOLD + static_cast<uint32_t>(rng.below(1000000)) : static_cast<uint32_t>(1 + rng.below(400000));
            c.tx.nLockTime = base;
            c.in().nSequence = rng.chance(1, 2) ? 0xfffffffe : static_cast<uint32_t>(rng.below(0xffffffff));
            operand = base - static_cast<int64_t>(rng.below(std::min<uint32_t>(base - (time ? LOCKTIME_THRESHOLD : 0), 1000) + 1));
            if (mode == 2) operand = int64_t{base} + 1 + rng.below(100);
            if (mode == 3) operand = -static_cast<int64_t>(1 + rng.below(100));
            if (mode == 4) operand = time ? static_cast<int64_t>(rng.below(LOCKTIME_THRESHOLD)) : int64_t{LOCKTIME_THRESHOLD} + rng.below(1000);
            if (mode == 5) c.in().nSequence = 0xffffffff;
        } else {
            const bool time = rng.coin();
            const uint32_t val = static_cast<uint32_t>(1 + rng.below(0xfffe));
            c.tx.version = rng.chance(1, 2) ? 2 : 3;
            c.in().nSequence = val | (time ? CTxIn::SEQUENCE_LOCKTIME_TYPE_FLAG : 0);
            operand = (val - rng.below(std::min<uint32_t>(val, 100))) | (time ? CTxIn::SEQUENCE_LOCKTIME_TYPE_FLAG : 0);
            if (mode == 2) {
                operand = (std::min<uint32_t>(val + 1 + rng.below(50), 0xffff)) | (time ? CTxIn::SEQUENCE_LOCKTIME_TYPE_FLAG : 0);
                c.in().nSequence = (val - 1) | (time ? CTxIn::SEQUENCE_LOCKTIME_TYPE_FLAG : 0);
            }
            if (mode == 3) operand = -static_cast<int64_t>(1 + rng.below(100));
            if (mode == 4) operand = val | (time ? 0 : CTxIn::SEQUENCE_LOCKTIME_TYPE_FLAG);
            if (mode == 5) {
                switch (rng.below(3)) {
                case 0: c.tx.version = 1; break;
                case 1: c.in().nSequence |= CTxIn::SEQUENCE_LOCKTIME_DISABLE_FLAG; break;
                default: operand |= int64_t{CTxIn::SEQUENCE_LOCKTIME_DISABLE_FLAG}; break; // operand with disable flag: NOP
                }
            }
        }
        valtype opnd = ScriptNum(operand);
        if (rng.chance(1, 10)) { opnd.push_back(0); if (opnd.size() >= 2 && (opnd[opnd.size() - 2] & 0x80)) { opnd[opnd.size() - 2] &= 0x7f; opnd.back() = 0x80; } in.var += "+nonminimal_operand"; }
        in.script = CScript() << opnd << (cltv ? OP_CHECKLOCKTIMEVERIFY : OP_CHECKSEQUENCEVERIFY) << OP_DROP << PubBytes(k.GetPubKey()) << OP_CHECKSIG;
        const CScript sc = in.script;
        in.sat = [k, sc](Ctx& c, SigVersion sv) { return std::vector<valtype>{c.Ecdsa(k, sc, sv, Q::GOOD)}; };
        break;
    }
    case 7: { // upgradable NOPs
        CKey k = c.NewKey();
        static const opcodetype N[] = {OP_NOP1, OP_NOP4, OP_NOP5, OP_NOP6, OP_NOP7, OP_NOP8, OP_NOP9, OP_NOP10, OP_NOP};
        const opcodetype nop = N[rng.below(9)];
        in.name = "nop";
        const bool unexecuted = rng.chance(1, 4);
        in.var = nop == OP_NOP ? "plain_nop" : unexecuted ? "unexecuted_upgradable" : "upgradable";
        CScript s;
        if (unexecuted) s << OP_0 << OP_IF << nop << OP_ENDIF; else s << nop;
        s << PubBytes(k.GetPubKey()) << OP_CHECKSIG;
        in.script = s;
        const CScript sc = s;
        in.sat = [k, sc](Ctx& c, SigVersion sv) { return std::vector<valtype>{c.Ecdsa(k, sc, sv, Q::GOOD)}; };
        break;
    }
    case 8: { // IF with minimal / non-minimal argument
        CKey k1 = c.NewKey(), k2 = c.NewKey();
        in.name = "if";
        in.script = CScript() << OP_IF << PubBytes(k1.GetPubKey()) << OP_CHECKSIG << OP_ELSE << PubBytes(k2.GetPubKey()) << OP_CHECKSIG << OP_ENDIF;
        const int mode = static_cast<int>(rng.below(5));
        static const char* MN[] = {"true_minimal", "false_minimal", "true_nonminimal", "true_nonminimal_long", "false_nonminimal"};
        in.var = MN[mode];
        const CScript sc = in.script;
        in.sat = [k1, k2, mode, sc](Ctx& c, SigVersion sv) {
            static const valtype ARG[] = {{1}, {}, {2}, {1, 0, 0}, {0}};
            const bool t = mode == 0 || mode == 2 || mode == 3;
            return std::vector<valtype>{c.Ecdsa(t ? k1 : k2, sc, sv, Q::GOOD), ARG[mode]};
        };
        break;
    }
    case 9: { // OP_CODESEPARATOR (CONST_SCRIPTCODE in base scripts)
        CKey k = c.NewKey();
        in.name = "codesep";
        const bool after_key = rng.coin();
        in.var = after_key ? "after_key" : "before_key";
        const valtype pub = PubBytes(k.GetPubKey());
        CScript sc;
        if (after_key) { in.script = CScript() << pub << OP_CODESEPARATOR << OP_CHECKSIG; sc = CScript() << OP_CHECKSIG; }
        else { in.script = CScript() << OP_NOP << OP_CODESEPARATOR << pub << OP_CHECKSIG; sc = CScript() << pub << OP_CHECKSIG; }
        in.sat = [k, sc](Ctx& c, SigVersion sv) { return std::vector<valtype>{c.Ecdsa(k, sc, sv, Q::GOOD)}; };
        break;
    }
    case 10: { // numbers and pushes inside the script: minimal / non-minimal
        in.name = "minimaldata";
        const int mode = static_cast<int>(rng.below(5));
        static const char* MN[] = {"nonminimal_number", "nonminimal_push", "push_of_small_int", "minimal", "negative_zero"};
        in.var = MN[mode];
        CScript s;
        switch (mode) {
        case 0: s << valtype{5, 0} << OP_1ADD << OP_6 << OP_EQUAL; break;
        case 1: s.push_back(OP_PUSHDATA1); s.push_back(3); s.push_back(1); s.push_back(2); s.push_back(3); s << OP_DROP << OP_1; break;
        case 2: s.push_back(1); s.push_back(7); s << OP_7 << OP_EQUAL; break; // direct push of 0x07 instead of OP_7
        case 3: s << ScriptNum(1000) << OP_1ADD << ScriptNum(1001) << OP_EQUAL; break;
        default: s << valtype{0x80} << OP_NOT; break; // negative zero is false; as a number it is non-minimal
        }
        in.script = s;
        in.sat = [](Ctx&, SigVersion) { return std::vector<valtype>{}; };
        break;
    }
    case 11: { // extra stack items below / above (CLEANSTACK, implicit in witness)
        CKey k = c.NewKey();
        in.name = "extra_items";
        in.script = CScript() << PubBytes(k.GetPubKey()) << OP_CHECKSIG;
        const int extra = 1 + static_cast<int>(rng.below(2));
        in.var = "extra" + std::to_string(extra);
        const CScript sc = in.script;
        in.sat = [k, sc, extra](Ctx& c, SigVersion sv) {
            std::vector<valtype> st;
            for (int i = 0; i < extra; ++i) st.push_back(c.rng.coin() ? valtype{1} : c.rng.bytes(c.rng.below(5)));
            st.push_back(c.Ecdsa(k, sc, sv, Q::GOOD));
            return st;
        };
        break;
    }
    case 12: { // hash lock
        in.name = "hashlock";
        const valtype pre = rng.bytes(rng.below(40));
        const bool wrong = rng.chance(1, 4);
        in.var = wrong ? "wrong_preimage" : "ok";
        in.script = CScript() << OP_SHA256 << Sha256Of(pre) << OP_EQUAL;
        in.sat = [pre, wrong](Ctx&, SigVersion) { valtype p = pre; if (wrong) p.push_back(1); return std::vector<valtype>{p}; };
        break;
    }
    case 13: { // FindAndDelete hit: the signature push also appears in the script (only meaningful in base scripts)
        CKey k = c.NewKey();
        in.name = "findanddelete";
        in.var = v0 ? "v0_no_deletion" : "sig_in_script";
        const valtype pub = PubBytes(k.GetPubKey());
        // The script embeds the signature itself, so script and signature are produced together at satisfaction time: handled by the caller
        // through a two-step protocol: `script` holds the part without the signature; sat() returns {sig} and patches c via var.
        in.script = CScript() << OP_DROP << pub << OP_CHECKSIG;
        const CScript sc = in.script;
        in.sat = [k, sc](Ctx& c, SigVersion sv) { return std::vector<valtype>{c.Ecdsa(k, sc, sv, Q::GOOD)}; };
        break;
    }
    default: { // random opcode soup
        in.name = "soup";
        in.var = "random";
        in.script = Soup(c, 12, false);
        in.sat = [](Ctx& c, SigVersion) { return SoupStack(c.rng); };
        break;
    }
    }
    return in;
}

CScript PushStack(vh::Rng& rng, const std::vector<valtype>& st, std::string& var)
{
    CScript s;
    for (const auto& i : st) {
        if (!i.empty() && i.size() < 76 && rng.chance(1, 30)) {
            s.push_back(OP_PUSHDATA1);
            s.push_back(static_cast<unsigned char>(i.size()));
            s.insert(s.end(), i.begin(), i.end());
            var += "+nonminimal_scriptsig_push";
        } else {
            s << i;
        }
    }
    return s;
}

// wrappers around an inner script
void WrapEcdsa(Ctx& c)
{
    vh::Rng& rng = c.rng;
    const int wrap = static_cast<int>(rng.below(4)); // 0 bare, 1 p2sh, 2 p2wsh, 3 p2sh-p2wsh
    static const char* WN[] = {"bare", "p2sh", "p2wsh", "p2sh_p2wsh"};
    const SigVersion sv = wrap >= 2 ? SigVersion::WITNESS_V0 : SigVersion::BASE;
    Inner in = MakeInner(c, sv);
    c.name(std::string(WN[wrap]) + ":" + in.name, in.var);
    c.in().scriptSig.clear();
    c.in().scriptWitness.stack.clear();
    CScript script = in.script;
    std::vector<valtype> st = in.sat(c, sv);
    if (in.name == "findanddelete" && sv == SigVersion::BASE && !st.empty()) {
        CScript s2;
        s2 << st[0];
        s2.insert(s2.end(), script.begin(), script.end());
        script = s2; // <sig> DROP <pk> CHECKSIG, signed over the script without the signature push
    } else if (in.name == "findanddelete") {
        // witness v0 does not delete anything: sign the full script that embeds a dummy
        CScript s2;
        s2 << valtype{1, 2, 3};
        s2.insert(s2.end(), script.begin(), script.end());
        script = s2;
        const CKey k = c.keys.back();
        st = {c.Ecdsa(k, script, sv, Q::GOOD)};
    }
    switch (wrap) {
    case 0:
        c.out().scriptPubKey = script;
        c.in().scriptSig = PushStack(rng, st, c.var);
        if (rng.chance(1, 12)) { CScript p; p << OP_NOP; p.insert(p.end(), c.in().scriptSig.begin(), c.in().scriptSig.end()); c.in().scriptSig = p; c.addvar("nonpush_scriptsig"); }
        if (rng.chance(1, 12)) { c.in().scriptWitness.stack = {rng.bytes(1 + rng.below(4))}; c.addvar("unexpected_witness"); }
        break;
    case 1: {
        c.out().scriptPubKey = P2SHOf(script);
        st.push_back(ScriptBytes(script));
        if (rng.chance(1, 12)) { st.back().push_back(OP_NOP); c.addvar("redeem_mismatch"); }
        c.in().scriptSig = PushStack(rng, st, c.var);
        if (rng.chance(1, 12)) { CScript p; p << OP_1 << OP_DROP; p.insert(p.end(), c.in().scriptSig.begin(), c.in().scriptSig.end()); c.in().scriptSig = p; c.addvar("nonpush_scriptsig"); }
        if (rng.chance(1, 16)) { c.in().scriptWitness.stack = {rng.bytes(1 + rng.below(4))}; c.addvar("unexpected_witness"); }
        break;
    }
    case 2: case 3: {
        CScript prog = P2WSHOf(script);
        if (rng.chance(1, 12)) { prog[5] ^= 1; c.addvar("program_mismatch"); }
        if (rng.chance(1, 20)) { st.insert(st.begin(), valtype(521, 1)); c.addvar("oversize_item"); }
        st.push_back(ScriptBytes(script));
        c.in().scriptWitness.stack = st;
        if (wrap == 2) {
            c.out().scriptPubKey = prog;
            if (rng.chance(1, 12)) { c.in().scriptSig = CScript() << OP_1; c.addvar("nonempty_scriptsig"); }
        } else {
            c.out().scriptPubKey = P2SHOf(prog);
            c.in().scriptSig = CScript() << ScriptBytes(prog);
            const auto f = rng.below(14);
            if (f == 0) { CScript p; p.push_back(OP_PUSHDATA1); p.push_back(static_cast<unsigned char>(prog.size())); p.insert(p.end(), prog.begin(), prog.end()); c.in().scriptSig = p; c.addvar("malleated_redeem_push"); }
            if (f == 1) { CScript p; p << valtype{1}; p.insert(p.end(), c.in().scriptSig.begin(), c.in().scriptSig.end()); c.in().scriptSig = p; c.addvar("extra_scriptsig_item"); }
        }
        if (rng.chance(1, 16)) { c.in().scriptWitness.stack.clear(); c.addvar("empty_witness"); }
        break;
    }
    }
}

void TplP2WPKH(Ctx& c)
{
    vh::Rng& rng = c.rng;
    const bool wrapped = rng.chance(1, 3);
    const int mode = static_cast<int>(rng.below(8));
    static const char* MN[] = {"ok", "ok", "uncompressed", "nonempty_scriptsig", "wrongsig", "three_items", "high_s", "wrong_keyhash"};
    c.name(wrapped ? "p2sh_p2wpkh" : "p2wpkh", MN[mode]);
    CKey k = c.NewKey(mode != 2);
    const valtype pub = PubBytes(k.GetPubKey());
    CScript prog = P2WPKHOf(pub);
    if (mode == 7) prog[4] ^= 1;
    c.out().scriptPubKey = wrapped ? P2SHOf(prog) : prog;
    c.in().scriptSig = wrapped ? (CScript() << ScriptBytes(prog)) : CScript();
    c.in().scriptWitness.stack.clear();
    if (mode == 3) { if (wrapped) c.in().scriptSig << OP_NOP; else c.in().scriptSig << OP_1; }
    const Q q = mode == 4 ? Q::WRONG : mode == 6 ? Q::HIGH_S : RandQ(rng);
    if (mode != 4 && mode != 6 && q != Q::GOOD) c.addvar(QName(q));
    const valtype sig = c.Ecdsa(k, P2PKHOf(pub), SigVersion::WITNESS_V0, q);
    c.in().scriptWitness.stack = {sig, pub};
    if (mode == 5) c.in().scriptWitness.stack.insert(c.in().scriptWitness.stack.begin(), valtype{1});
}

void TplWitnessProgram(Ctx& c)
{
    vh::Rng& rng = c.rng;
    const int mode = static_cast<int>(rng.below(6));
    static const char* MN[] = {"future_version", "v1_not32", "v0_wrong_length", "p2a", "p2sh_wrapped_v1", "p2sh_wrapped_future"};
    c.name("witness_program", MN[mode]);
    CScript prog;
    switch (mode) {
    case 0: prog << static_cast<opcodetype>(OP_2 + rng.below(15)) << rng.bytes(2 + rng.below(39)); break;
    case 1: { size_t n; do { n = 2 + rng.below(39); } while (n == 32); prog << OP_1 << rng.bytes(n); break; }
    case 2: { size_t n; do { n = 2 + rng.below(39); } while (n == 32 || n == 20); prog << OP_0 << rng.bytes(n); break; }
    case 3: prog << OP_1 << valtype{0x4e, 0x73}; break;
    case 4: prog << OP_1 << rng.bytes(32); break;
    default: prog << static_cast<opcodetype>(OP_2 + rng.below(15)) << rng.bytes(2 + rng.below(39)); break;
    }
    const bool wrapped = mode >= 4;
    c.out().scriptPubKey = wrapped ? P2SHOf(prog) : prog;
    c.in().scriptSig = wrapped ? (CScript() << ScriptBytes(prog)) : CScript();
    c.in().scriptWitness.stack.clear();
    const auto w = rng.below(4);
    if (w == 1) { c.in().scriptWitness.stack = SoupStack(rng); c.addvar("with_witness"); }
    if (w == 2) { c.in().scriptWitness.stack = {rng.bytes(64)}; c.addvar("with_witness"); }
    if (rng.chance(1, 10)) { c.in().scriptSig << OP_1; c.addvar("extra_scriptsig"); }
}

void TplTaprootKey(Ctx& c)
{
    vh::Rng& rng = c.rng;
    const int mode = static_cast<int>(rng.below(10));
    static const char* MN[] = {"default", "default", "explicit_ht", "annex", "wrongsig", "undef_ht", "empty_witness", "ht_zero_explicit", "with_tree", "bad_size"};
    c.name("p2tr_key", MN[mode]);
    TapOut t;
    CKey k;
    do {
        k = c.NewKey();
        std::optional<std::pair<uint8_t, valtype>> leaf;
        std::vector<uint256> path;
        if (mode == 8) { leaf = std::make_pair(uint8_t{0xc0}, rng.bytes(1 + rng.below(20))); if (rng.coin()) path.push_back(RandU256(rng)); }
        t = MakeTaproot(XOnlyPubKey{k.GetPubKey()}, leaf, path);
    } while (t.spk.empty());
    c.out().scriptPubKey = t.spk;
    c.in().scriptSig.clear();
    c.in().scriptWitness.stack.clear();
    std::optional<valtype> annex;
    if (mode == 3 || rng.chance(1, 8)) annex = MakeAnnex(rng);
    static const int D[] = {1, 2, 3, 0x81, 0x82, 0x83};
    static const int U[] = {4, 0x80, 0x41, 0x84, 0xff};
    int ht = -1;
    if (mode == 2) ht = D[rng.below(6)];
    if (mode == 5) ht = U[rng.below(5)];
    if (mode == 7) ht = 0;
    const uint256 null_root;
    valtype sig = c.Schnorr(k, t.has_tree ? &t.merkle_root : &null_root, ht, annex, std::nullopt, 0xffffffff, mode == 4);
    if (mode == 9) { if (rng.coin()) sig.resize(63); else { sig.resize(64); sig.push_back(1); sig.push_back(1); } }
    if (mode != 6) c.in().scriptWitness.stack.push_back(sig);
    if (annex) { c.in().scriptWitness.stack.push_back(*annex); if (mode != 3) c.addvar("annex"); }
    if (rng.chance(1, 16)) { c.in().scriptSig << OP_1; c.addvar("nonempty_scriptsig"); }
}

void TplTapscript(Ctx& c)
{
    vh::Rng& rng = c.rng;
    const int mode = static_cast<int>(rng.below(16));
    static const char* MN[] = {"pk", "pk", "checksigadd", "op_success", "unknown_leaf_version", "unknown_pubkey_type", "wrongsig", "minimalif_violation",
                               "checkmultisig", "soup", "emptysig_not", "sigops_budget", "bad_control_size", "commitment_mismatch", "codesep", "undef_ht"};
    c.name("tapscript", MN[mode]);
    c.in().scriptSig.clear();
    c.in().scriptWitness.stack.clear();
    CKey internal = c.NewKey();
    std::vector<CKey> ks{c.NewKey(), c.NewKey(), c.NewKey()};
    CScript leaf;
    uint8_t leaf_ver = 0xc0;
    uint32_t cpos = 0xffffffff;
    switch (mode) {
    case 2: leaf << XOnlyBytes(ks[0]) << OP_CHECKSIG << XOnlyBytes(ks[1]) << OP_CHECKSIGADD << XOnlyBytes(ks[2]) << OP_CHECKSIGADD << OP_2 << OP_NUMEQUAL; break;
    case 3: { leaf = Soup(c, 6, true); leaf.push_back(static_cast<unsigned char>(rng.chance(1, 2) ? 0x50 : 187 + rng.below(68))); if (rng.coin()) { leaf.push_back(OP_PUSHDATA1); } break; }
    case 4: leaf_ver = static_cast<uint8_t>(rng.below(128) * 2); if (leaf_ver == 0xc0) leaf_ver = 0xc2; leaf = rng.coin() ? Soup(c, 6, true) : (CScript() << XOnlyBytes(ks[0]) << OP_CHECKSIG); break;
    case 5: leaf << rng.bytes(rng.coin() ? 33 : 1 + rng.below(31)) << OP_CHECKSIG; break;
    case 7: leaf << OP_IF << XOnlyBytes(ks[0]) << OP_CHECKSIG << OP_ELSE << OP_1 << OP_ENDIF; break;
    case 8: leaf << OP_0 << OP_0 << OP_0 << OP_CHECKMULTISIG << OP_NOT; break;
    case 9: leaf = Soup(c, 12, true); break;
    case 10: leaf << XOnlyBytes(ks[0]) << OP_CHECKSIG << OP_NOT; break;
    case 11: { const valtype unk = rng.bytes(2); for (int i = 0; i < 3; ++i) leaf << valtype{1} << unk << OP_CHECKSIGVERIFY; leaf << OP_1; break; }
    case 14: leaf << OP_NOP << OP_CODESEPARATOR << XOnlyBytes(ks[0]) << OP_CHECKSIG; cpos = 1; break;
    default: leaf << XOnlyBytes(ks[0]) << OP_CHECKSIG; break;
    }
    std::vector<uint256> path;
    for (size_t i = rng.below(4); i > 0; --i) path.push_back(RandU256(rng));
    TapOut t;
    do {
        t = MakeTaproot(XOnlyPubKey{internal.GetPubKey()}, std::make_pair(leaf_ver, ScriptBytes(leaf)), path);
        if (t.spk.empty()) internal = c.NewKey();
    } while (t.spk.empty());
    c.out().scriptPubKey = t.spk;
    std::optional<valtype> annex;
    if (rng.chance(1, 6)) { annex = MakeAnnex(rng); c.addvar("annex"); }
    static const int D[] = {-1, -1, 1, 2, 3, 0x81, 0x82, 0x83};
    const int ht = mode == 15 ? 0x84 : D[rng.below(8)];
    auto sign = [&](const CKey& k, bool wrong = false) { return c.Schnorr(k, nullptr, ht, annex, t.leaf_hash, cpos, wrong); };
    std::vector<valtype> st;
    switch (mode) {
    case 2: {
        const int skip = static_cast<int>(rng.below(4)); // which key does not sign (3: all sign -> 3 != 2 fails)
        for (int i = 2; i >= 0; --i) st.push_back(i == skip ? valtype{} : sign(ks[i]));
        c.addvar(skip == 3 ? "three_sigs" : "two_sigs");
        break;
    }
    case 3: case 9: st = SoupStack(rng); break;
    case 4: st = rng.coin() ? SoupStack(rng) : std::vector<valtype>{sign(ks[0])}; break;
    case 5: st = {rng.coin() ? valtype{1} : rng.bytes(64)}; break;
    case 6: st = {sign(ks[0], true)}; break;
    case 7: st = {sign(ks[0]), valtype{2}}; break;
    case 8: break;
    case 10: st = {rng.chance(2, 3) ? valtype{} : sign(ks[0], true)}; break;
    case 11: break;
    default: st = {sign(ks[0])}; break;
    }
    valtype control = t.control;
    if (mode == 12) { if (rng.coin()) control.push_back(0); else control.resize(control.size() > 33 ? control.size() - 1 : 32); }
    if (mode == 13) {
        const auto f = rng.below(3);
        if (f == 0) control[0] ^= 1;                       // parity bit
        else if (f == 1) control[1 + rng.below(32)] ^= 1;  // internal key
        else leaf.push_back(OP_NOP);                       // revealed script differs from the committed one
    }
    st.push_back(ScriptBytes(leaf));
    st.push_back(control);
    if (annex) st.push_back(*annex);
    c.in().scriptWitness.stack = st;
}

void TplPlainSoup(Ctx& c)
{
    vh::Rng& rng = c.rng;
    c.name("soup", "bare");
    c.out().scriptPubKey = Soup(c, 14, false);
    std::string v;
    c.in().scriptSig = rng.chance(1, 5) ? Soup(c, 5, false) : PushStack(rng, SoupStack(rng), v);
    c.in().scriptWitness.stack.clear();
    if (rng.chance(1, 8)) c.in().scriptWitness.stack = SoupStack(rng);
}

// generic after-the-fact damage
void GenericFlaw(Ctx& c)
{
    vh::Rng& rng = c.rng;
    auto& st = c.in().scriptWitness.stack;
    switch (rng.below(7)) {
    case 0:
        if (!st.empty()) { auto& it = st[rng.below(st.size())]; if (!it.empty()) { it[rng.below(it.size())] ^= static_cast<unsigned char>(1u << rng.below(8)); c.addvar("flaw:witness_bit"); } }
        break;
    case 1:
        if (!c.in().scriptSig.empty()) { c.in().scriptSig[rng.below(c.in().scriptSig.size())] ^= static_cast<unsigned char>(1u << rng.below(8)); c.addvar("flaw:scriptsig_bit"); }
        break;
    case 2:
        if (!st.empty()) { st.erase(st.begin() + rng.below(st.size())); c.addvar("flaw:witness_drop"); }
        break;
    case 3:
        st.insert(st.begin() + rng.below(st.size() + 1), rng.coin() ? valtype{1} : rng.bytes(rng.below(8))); c.addvar("flaw:witness_add");
        break;
    case 4:
        c.out().nValue ^= int64_t{1} << rng.below(30); c.addvar("flaw:amount");
        break;
    case 5:
        c.tx.nLockTime ^= 1; c.addvar("flaw:locktime");
        break;
    default:
        if (!c.out().scriptPubKey.empty()) { c.out().scriptPubKey[rng.below(c.out().scriptPubKey.size())] ^= static_cast<unsigned char>(1u << rng.below(8)); c.addvar("flaw:spk_bit"); }
        break;
    }
}

struct Res {
    bool ok;
    int err;
};

} // namespace

VH_CMD(flags)
{
    // A regtest node without extra blocks: the tip is the genesis block, the next block has height 1 where every buried
    // deployment of regtest is active, so GetBlockScriptFlags(next) is the full consensus set.
    TestingSetup setup{ChainType::REGTEST};
    uint64_t cons_tip, cons_next, cons_far;
    int tip_height;
    {
        LOCK(cs_main);
        ChainstateManager& cm = *setup.m_node.chainman;
        const CBlockIndex* tip = cm.ActiveChain().Tip();
        tip_height = tip->nHeight;
        cons_tip = GetBlockScriptFlags(*tip, cm).as_int();
        const uint256 fake_hash{uint256::ONE};
        CBlockIndex next;
        next.pprev = const_cast<CBlockIndex*>(tip);
        next.nHeight = tip->nHeight + 1;
        next.phashBlock = &fake_hash;
        cons_next = GetBlockScriptFlags(next, cm).as_int();
        CBlockIndex far;
        far.pprev = &next;
        far.nHeight = 1000000;
        far.phashBlock = &fake_hash;
        cons_far = GetBlockScriptFlags(far, cm).as_int();
    }
    const uint64_t std_flags = STANDARD_SCRIPT_VERIFY_FLAGS.as_int();
    const uint64_t mand_flags = MANDATORY_SCRIPT_VERIFY_FLAGS.as_int();
    vh::log().line(vh::J().b("meta", true).raw("flagbits", FlagBitsJson()).u("std", std_flags).u("mandatory", mand_flags).u("cons_tip", cons_tip).u("cons_next", cons_next).u("cons_far", cons_far).i("tip_height", tip_height).u("all", ALL_FLAGS).done());
    const int64_t npairs = args.geti("pairs", 64);

    for (uint64_t cidx = args.from; cidx < args.to; ++cidx) {
        vh::set_case(cidx);
        vh::Rng rng(args.seed, cidx);
        Ctx c{rng};
        const size_t nin = 1 + rng.below(3);
        c.tx = RandTx(rng, nin, nin, 1, 3, c.spent);
        if (rng.chance(3, 4)) c.tx.version = 2;
        c.nIn = static_cast<unsigned>(rng.below(nin));
        c.out().nValue = rng.range(0, MAX_MONEY);
        switch (cidx % 10) {
        case 0: case 1: case 2: case 3: WrapEcdsa(c); break;
        case 4: TplP2WPKH(c); break;
        case 5: TplWitnessProgram(c); break;
        case 6: TplTaprootKey(c); break;
        case 7: case 8: TplTapscript(c); break;
        default:
            if (rng.coin()) TplPlainSoup(c); else WrapEcdsa(c);
            break;
        }
        if (rng.chance(1, 5)) GenericFlaw(c);

        // persistent checker for the whole case
        const CTransaction tx{c.tx};
        PrecomputedTransactionData txdata;
        txdata.Init(tx, std::vector<CTxOut>{c.spent});
        const TransactionSignatureChecker checker{&tx, c.nIn, c.spent[c.nIn].nValue, txdata, MissingDataBehavior::ASSERT_FAIL};
        std::map<uint64_t, Res> memo;
        uint64_t nondet = 0;
        auto eval = [&](uint64_t f) -> Res {
            auto it = memo.find(f);
            if (it != memo.end()) return it->second;
            ScriptError e1{SCRIPT_ERR_UNKNOWN_ERROR};
            const bool ok1 = VerifyScript(tx.vin[c.nIn].scriptSig, c.spent[c.nIn].scriptPubKey, &tx.vin[c.nIn].scriptWitness, script_verify_flags::from_int(f), checker, &e1);
            const VerifyResult r2 = Verify(c.tx, c.spent, c.nIn, script_verify_flags::from_int(f));
            vh::log().obs("verify_calls", 2);
            if (ok1 != r2.ok || e1 != r2.err) {
                ++nondet;
                vh::log().violation("nondeterministic-verify", "the same VerifyScript call gave two different results / errors",
                                    vh::J().str("tx", TxHex(c.tx)).raw("spent", SpentJson(c.spent)).u("nin", c.nIn).u("flags", f).b("ok1", ok1).i("err1", e1).b("ok2", r2.ok).i("err2", r2.err));
            }
            if (ok1 != (e1 == SCRIPT_ERR_OK)) {
                vh::log().violation("result-error-mismatch", "VerifyScript return value and ScriptError disagree",
                                    vh::J().str("tx", TxHex(c.tx)).raw("spent", SpentJson(c.spent)).u("nin", c.nIn).u("flags", f).b("ok", ok1).i("err", e1));
            }
            Res r{ok1, ok1 ? 0 : (e1 == SCRIPT_ERR_OK ? -1 : static_cast<int>(e1))};
            memo.emplace(f, r);
            return r;
        };

        std::vector<std::string> pairs;
        auto add_pair = [&](uint64_t a, uint64_t b) {
            const Res ra = eval(a), rb = eval(b);
            pairs.push_back("[" + std::to_string(a) + "," + std::to_string(b) + "," + std::to_string(ra.err) + "," + std::to_string(rb.err) + "]");
        };
        // single-flag removals from the full, the standard and the consensus set
        for (uint64_t base : {ALL_FLAGS, std_flags, cons_next}) {
            for (int bit = 0; bit < MAX_SCRIPT_VERIFY_FLAGS_BITS; ++bit) {
                if (!(base >> bit & 1)) continue;
                const uint64_t a = Trim(base & ~(uint64_t{1} << bit));
                add_pair(a, base);
            }
        }
        // single-flag additions on top of the consensus set
        for (int bit = 0; bit < MAX_SCRIPT_VERIFY_FLAGS_BITS; ++bit) {
            if (cons_next >> bit & 1) continue;
            add_pair(cons_next, Fill(cons_next | (uint64_t{1} << bit)));
        }
        // consensus vs full / standard, nothing vs consensus
        add_pair(cons_next, std_flags);
        add_pair(cons_next, ALL_FLAGS);
        if ((cons_tip & ~cons_next) == 0) add_pair(cons_tip, cons_next);
        add_pair(0, cons_next);
        for (int64_t i = 0; i < npairs; ++i) {
            uint64_t b;
            switch (rng.below(6)) {
            case 0: b = ALL_FLAGS; break;
            case 1: b = std_flags; break;
            default: b = RandBits(rng, 4 + 4 * static_cast<unsigned>(rng.below(3))); break;
            }
            b = rng.coin() ? Fill(b) : Trim(b);
            uint64_t mask;
            if (rng.coin()) {
                mask = 0;
                for (size_t k = 1 + rng.below(3); k > 0; --k) mask |= uint64_t{1} << rng.below(MAX_SCRIPT_VERIFY_FLAGS_BITS);
            } else {
                mask = RandBits(rng, 2 + 6 * static_cast<unsigned>(rng.below(3)));
            }
            const uint64_t a = Trim(b & ~mask);
            if (!ValidFlags(a) || !ValidFlags(b)) {
                vh::log().obs("harness_invalid_flags");
                continue;
            }
            add_pair(a, b);
        }
        const Res rs = eval(std_flags), rc = eval(cons_next), rt = eval(cons_tip), rf = eval(cons_far);
        vh::J j;
        j.u("case", cidx).str("tpl", c.tpl).str("var", c.var).str("tx", TxHex(c.tx)).raw("spent", SpentJson(c.spent)).u("nin", c.nIn)
            .i("std", rs.err).i("cons", rc.err).i("cons_tip", rt.err).i("cons_far", rf.err).u("nondet", nondet).raw("p", vh::JArr(pairs));
        vh::log().rec(j);
    }
    return 0;
}
