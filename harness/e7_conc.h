// E7 `conc` support (header only, internal linkage): VERIF_POINT callback that records schedule events into
// per-thread buffers and perturbs the schedule with seeded yields / short sleeps; CPU-affinity helpers; schedule
// fingerprints. Included by e7_overlay.cpp, e7_waitnext.cpp, e7_notify.cpp.
//
// Monitor thread-safety: every thread writes only its own buffer (registered once under g_reg_mu, then guarded by the
// buffer's own mutex, which is uncontended except when the coordinating thread collects at quiescence). The global event
// sequence number is a relaxed atomic, which gives no happens-before edge to ThreadSanitizer, so the monitor does not
// hide races of the code under test and never races itself.
#pragma once

#include <common/vh.h>
#include <util/verif_hooks.h>

#include <algorithm>
#include <atomic>
#include <cstdint>
#include <cstring>
#include <memory>
#include <mutex>
#include <vector>

#include <dirent.h>
#include <sched.h>
#include <cstdlib>
#include <time.h>

#ifndef BITCOIN_VERIF
#error "harness must be built with -DBITCOIN_VERIF"
#endif

namespace e7 {
namespace {

enum Tag : uint16_t {
    T_OTHER = 0,
    T_CQ_TAKEN = 1,
    T_CQ_DONE = 2,
    T_OV_FETCHED = 3,
    T_OV_MAIN_WAIT = 4,
    T_OV_STOP = 5,
    // harness-side points (driver threads of C65/C63)
    T_H_BASE = 16,
};

struct Ev {
    uint64_t seq;
    uint16_t tag;
    uint16_t tid;
    uint32_t aux;
};

struct TBuf {
    std::mutex mu;
    std::vector<Ev> ev;
    uint16_t tid{0};
    uint64_t rng{0};
    uint64_t epoch{0};
    bool dead{false};
};

std::mutex g_reg_mu;
std::vector<std::shared_ptr<TBuf>> g_bufs; // guarded by g_reg_mu
std::atomic<uint64_t> g_seq{0};
std::atomic<uint32_t> g_prob{0}; // perturbation probability, per mille
std::atomic<uint32_t> g_max_sleep_us{200};
std::atomic<uint64_t> g_seed{0};
std::atomic<uint64_t> g_epoch{0};
std::atomic<uint64_t> g_perturbations{0};
std::atomic<bool> g_record{true};

struct TReg {
    std::shared_ptr<TBuf> b;
    ~TReg()
    {
        if (b) {
            std::lock_guard<std::mutex> l(b->mu);
            b->dead = true;
        }
    }
};
thread_local TReg t_reg;
//! Engine-provided annotation attached to the next events of this thread (e.g. which outpoint is being fetched).
thread_local uint32_t t_aux = 0;

inline uint64_t Mix(uint64_t x)
{
    x += 0x9e3779b97f4a7c15ULL;
    x = (x ^ (x >> 30)) * 0xbf58476d1ce4e5b9ULL;
    x = (x ^ (x >> 27)) * 0x94d049bb133111ebULL;
    return x ^ (x >> 31);
}

inline TBuf& MyBuf()
{
    if (!t_reg.b) {
        auto b = std::make_shared<TBuf>();
        b->ev.reserve(256);
        std::lock_guard<std::mutex> l(g_reg_mu);
        b->tid = static_cast<uint16_t>(g_bufs.size() & 0xffff);
        g_bufs.push_back(b);
        t_reg.b = b;
    }
    return *t_reg.b;
}

inline uint16_t TagOf(const char* tag)
{
    if (!std::strcmp(tag, "checkqueue.batch_taken")) return T_CQ_TAKEN;
    if (!std::strcmp(tag, "checkqueue.batch_done")) return T_CQ_DONE;
    if (!std::strcmp(tag, "overlay.worker_fetched")) return T_OV_FETCHED;
    if (!std::strcmp(tag, "overlay.main_before_wait")) return T_OV_MAIN_WAIT;
    if (!std::strcmp(tag, "overlay.stop_before_wait")) return T_OV_STOP;
    return T_OTHER;
}

inline void PointId(uint16_t tag)
{
    TBuf& b = MyBuf();
    uint64_t r;
    {
        std::lock_guard<std::mutex> l(b.mu);
        const uint64_t ep = g_epoch.load(std::memory_order_relaxed);
        if (b.epoch != ep) {
            b.epoch = ep;
            b.rng = Mix(g_seed.load(std::memory_order_relaxed) ^ (uint64_t{b.tid} << 32) ^ ep);
        }
        if (g_record.load(std::memory_order_relaxed) && b.ev.size() < (1u << 20)) {
            b.ev.push_back(Ev{g_seq.fetch_add(1, std::memory_order_relaxed), tag, b.tid, t_aux});
        }
        b.rng = Mix(b.rng);
        r = b.rng;
    }
    uint32_t prob = g_prob.load(std::memory_order_relaxed);
    // delay the publishing side twice as often, so that consumers really arrive first from time to time
    if (tag == T_OV_FETCHED || tag == T_CQ_DONE) prob = std::min<uint32_t>(1000, prob * 2);
    if (prob && (r % 1000) < prob) {
        g_perturbations.fetch_add(1, std::memory_order_relaxed);
        if ((r >> 20) & 1) {
            sched_yield();
        } else {
            const uint32_t mx = g_max_sleep_us.load(std::memory_order_relaxed);
            const uint64_t us = mx ? (r >> 24) % (mx + 1) : 0;
            struct timespec ts {0, static_cast<long>(us * 1000)};
            nanosleep(&ts, nullptr);
        }
    }
}

inline void Hook(const char* tag) { PointId(TagOf(tag)); }

inline void Install() { verif::g_point_fn.store(&Hook, std::memory_order_relaxed); }
inline void Uninstall() { verif::g_point_fn.store(nullptr, std::memory_order_relaxed); }

//! Start a new observation window. Must be called at quiescence (no other thread inside the code under test).
inline void Begin(uint64_t seed, uint32_t prob_permille, uint32_t max_sleep_us = 200)
{
    std::vector<std::shared_ptr<TBuf>> bufs;
    {
        std::lock_guard<std::mutex> l(g_reg_mu);
        // drop the buffers of threads that have exited
        std::vector<std::shared_ptr<TBuf>> live;
        for (auto& b : g_bufs) {
            std::lock_guard<std::mutex> l2(b->mu);
            if (!b->dead) live.push_back(b);
        }
        g_bufs.swap(live);
        uint16_t n = 0;
        for (auto& b : g_bufs) {
            std::lock_guard<std::mutex> l2(b->mu);
            b->ev.clear();
            b->tid = n++;
        }
    }
    g_seed.store(seed, std::memory_order_relaxed);
    g_prob.store(prob_permille, std::memory_order_relaxed);
    g_max_sleep_us.store(max_sleep_us, std::memory_order_relaxed);
    g_seq.store(0, std::memory_order_relaxed);
    g_epoch.fetch_add(1, std::memory_order_relaxed);
}

//! Merge all per-thread buffers, ordered by the global sequence number. Call at quiescence.
inline std::vector<Ev> Collect()
{
    std::vector<Ev> all;
    std::lock_guard<std::mutex> l(g_reg_mu);
    for (auto& b : g_bufs) {
        std::lock_guard<std::mutex> l2(b->mu);
        all.insert(all.end(), b->ev.begin(), b->ev.end());
        b->ev.clear();
    }
    std::sort(all.begin(), all.end(), [](const Ev& a, const Ev& b) { return a.seq < b.seq; });
    return all;
}

//! Interleaving fingerprint: hash of the merged (tag, thread) sequence, thread ids renamed by first appearance so that
//! the value does not depend on which OS thread happened to run which role. `with_aux` also mixes the annotation.
inline uint64_t Fingerprint(const std::vector<Ev>& evs, bool with_aux = false)
{
    std::vector<std::pair<uint16_t, uint16_t>> names;
    uint64_t h = 0x243f6a8885a308d3ULL;
    for (const Ev& e : evs) {
        uint16_t nm = 0xffff;
        for (auto& p : names) {
            if (p.first == e.tid) {
                nm = p.second;
                break;
            }
        }
        if (nm == 0xffff) {
            nm = static_cast<uint16_t>(names.size());
            names.emplace_back(e.tid, nm);
        }
        h = Mix(h ^ (uint64_t{e.tag} << 16 | nm) ^ (with_aux ? uint64_t{e.aux} << 32 : 0));
    }
    return h;
}

inline size_t ThreadsSeen(const std::vector<Ev>& evs)
{
    std::vector<uint16_t> t;
    for (const Ev& e : evs) {
        if (std::find(t.begin(), t.end(), e.tid) == t.end()) t.push_back(e.tid);
    }
    return t.size();
}

// ---- CPU affinity (over-subscription) -------------------------------------------------------------------------

struct Affinity {
    cpu_set_t orig;
    std::vector<int> cpus;
    bool ok{false};
    Affinity()
    {
        CPU_ZERO(&orig);
        ok = sched_getaffinity(0, sizeof(orig), &orig) == 0;
        if (ok) {
            for (int i = 0; i < CPU_SETSIZE; ++i) {
                if (CPU_ISSET(i, &orig)) cpus.push_back(i);
            }
        }
    }
    //! Apply a mask to every existing thread of the process (threads created later inherit the creator's mask).
    static bool ApplyAll(const cpu_set_t& s)
    {
        bool any = false;
        if (DIR* d = opendir("/proc/self/task")) {
            while (struct dirent* e = readdir(d)) {
                const int tid = std::atoi(e->d_name);
                if (tid > 0 && sched_setaffinity(tid, sizeof(s), &s) == 0) any = true;
            }
            closedir(d);
        }
        return any;
    }
    //! Pin the whole process to `n` CPUs chosen by rng (over-subscription). Returns the number of CPUs in effect.
    int Pin(int n, vh::Rng& rng)
    {
        if (!ok || cpus.empty()) return 0;
        if (n >= static_cast<int>(cpus.size())) {
            ApplyAll(orig);
            return static_cast<int>(cpus.size());
        }
        std::vector<int> c = cpus;
        rng.shuffle(c);
        cpu_set_t s;
        CPU_ZERO(&s);
        for (int i = 0; i < n; ++i) CPU_SET(c[i], &s);
        if (!ApplyAll(s)) return 0;
        return n;
    }
    void Restore()
    {
        if (ok) ApplyAll(orig);
    }
};

} // namespace
} // namespace e7
