// C03: CheckTransaction on generated transactions (boundary table first, then random structure with 0..3
// rule-breaking mutators). Inputs are logged as fields (script *lengths* only; script content is irrelevant to the
// rules) together with the verdict and reject reason; the Python oracle (checks/C03.py + pyref/consensus_tx.py)
// recomputes the verdict from the fields alone.
#include <common/vh.h>

#include <consensus/amount.h>
#include <consensus/tx_check.h>
#include <consensus/validation.h>
#include <primitives/transaction.h>
#include <script/script.h>
#include <serialize.h>
#include <uint256.h>

#include <limits>
#include <string>
#include <vector>

namespace {

constexpr int64_t MM = 2100000000000000LL; // own constant (not the repo's MAX_MONEY) so a constant edit is visible
constexpr int64_t I64MIN = std::numeric_limits<int64_t>::min();
constexpr int64_t I64MAX = std::numeric_limits<int64_t>::max();

struct In {
    uint256 hash;
    uint32_t n{0};
    uint32_t sslen{0};
    uint32_t seq{0xffffffff};
    std::vector<uint32_t> wit; // witness item lengths
};
struct Out {
    int64_t value{0};
    uint32_t spklen{0};
};
struct Tx {
    uint32_t version{2};
    uint32_t locktime{0};
    std::vector<In> vin;
    std::vector<Out> vout;
};

uint64_t VarIntLen(uint64_t n) { return n < 253 ? 1 : n <= 0xffff ? 3 : n <= 0xffffffffULL ? 5 : 9; }

// Own size formula (used only to aim the generator at the 1 000 000 byte boundary)
uint64_t NoWitSize(const Tx& t)
{
    uint64_t s = 4 + VarIntLen(t.vin.size()) + VarIntLen(t.vout.size()) + 4;
    for (const In& i : t.vin) s += 32 + 4 + VarIntLen(i.sslen) + i.sslen + 4;
    for (const Out& o : t.vout) s += 8 + VarIntLen(o.spklen) + o.spklen;
    return s;
}

uint256 PaletteHash(vh::Rng& rng)
{
    uint256 h; // zero
    switch (rng.below(8)) {
    case 0: break;                              // all-zero hash (the "null" hash)
    case 1: *h.begin() = 1; break;              // 0100..00
    case 2: *(h.begin() + 31) = 0x80; break;    // 00..0080
    case 3: std::memset(h.begin(), 0xff, 32); break;
    case 4: case 5: {                           // small family: collisions between inputs happen by chance
        *h.begin() = static_cast<unsigned char>(2 + rng.below(3));
        *(h.begin() + 7) = 0xaa;
        break;
    }
    default: rng.fill(h.begin(), 32);
    }
    return h;
}

uint32_t PaletteN(vh::Rng& rng)
{
    switch (rng.below(6)) {
    case 0: return 0xffffffffu;
    case 1: return 0xfffffffeu;
    case 2: return 0;
    case 3: return 1;
    default: return static_cast<uint32_t>(rng.below(4));
    }
}

int64_t SmallValue(vh::Rng& rng)
{
    switch (rng.below(5)) {
    case 0: return 0;
    case 1: return static_cast<int64_t>(rng.below(100000));
    case 2: return static_cast<int64_t>(rng.below(MM / 64));
    default: return static_cast<int64_t>(rng.below(5000000000ULL));
    }
}

// A transaction that satisfies every rule: non-coinbase, distinct non-null prevouts, small in-range values.
Tx BaseTx(vh::Rng& rng, size_t nin, size_t nout)
{
    Tx t;
    static const uint32_t versions[] = {1, 2, 3, 0, 0xffffffffu, 0x80000000u};
    t.version = rng.chance(3, 4) ? 2 : versions[rng.below(6)];
    t.locktime = rng.chance(3, 4) ? 0 : static_cast<uint32_t>(rng.next());
    for (size_t i = 0; i < nin; ++i) {
        In in;
        for (int tries = 0;; ++tries) {
            in.hash = PaletteHash(rng);
            in.n = PaletteN(rng);
            if (tries > 20) rng.fill(in.hash.begin(), 32);
            if (in.hash.IsNull() && in.n == 0xffffffffu) continue; // null prevout
            bool dup = false;
            for (const In& o : t.vin) dup |= (o.hash == in.hash && o.n == in.n);
            if (!dup) break;
        }
        in.sslen = rng.chance(1, 3) ? 0 : static_cast<uint32_t>(rng.below(rng.chance(1, 8) ? 600 : 120));
        in.seq = rng.coin() ? 0xffffffffu : static_cast<uint32_t>(rng.next());
        if (rng.chance(1, 3)) {
            size_t items = 1 + rng.below(3);
            for (size_t k = 0; k < items; ++k) in.wit.push_back(static_cast<uint32_t>(rng.below(rng.chance(1, 10) ? 3000 : 80)));
        }
        t.vin.push_back(in);
    }
    for (size_t i = 0; i < nout; ++i) {
        Out o;
        o.value = SmallValue(rng);
        o.spklen = static_cast<uint32_t>(rng.below(rng.chance(1, 8) ? 400 : 40));
        t.vout.push_back(o);
    }
    return t;
}

enum Mut : int {
    M_NONE = 0,
    M_VIN_EMPTY,
    M_VOUT_EMPTY,
    M_SIZE,          // p = delta index
    M_VALUE,         // p = value index, pos
    M_SUM,           // p = variant, pos
    M_DUP,           // pos pair
    M_NEARDUP,       // pos pair
    M_NULL,          // pos
    M_NEARNULL,      // pos
    M_COINBASE,      // p = scriptSig length index
    M_CB_SHAPED,     // null first input + more inputs
    M_COUNT
};

const int64_t VALUE_TABLE[] = {MM, MM + 1, -1, I64MIN, I64MAX, 0, 1, MM - 1, -MM, I64MIN + 1, I64MAX - 1, MM + 2, -2, (int64_t{1} << 62)};
constexpr size_t N_VALUE = sizeof(VALUE_TABLE) / sizeof(VALUE_TABLE[0]);
const int64_t SIZE_DELTAS[] = {-1, 0, 1, -2, 2, 100, -100, 65536};
constexpr size_t N_SIZE = sizeof(SIZE_DELTAS) / sizeof(SIZE_DELTAS[0]);
const uint32_t CB_LENS[] = {0, 1, 2, 3, 99, 100, 101, 102, 50, 252, 253, 1000};
constexpr size_t N_CB = sizeof(CB_LENS) / sizeof(CB_LENS[0]);

// Apply a mutator. a, b are free parameters (table index / positions); they are reduced modulo what applies.
void Apply(Tx& t, int m, uint64_t a, uint64_t b, vh::Rng& rng)
{
    switch (m) {
    case M_NONE: break;
    case M_VIN_EMPTY: t.vin.clear(); break;
    case M_VOUT_EMPTY: t.vout.clear(); break;
    case M_SIZE: {
        // pad one script so that the non-witness size is exactly 1 000 000 + delta
        const int64_t target = 1000000 + SIZE_DELTAS[a % N_SIZE];
        const bool coinbase_like = t.vin.size() == 1 && t.vin[0].hash.IsNull() && t.vin[0].n == 0xffffffffu;
        uint32_t* len = nullptr;
        if (!t.vin.empty() && !coinbase_like && (b & 1)) len = &t.vin[(b >> 1) % t.vin.size()].sslen;
        else if (!t.vout.empty()) len = &t.vout[(b >> 1) % t.vout.size()].spklen;
        else if (!t.vin.empty()) len = &t.vin[0].sslen;
        if (!len) break;
        *len = 0;
        const int64_t rest = static_cast<int64_t>(NoWitSize(t)) - 1; // without this script's 1-byte length prefix
        const int64_t need = target - rest;                          // varint(L) + L
        if (need > 5 + 65536) *len = static_cast<uint32_t>(need - 5);
        break;
    }
    case M_VALUE: {
        if (t.vout.empty()) break;
        t.vout[b % t.vout.size()].value = VALUE_TABLE[a % N_VALUE];
        break;
    }
    case M_SUM: {
        // make the running sum reach MM - 1 / MM / MM + 1 / MM + 2 exactly at output position pos, all values in range
        if (t.vout.empty()) break;
        const size_t pos = b % t.vout.size();
        const int64_t want = MM + static_cast<int64_t>(a % 4) - 1;
        // values before pos: random split of a prefix total
        int64_t prefix = 0;
        for (size_t i = 0; i < pos; ++i) {
            int64_t room = MM - prefix;
            int64_t v = (a & 8) ? static_cast<int64_t>(rng.below(static_cast<uint64_t>(room / 2 + 1))) : SmallValue(rng);
            if (v > room) v = room;
            t.vout[i].value = v;
            prefix += v;
        }
        int64_t v = want - prefix;
        if (v > MM) {
            // a single value cannot exceed MM without tripping the per-output rule first: use two outputs if possible
            if (pos > 0) {
                t.vout[pos - 1].value += v - MM; // stays <= MM because prefix <= MM
                v = MM;
            }
        }
        t.vout[pos].value = v;
        if ((a & 16) && pos + 1 < t.vout.size()) t.vout[pos + 1].value = (a & 32) ? -1 : MM + 1; // later violation of an earlier rule
        break;
    }
    case M_DUP:
    case M_NEARDUP: {
        if (t.vin.size() < 2) break;
        size_t i = a % t.vin.size(), j = b % t.vin.size();
        if (i == j) j = (j + 1) % t.vin.size();
        t.vin[j].hash = t.vin[i].hash;
        t.vin[j].n = t.vin[i].n;
        if (m == M_NEARDUP) {
            if (a & 64) t.vin[j].n ^= 1u << (b % 32);
            else *(t.vin[j].hash.begin() + (b % 32)) ^= static_cast<unsigned char>(1u << (a % 8));
        }
        break;
    }
    case M_NULL: {
        if (t.vin.empty()) break;
        In& in = t.vin[a % t.vin.size()];
        in.hash.SetNull();
        in.n = 0xffffffffu;
        break;
    }
    case M_NEARNULL: {
        if (t.vin.empty()) break;
        In& in = t.vin[a % t.vin.size()];
        in.hash.SetNull();
        in.n = 0xffffffffu;
        switch (b % 4) {
        case 0: in.n = 0xfffffffeu; break;
        case 1: in.n = 0; break;
        case 2: *(in.hash.begin() + (a % 32)) = 1; break;
        default: *(in.hash.begin() + 31) = 0x80; break;
        }
        break;
    }
    case M_COINBASE: {
        t.vin.resize(1);
        t.vin[0].hash.SetNull();
        t.vin[0].n = 0xffffffffu;
        t.vin[0].sslen = (a % (N_CB + 2)) < N_CB ? CB_LENS[a % (N_CB + 2)] : static_cast<uint32_t>(rng.below(130));
        break;
    }
    case M_CB_SHAPED: {
        if (t.vin.size() < 2) {
            In in;
            rng.fill(in.hash.begin(), 32);
            in.n = static_cast<uint32_t>(rng.below(3));
            t.vin.push_back(in);
        }
        t.vin[0].hash.SetNull();
        t.vin[0].n = 0xffffffffu;
        t.vin[0].sslen = CB_LENS[a % N_CB];
        break;
    }
    }
}

CMutableTransaction Build(const Tx& t)
{
    CMutableTransaction m;
    m.version = t.version;
    m.nLockTime = t.locktime;
    for (const In& i : t.vin) {
        CTxIn in;
        in.prevout = COutPoint(Txid::FromUint256(i.hash), i.n);
        in.scriptSig = CScript();
        in.scriptSig.assign(i.sslen, 0x51);
        in.nSequence = i.seq;
        for (uint32_t l : i.wit) in.scriptWitness.stack.emplace_back(l, 0x42);
        m.vin.push_back(std::move(in));
    }
    for (const Out& o : t.vout) {
        CTxOut out;
        out.nValue = o.value;
        out.scriptPubKey.assign(o.spklen, 0x6a);
        m.vout.push_back(std::move(out));
    }
    return m;
}

std::string Fields(const Tx& t)
{
    std::string s = "\"ver\":" + std::to_string(t.version) + ",\"lt\":" + std::to_string(t.locktime) + ",\"vin\":[";
    for (size_t i = 0; i < t.vin.size(); ++i) {
        const In& in = t.vin[i];
        uint64_t wb = 0;
        for (uint32_t l : in.wit) wb += l;
        if (i) s += ",";
        s += "[\"" + vh::Hex(in.hash.begin(), 32) + "\"," + std::to_string(in.n) + "," + std::to_string(in.sslen) + "," + std::to_string(in.seq) + "," + std::to_string(in.wit.size()) + "," + std::to_string(wb) + "]";
    }
    s += "],\"vout\":[";
    for (size_t i = 0; i < t.vout.size(); ++i) {
        if (i) s += ",";
        s += "[" + std::to_string(t.vout[i].value) + "," + std::to_string(t.vout[i].spklen) + "]";
    }
    return s + "]";
}

// number of single-mutator table rows
constexpr uint64_t TABLE_ROWS = 2 + 2 + N_SIZE * 4 + N_VALUE * 6 + 4 * 6 * 4 + 36 * 2 + 6 + 6 * 4 + (N_CB + 2) + N_CB;

} // namespace

VH_CMD(checktx)
{
    for (uint64_t c = args.from; c < args.to; ++c) {
        vh::set_case(c);
        vh::Rng rng(args.seed, c);
        Tx t;
        std::string muts;
        if (c < TABLE_ROWS) {
            // boundary table: exactly one mutator with enumerated parameters on a 6-in/6-out (or as needed) base
            uint64_t r = c;
            int m = M_NONE;
            uint64_t a = 0, b = 0;
            size_t nin = 6, nout = 6;
            auto take = [&](uint64_t n) { if (r < n) return true; r -= n; return false; };
            if (take(2)) { m = M_NONE; nin = 1 + r * 5; nout = 1 + r * 5; }
            else if (take(2)) { m = r ? M_VOUT_EMPTY : M_VIN_EMPTY; }
            else if (take(N_SIZE * 4)) { m = M_SIZE; a = r / 4; b = r % 4; nin = 2; nout = 2; }
            else if (take(N_VALUE * 6)) { m = M_VALUE; a = r / 6; b = r % 6; }
            else if (take(4 * 6 * 4)) { m = M_SUM; a = (r % 4) | ((r / 24) << 3); b = (r / 4) % 6; }
            else if (take(36 * 2)) { m = (r >= 36) ? M_NEARDUP : M_DUP; a = (r % 36) / 6; b = r % 6; }
            else if (take(6)) { m = M_NULL; a = r; }
            else if (take(6 * 4)) { m = M_NEARNULL; a = r / 4; b = r % 4; }
            else if (take(N_CB + 2)) { m = M_COINBASE; a = r; }
            else { m = M_CB_SHAPED; a = r; }
            t = BaseTx(rng, nin, nout);
            Apply(t, m, a, b, rng);
            muts = std::to_string(m);
        } else {
            const size_t nin = rng.chance(1, 60) ? 0 : 1 + rng.below(rng.chance(1, 20) ? 40 : 6);
            const size_t nout = rng.chance(1, 60) ? 0 : 1 + rng.below(rng.chance(1, 20) ? 40 : 6);
            t = BaseTx(rng, nin, nout);
            static const int kcount[] = {0, 1, 1, 1, 1, 2, 2, 2, 3, 3};
            const int k = kcount[rng.below(10)];
            for (int i = 0; i < k; ++i) {
                // (the empty-vector rules mask everything else and the 1 MB cases are expensive to hash: lower weights)
                static const std::vector<uint32_t> w = {0, 1, 1, 1, 6, 6, 5, 3, 5, 3, 5, 3};
                const int m = static_cast<int>(rng.weighted(w));
                Apply(t, m, rng.next() >> 8, rng.next() >> 8, rng);
                muts += (muts.empty() ? "" : ",") + std::to_string(m);
            }
        }
        const CTransaction tx{Build(t)};
        TxValidationState state;
        const bool ok = CheckTransaction(tx, state);
        const uint64_t sz = ::GetSerializeSize(TX_NO_WITNESS(tx));
        std::string line = "{\"case\":" + std::to_string(c) + "," + Fields(t) + ",\"ok\":" + (ok ? "true" : "false") +
                           ",\"r\":" + vh::JStr(state.GetRejectReason()) + ",\"res\":" + std::to_string(static_cast<int>(state.GetResult())) +
                           ",\"valid\":" + (state.IsValid() ? "true" : "false") + ",\"sz\":" + std::to_string(sz) + ",\"m\":[" + muts + "]}";
        vh::log().line(line);
    }
    return 0;
}
