// E3 `netsim` workloads:
//   net_punish      C36  message soup over peers of every kind; per-step fDisconnect / IsDiscouraged observations
//   net_privacy     C39  clause 1: getdata probes by spy peers against mempool additions, inv trickles and blocks
//   net_privbcast   C39  clause 2: NO_MEMPOOL_PRIVATE_BROADCAST submissions and hand-made PRIVATE_BROADCAST connections
//   net_malleate    C64  same-txid variants (bad / stripped / padded witness, also of the unconfirmed parent) x delivery orders
//   net_unrequested C58  unrequested block deliveries (ProcessNewBlock(force=false) and `block` messages) at work/height/min-work boundaries
// Every command logs ONE record per case holding the message-boundary event list; all verdicts are formed offline
// (checks/C36.py, C39.py, C64.py, C58.py).
#include <common/vh.h>
#include <sim_net.h>

#include <banman.h>
#include <blockencodings.h>
#include <chain.h>
#include <common/bloom.h>
#include <consensus/merkle.h>
#include <net_processing.h>
#include <node/context.h>
#include <node/transaction.h>
#include <node/types.h>
#include <streams.h>
#include <test/util/net.h>
#include <txmempool.h>
#include <validation.h>

#include <algorithm>
#include <set>

using namespace simnet;

namespace {

std::string HexLE(const uint256& h) { return vh::Hex(h.begin(), 32); }

std::vector<unsigned char> Bytes(const DataStream& ss)
{
    auto sp = MakeUCharSpan(ss);
    return {sp.begin(), sp.end()};
}

uint256 RandHash(vh::Rng& rng)
{
    uint256 h;
    rng.fill(h.begin(), 32);
    return h;
}

const CoinKind SEGWIT_KINDS[] = {CoinKind::P2WPKH, CoinKind::P2WSH_DROP, CoinKind::P2TR};

std::optional<Utxo> TryCoin(Net& net, vh::Rng& rng, bool segwit_only = false)
{
    std::vector<CoinKind> ks{CoinKind::P2WPKH, CoinKind::P2WSH_DROP, CoinKind::P2TR};
    if (!segwit_only) ks.push_back(CoinKind::P2PKH);
    rng.shuffle(ks);
    for (auto k : ks) {
        if (net.CoinsLeft(k)) return net.TakeCoin(k);
    }
    return std::nullopt;
}

std::optional<Utxo> TryCoinKind(Net& net, CoinKind k)
{
    if (net.CoinsLeft(k)) return net.TakeCoin(k);
    return std::nullopt;
}

CTransactionRef SimpleSpend(Net& net, const Utxo& c, CAmount fee, CoinKind out_kind = CoinKind::P2WPKH, Mall m = Mall::NONE)
{
    return MakeTransactionRef(net.Spend({c}, {CTxOut(c.out.nValue - fee, net.ScriptFor(out_kind))}, {m}));
}

//! mempool membership poll of a set of tracked transactions; logs "mp" events on change
struct MpTracker {
    struct T {
        CTransactionRef tx;
        bool in{false};
    };
    std::vector<T> txs;
    void Track(const CTransactionRef& tx)
    {
        for (auto& t : txs) {
            if (t.tx->GetWitnessHash() == tx->GetWitnessHash()) return;
        }
        txs.push_back({tx, false});
    }
    void Poll(Net& net)
    {
        for (auto& t : txs) {
            const bool now = net.mempool().exists(t.tx->GetWitnessHash());
            if (now != t.in) {
                t.in = now;
                net.Ev(vh::J().str("ev", "mp").str("op", now ? "add" : "del").str("txid", HexLE(t.tx->GetHash().ToUint256())).str("wtxid", HexLE(t.tx->GetWitnessHash().ToUint256())));
            }
        }
    }
};

NetPermissionFlags PermByIndex(size_t i)
{
    static const NetPermissionFlags P[] = {NetPermissionFlags::None, NetPermissionFlags::NoBan, NetPermissionFlags::Relay, NetPermissionFlags::ForceRelay,
                                           NetPermissionFlags::Mempool, NetPermissionFlags::BloomFilter, NetPermissionFlags::Addr, NetPermissionFlags::Download,
                                           NetPermissionFlags::All};
    return P[i % 9];
}

ConnectionType ConnByIndex(size_t i)
{
    static const ConnectionType C[] = {ConnectionType::INBOUND, ConnectionType::OUTBOUND_FULL_RELAY, ConnectionType::MANUAL, ConnectionType::BLOCK_RELAY,
                                       ConnectionType::ADDR_FETCH};
    return C[i % 5];
}

} // namespace

// =====================================================================================================================
// C36  net_punish
// =====================================================================================================================
namespace {

struct Punish {
    Net& net;
    vh::Rng& rng;
    bool blocksonly;
    std::vector<std::pair<std::vector<unsigned char>, std::string>> sent_txs; // payload, meta
    std::vector<Utxo> spent_by_valid;                                         // coins used by txs accepted earlier (conflict source)
    std::vector<CTransactionRef> valid_txs;
    std::vector<uint256> invalid_blocks; // PoW-valid blocks the node marked failed (parents for invalid_prev)
    std::vector<std::vector<unsigned char>> invalid_block_payloads;
    std::shared_ptr<CBlock> last_valid_block;

    struct Out {
        std::string type, cls, meta;
        std::vector<unsigned char> payload;
        std::optional<uint256> block_hash;
    };

    uint32_t NextTime() { return std::max<uint32_t>(net.TipTime() + 1, static_cast<uint32_t>(net.Now())); }

    BlockSpec TipSpec()
    {
        BlockSpec s;
        s.prev = net.TipHash();
        s.height = net.TipHeight() + 1;
        s.time = NextTime();
        return s;
    }

    Out TxOutMsg(const std::string& cls, const CTransactionRef& tx)
    {
        Out o;
        o.type = "tx";
        o.cls = cls;
        o.payload = SerTx(*tx);
        o.meta = TxMeta(*tx);
        sent_txs.emplace_back(o.payload, o.meta);
        return o;
    }

    Out JunkTx(const std::string& cls, std::vector<unsigned char> payload)
    {
        Out o;
        o.type = "tx";
        o.cls = cls;
        o.payload = std::move(payload);
        return o;
    }

    Out MakeTx()
    {
        static const std::vector<std::string> classes{"tx_valid", "tx_valid", "tx_valid", "tx_dup", "tx_badsig", "tx_stripped", "tx_nonstd_version", "tx_pad_nonstd",
                                                      "tx_dust", "tx_orphan", "tx_conflict", "tx_premature", "tx_oversize", "tx_neg_output", "tx_lowfee", "tx_junk",
                                                      "tx_truncated", "tx_empty", "tx_child"};
        static const std::vector<uint32_t> w{3, 3, 3, 4, 5, 4, 3, 3, 3, 5, 4, 3, 1, 3, 3, 5, 4, 2, 3};
        std::string cls = classes[rng.weighted(w)];
        const CAmount fee = 20000;
        if (cls == "tx_dup") {
            if (sent_txs.empty()) cls = "tx_valid";
            else {
                auto& [pl, meta] = rng.pick(sent_txs);
                Out o;
                o.type = "tx";
                o.cls = cls;
                o.payload = pl;
                o.meta = meta;
                return o;
            }
        }
        if (cls == "tx_junk") return JunkTx(cls, rng.bytes(rng.range(1, 300)));
        if (cls == "tx_empty") return JunkTx(cls, {});
        if (cls == "tx_truncated") {
            if (sent_txs.empty()) return JunkTx("tx_junk", rng.bytes(60));
            auto pl = rng.pick(sent_txs).first;
            if (pl.size() < 2) return JunkTx("tx_junk", rng.bytes(60));
            pl.resize(rng.range(1, pl.size() - 1));
            return JunkTx(cls, pl);
        }
        if (cls == "tx_orphan") {
            Utxo fake;
            fake.op = COutPoint(Txid::FromUint256(RandHash(rng)), static_cast<uint32_t>(rng.below(3)));
            fake.kind = CoinKind::P2WPKH;
            fake.out = CTxOut(1 * COIN, net.ScriptFor(CoinKind::P2WPKH));
            return TxOutMsg(cls, SimpleSpend(net, fake, fee));
        }
        if (cls == "tx_conflict") {
            if (spent_by_valid.empty()) cls = "tx_valid";
            else {
                const Utxo& c = rng.pick(spent_by_valid);
                return TxOutMsg(cls, SimpleSpend(net, c, fee, CoinKind::P2WSH_DROP));
            }
        }
        if (cls == "tx_premature") {
            if (!last_valid_block) cls = "tx_badsig";
            else {
                Utxo c = Net::OutputAsCoin(*last_valid_block->vtx[0], 0, CoinKind::P2WPKH);
                return TxOutMsg(cls, SimpleSpend(net, c, fee));
            }
        }
        if (cls == "tx_child") {
            if (valid_txs.empty()) cls = "tx_valid";
            else {
                const auto& parent = rng.pick(valid_txs);
                Utxo c = Net::OutputAsCoin(*parent, 0, CoinKind::P2WPKH);
                if (c.out.scriptPubKey != net.ScriptFor(CoinKind::P2WPKH)) cls = "tx_valid";
                else return TxOutMsg(cls, SimpleSpend(net, c, fee));
            }
        }
        std::optional<Utxo> coin;
        if (cls == "tx_pad_nonstd") coin = TryCoinKind(net, CoinKind::P2WSH_DROP);
        else if (cls == "tx_stripped") coin = TryCoin(net, rng, /*segwit_only=*/true);
        else coin = TryCoin(net, rng);
        if (!coin) return JunkTx("tx_junk", rng.bytes(rng.range(1, 300)));
        if (cls == "tx_valid") {
            auto tx = SimpleSpend(net, *coin, fee);
            spent_by_valid.push_back(*coin);
            valid_txs.push_back(tx);
            return TxOutMsg(cls, tx);
        }
        if (cls == "tx_badsig") return TxOutMsg(cls, SimpleSpend(net, *coin, fee, CoinKind::P2WPKH, Mall::BADSIG));
        if (cls == "tx_stripped") return TxOutMsg(cls, SimpleSpend(net, *coin, fee, CoinKind::P2WPKH, Mall::STRIPPED));
        if (cls == "tx_pad_nonstd") return TxOutMsg(cls, SimpleSpend(net, *coin, fee, CoinKind::P2WPKH, Mall::PAD_NONSTD));
        if (cls == "tx_lowfee") return TxOutMsg(cls, SimpleSpend(net, *coin, 0));
        if (cls == "tx_dust") return TxOutMsg(cls, MakeTransactionRef(net.Spend({*coin}, {CTxOut(100, net.ScriptFor(CoinKind::P2WPKH)), CTxOut(coin->out.nValue - fee - 100, net.ScriptFor(CoinKind::P2WPKH))})));
        if (cls == "tx_neg_output") return TxOutMsg(cls, MakeTransactionRef(net.Spend({*coin}, {CTxOut(-1, net.ScriptFor(CoinKind::P2WPKH)), CTxOut(coin->out.nValue - fee, net.ScriptFor(CoinKind::P2WPKH))})));
        if (cls == "tx_nonstd_version") {
            CMutableTransaction mtx;
            mtx.version = 4;
            mtx.vin.emplace_back(coin->op);
            mtx.vin[0].nSequence = 0xfffffffd;
            mtx.vout.emplace_back(coin->out.nValue - fee, net.ScriptFor(CoinKind::P2WPKH));
            net.SignInput(mtx, 0, *coin, {*coin}, Mall::NONE);
            return TxOutMsg(cls, MakeTransactionRef(mtx));
        }
        if (cls == "tx_oversize") {
            std::vector<CTxOut> outs;
            const int n = 3600;
            const CAmount each = (coin->out.nValue - 2000000) / n;
            for (int i = 0; i < n; ++i) outs.emplace_back(each, net.ScriptFor(CoinKind::P2WPKH));
            auto tx = MakeTransactionRef(net.Spend({*coin}, outs));
            Out o;
            o.type = "tx";
            o.cls = cls;
            o.payload = SerTx(*tx);
            o.meta = TxMeta(*tx);
            return o;
        }
        return JunkTx("tx_junk", rng.bytes(40));
    }

    Out BlockMsg(const std::string& cls, const std::shared_ptr<CBlock>& b)
    {
        Out o;
        o.type = "block";
        o.cls = cls;
        o.payload = SerBlock(*b);
        o.block_hash = b->GetHash();
        o.meta = vh::J().str("hash", HexLE(*o.block_hash)).str("prev", HexLE(b->hashPrevBlock)).u("ntx", b->vtx.size()).done();
        return o;
    }

    std::vector<CTransactionRef> TwoValidTxs(CAmount& fees)
    {
        std::vector<CTransactionRef> v;
        fees = 0;
        for (int i = 0; i < 2; ++i) {
            auto c = TryCoin(net, rng);
            if (!c) break;
            v.push_back(SimpleSpend(net, *c, 10000));
            fees += 10000;
        }
        return v;
    }

    Out MakeBlock()
    {
        static const std::vector<std::string> classes{"block_valid", "block_bad_cb_amount", "block_bad_script_tx", "block_missing_input_tx", "block_mutated_merkle",
                                                      "block_mutated_dup", "block_high_hash", "block_bad_version", "block_time_old", "block_time_future", "block_bad_bits",
                                                      "block_on_invalid_parent", "block_dup_invalid", "block_bad_cb_height", "block_unknown_parent", "block_junk",
                                                      "block_valid_with_txs"};
        static const std::vector<uint32_t> w{5, 5, 3, 3, 4, 3, 4, 3, 3, 2, 3, 4, 3, 3, 2, 2, 2};
        std::string cls = classes[rng.weighted(w)];
        BlockSpec s = TipSpec();
        if (cls == "block_junk") {
            Out o;
            o.type = "block";
            o.cls = cls;
            o.payload = rng.bytes(rng.range(1, 400));
            return o;
        }
        if (cls == "block_on_invalid_parent" && invalid_blocks.empty()) cls = "block_bad_cb_amount";
        if (cls == "block_dup_invalid" && invalid_block_payloads.empty()) cls = "block_bad_cb_amount";
        if (cls == "block_dup_invalid") {
            const size_t i = rng.below(invalid_block_payloads.size());
            Out o;
            o.type = "block";
            o.cls = cls;
            o.payload = invalid_block_payloads[i];
            o.block_hash = invalid_blocks[i];
            o.meta = vh::J().str("hash", HexLE(invalid_blocks[i])).done();
            return o;
        }
        if (cls == "block_valid") {
            auto b = net.BuildBlock(s);
            last_valid_block = b;
            return BlockMsg(cls, b);
        }
        if (cls == "block_valid_with_txs") {
            s.txs = TwoValidTxs(s.fees);
            auto b = net.BuildBlock(s);
            last_valid_block = b;
            return BlockMsg(cls, b);
        }
        if (cls == "block_bad_cb_amount") s.cb_delta = 1;
        if (cls == "block_bad_script_tx") {
            auto c = TryCoin(net, rng, true);
            if (!c) s.cb_delta = 1, cls = "block_bad_cb_amount";
            else {
                s.txs = {SimpleSpend(net, *c, 10000, CoinKind::P2WPKH, Mall::BADSIG)};
                s.fees = 10000;
            }
        }
        if (cls == "block_missing_input_tx") {
            Utxo fake;
            fake.op = COutPoint(Txid::FromUint256(RandHash(rng)), 0);
            fake.kind = CoinKind::P2WPKH;
            fake.out = CTxOut(1 * COIN, net.ScriptFor(CoinKind::P2WPKH));
            s.txs = {SimpleSpend(net, fake, 10000)};
            s.fees = 10000;
        }
        if (cls == "block_mutated_merkle") s.bad_merkle = true;
        if (cls == "block_mutated_dup") {
            s.txs = TwoValidTxs(s.fees);
            s.dup_last_tx = true; // falls back to a wrong merkle root when fewer than two txs are available
        }
        if (cls == "block_high_hash") s.bad_pow = true;
        if (cls == "block_bad_version") s.version = 1;
        if (cls == "block_time_old") s.time = static_cast<uint32_t>(WITH_LOCK(cs_main, return net.chainman().ActiveChain().Tip()->GetMedianTimePast())); // must be > MTP
        if (cls == "block_time_future") s.time = static_cast<uint32_t>(net.Now() + 3 * 3600);
        if (cls == "block_bad_bits") s.bits = net.Bits() - 1;
        if (cls == "block_on_invalid_parent") {
            s.prev = rng.pick(invalid_blocks);
            s.height = net.Status(s.prev).height + 1;
        }
        if (cls == "block_bad_cb_height") {
            auto b = net.BuildBlock(s);
            CMutableTransaction cb(*b->vtx[0]);
            cb.vin[0].scriptSig = CScript() << (s.height + 1) << CScriptNum(static_cast<int64_t>(rng.below(1 << 30)) + 0x10000) << OP_0;
            b->vtx[0] = MakeTransactionRef(cb);
            b->hashMerkleRoot = BlockMerkleRoot(*b);
            Grind(*b, true);
            return BlockMsg(cls, b);
        }
        if (cls == "block_unknown_parent") {
            s.prev = RandHash(rng);
        }
        return BlockMsg(cls, net.BuildBlock(s));
    }

    Out MakeHeaders()
    {
        static const std::vector<std::string> classes{"headers_valid_new", "headers_empty", "headers_bad_pow", "headers_bad_pow_mid", "headers_noncontinuous",
                                                      "headers_unconnecting", "headers_oversize", "headers_invalid_version", "headers_junk", "headers_known"};
        static const std::vector<uint32_t> w{2, 2, 6, 4, 3, 2, 2, 3, 2, 2};
        const std::string cls = classes[rng.weighted(w)];
        Out o;
        o.type = "headers";
        o.cls = cls;
        auto hdr = [&](const uint256& prev, uint32_t time, bool good_pow, int32_t version = 0x20000000) {
            CBlockHeader h;
            h.nVersion = version;
            h.hashPrevBlock = prev;
            h.hashMerkleRoot = RandHash(rng);
            h.nTime = time;
            h.nBits = net.Bits();
            Grind(h, good_pow);
            return h;
        };
        const uint32_t t = NextTime();
        std::vector<CBlockHeader> hs;
        if (cls == "headers_valid_new") hs = {hdr(net.TipHash(), t, true)};
        if (cls == "headers_bad_pow") hs = {hdr(net.TipHash(), t, false)};
        if (cls == "headers_bad_pow_mid") {
            auto a = hdr(net.TipHash(), t, true);
            auto b = hdr(a.GetHash(), t + 1, false);
            auto c = hdr(b.GetHash(), t + 2, true);
            hs = {a, b, c};
        }
        if (cls == "headers_noncontinuous") hs = {hdr(net.TipHash(), t, true), hdr(RandHash(rng), t + 1, true)};
        if (cls == "headers_unconnecting") hs = {hdr(RandHash(rng), t, true)};
        if (cls == "headers_invalid_version") hs = {hdr(net.TipHash(), t, true, 1)};
        if (cls == "headers_known") {
            LOCK(cs_main);
            hs = {net.chainman().ActiveChain().Tip()->GetBlockHeader()};
        }
        if (cls == "headers_oversize") {
            DataStream ss;
            WriteCompactSize(ss, 2001);
            o.payload = Bytes(ss);
            return o;
        }
        if (cls == "headers_junk") {
            o.payload = rng.bytes(rng.range(1, 300));
            o.payload[0] = static_cast<unsigned char>(rng.below(200)); // small count: a junk count above 2000 is the oversize class
            return o;
        }
        o.payload = SerHeaders(hs);
        return o;
    }

    Out MakeMisc(const PeerSpec& ps)
    {
        static const std::vector<std::string> classes{
            "ping", "pong", "getaddr", "addr_small", "addrv2_small", "inv_tx_unknown", "inv_block_unknown", "getdata_tx_unknown", "getdata_block_tip", "getheaders",
            "getblocks", "notfound", "feefilter", "sendheaders", "sendcmpct_ok", "mempool", "filterload_ok", "filteradd_ok", "filterclear", "unknown_msg",
            "inv_oversize", "getdata_oversize", "addr_oversize", "sendcmpct_bad", "filterload_oversize", "filteradd_oversize", "getblocktxn_oob", "blocktxn_unsolicited",
            "cmpctblock_valid", "cmpctblock_bad_cb_amount", "junk_any", "wtxidrelay_late", "sendaddrv2_late", "getcfilters", "locator_oversize", "version_again", "verack_again"};
        static const std::vector<uint32_t> w{3, 2, 2, 3, 2, 4, 2, 4, 2, 2,
                                             2, 2, 2, 1, 2, 3, 2, 2, 1, 2,
                                             2, 2, 3, 4, 2, 2, 3, 2,
                                             3, 3, 12, 1, 1, 1, 1, 1, 1};
        std::string cls = classes[rng.weighted(w)];
        Out o;
        o.cls = cls;
        DataStream ss;
        auto inv_msg = [&](const char* type, std::vector<CInv> v) {
            o.type = type;
            o.payload = SerInv(v);
        };
        if (cls == "ping") {
            o.type = "ping";
            ss << uint64_t{rng.next()};
        } else if (cls == "pong") {
            o.type = "pong";
            ss << uint64_t{rng.next()};
        } else if (cls == "getaddr") {
            o.type = "getaddr";
        } else if (cls == "addr_small" || cls == "addr_oversize" || cls == "addrv2_small") {
            o.type = cls == "addrv2_small" ? "addrv2" : "addr";
            const size_t n = cls == "addr_oversize" ? 1001 : 1 + rng.below(3);
            std::vector<CAddress> v;
            for (size_t i = 0; i < n; ++i) {
                struct in_addr ia;
                ia.s_addr = htonl((12u << 24) | static_cast<uint32_t>(rng.below(1 << 24)));
                CAddress a(CService(CNetAddr(ia), 8333), NODE_NETWORK);
                a.nTime = NodeSeconds{std::chrono::seconds{net.Now()}};
                v.push_back(a);
            }
            if (o.type == "addrv2") ss << CAddress::V2_NETWORK(v);
            else ss << CAddress::V1_NETWORK(v);
        } else if (cls == "inv_tx_unknown") {
            inv_msg("inv", {CInv(ps.wtxidrelay ? MSG_WTX : MSG_TX, RandHash(rng)), CInv(ps.wtxidrelay ? MSG_WTX : MSG_TX, RandHash(rng))});
            return o;
        } else if (cls == "inv_block_unknown") {
            inv_msg("inv", {CInv(MSG_BLOCK, RandHash(rng))});
            return o;
        } else if (cls == "getdata_tx_unknown") {
            inv_msg("getdata", {CInv(MSG_WTX, RandHash(rng)), CInv(MSG_WITNESS_TX, RandHash(rng))});
            return o;
        } else if (cls == "getdata_block_tip") {
            inv_msg("getdata", {CInv(MSG_WITNESS_BLOCK, net.TipHash())});
            return o;
        } else if (cls == "notfound") {
            inv_msg("notfound", {CInv(MSG_WTX, RandHash(rng))});
            return o;
        } else if (cls == "inv_oversize" || cls == "getdata_oversize") {
            std::vector<CInv> v(50001, CInv(MSG_BLOCK, RandHash(rng)));
            inv_msg(cls == "inv_oversize" ? "inv" : "getdata", v);
            return o;
        } else if (cls == "getheaders" || cls == "getblocks" || cls == "locator_oversize") {
            o.type = (cls == "getblocks" || (cls == "locator_oversize" && rng.coin())) ? "getblocks" : "getheaders";
            std::vector<uint256> have{net.TipHash()};
            if (cls == "locator_oversize") have.assign(102, net.TipHash());
            ss << CBlockLocator(std::move(have)) << uint256();
        } else if (cls == "feefilter") {
            o.type = "feefilter";
            ss << int64_t{static_cast<int64_t>(rng.below(2000))};
        } else if (cls == "sendheaders") {
            o.type = "sendheaders";
        } else if (cls == "sendcmpct_ok" || cls == "sendcmpct_bad") {
            o.type = "sendcmpct";
            ss << static_cast<uint8_t>(cls == "sendcmpct_bad" ? 2 + rng.below(200) : rng.below(2)) << uint64_t{2};
        } else if (cls == "mempool") {
            o.type = "mempool";
        } else if (cls == "filterload_ok" || cls == "filterload_oversize") {
            o.type = "filterload";
            std::vector<unsigned char> data(cls == "filterload_ok" ? 64 : 36001, 0xff);
            ss << data << uint32_t{5} << uint32_t{0} << uint8_t{0};
        } else if (cls == "filteradd_ok" || cls == "filteradd_oversize") {
            o.type = "filteradd";
            std::vector<unsigned char> data(cls == "filteradd_ok" ? 32 : 521, 0x11);
            ss << data;
        } else if (cls == "filterclear") {
            o.type = "filterclear";
        } else if (cls == "unknown_msg") {
            o.type = "zzzunknown";
            o.payload = rng.bytes(rng.below(50));
            return o;
        } else if (cls == "getblocktxn_oob") {
            o.type = "getblocktxn";
            BlockTransactionsRequest req;
            req.blockhash = net.TipHash();
            req.indexes = {static_cast<uint16_t>(500 + rng.below(500))};
            ss << req;
        } else if (cls == "blocktxn_unsolicited") {
            o.type = "blocktxn";
            ss << RandHash(rng);
            WriteCompactSize(ss, 0);
        } else if (cls == "cmpctblock_valid" || cls == "cmpctblock_bad_cb_amount") {
            o.type = "cmpctblock";
            BlockSpec s = TipSpec();
            if (cls == "cmpctblock_bad_cb_amount") s.cb_delta = 1;
            auto b = net.BuildBlock(s);
            if (cls == "cmpctblock_valid") last_valid_block = b; // only valid if the peer negotiated compact blocks
            CBlockHeaderAndShortTxIDs cb{*b, rng.next()};
            ss << cb;
            o.block_hash = b->GetHash();
            o.meta = vh::J().str("hash", HexLE(*o.block_hash)).done();
        } else if (cls == "junk_any") {
            const auto& all = ALL_NET_MESSAGE_TYPES;
            o.type = all[rng.below(all.size())];
            o.cls = "junk_" + o.type;
            o.payload = rng.bytes(rng.range(0, 600));
            if (o.type == "headers" && !o.payload.empty()) o.payload[0] = static_cast<unsigned char>(rng.below(200));
            return o;
        } else if (cls == "wtxidrelay_late") {
            o.type = "wtxidrelay";
        } else if (cls == "sendaddrv2_late") {
            o.type = "sendaddrv2";
        } else if (cls == "getcfilters") {
            o.type = "getcfilters";
            ss << uint8_t{0} << uint32_t{1} << net.TipHash();
        } else if (cls == "version_again") {
            o.type = "version";
            o.payload = rng.bytes(90);
            return o;
        } else if (cls == "verack_again") {
            o.type = "verack";
        }
        o.payload = Bytes(ss);
        return o;
    }
};

} // namespace

VH_CMD(net_punish)
{
    const int nsteps = static_cast<int>(args.geti("steps", 36));
    for (uint64_t c = args.from; c < args.to; ++c) {
        vh::set_case(c);
        vh::Rng rng(args.seed, c);
        NodeOpts no;
        no.debuglog = args.geti("debuglog", 0);
        const bool blocksonly = rng.chance(1, 5);
        if (blocksonly) no.extra_args.push_back("-blocksonly=1");
        Net net(no);
        net.SetHexCap(1200);

        const int npeers = 4 + static_cast<int>(rng.below(3));
        std::vector<int> peers;
        for (int i = 0; i < npeers; ++i) {
            PeerSpec ps;
            if (i == 0) {
                // coverage schedule: the first peer walks through every connection type x permission set
                ps.conn = ConnByIndex(c);
                ps.perm = PermByIndex(c / 5);
            } else {
                static const std::vector<uint32_t> cw{5, 3, 3, 1, 1};
                ps.conn = ConnByIndex(rng.weighted(cw));
                static const std::vector<uint32_t> pw{6, 3, 1, 1, 1, 1, 1, 1, 1};
                ps.perm = PermByIndex(rng.weighted(pw));
            }
            ps.relay = rng.chance(17, 20);
            ps.wtxidrelay = rng.chance(3, 4);
            ps.sendaddrv2 = rng.coin();
            ps.sendcmpct = static_cast<int>(rng.below(3)) - 1;
            ps.sendheaders = rng.chance(1, 4);
            ps.local_addr = rng.chance(1, 4);
            ps.inbound_onion = ps.local_addr && ps.conn == ConnectionType::INBOUND && rng.coin();
            if (rng.chance(1, 3)) ps.our_services = ServiceFlags(ps.our_services | NODE_BLOOM);
            const int p = net.AddPeer(ps);
            net.Handshake(p);
            peers.push_back(p);
        }
        for (int p : peers) net.Observe(p);
        net.Ev(vh::J().str("ev", "start"));

        Punish g{net, rng, blocksonly, {}, {}, {}, {}, {}, nullptr};
        // ---- blocks whose validation is DELAYED: stored when delivered, validated (and found invalid) only when a later message
        // of another peer makes the node try to connect them.
        //   kind 0: X sends a sibling of the tip (equal work) that is invalid in ConnectBlock; later Y sends a valid-looking child of it
        //   kind 1: H announces headers [P, C]; X sends the child C (invalid in ConnectBlock) first; later Y sends the valid parent P
        struct Delayed {
            int kind{0}, stage{0}, X{-1};
            std::shared_ptr<CBlock> bad, other;
            uint256 tip_at_start;
        };
        struct PendingVerdict {
            uint256 hash;
            int sender;
            std::string cls;
            bool reported{false};
        };
        std::optional<Delayed> dl;
        std::vector<PendingVerdict> pending;
        int delayed_left = rng.chance(4, 5) ? 1 + static_cast<int>(rng.below(2)) : 0;
        int delayed_start = static_cast<int>(rng.range(1, 14));
        auto bad_block_spec = [&](BlockSpec& s) {
            // invalid only in ConnectBlock: coinbase overpays by 1 sat, or a transaction with a bad signature
            if (rng.coin()) {
                s.cb_delta = 1;
            } else if (auto coin = TryCoin(net, rng, true)) {
                s.txs = {SimpleSpend(net, *coin, 10000, CoinKind::P2WPKH, Mall::BADSIG)};
                s.fees = 10000;
            } else {
                s.cb_delta = 1;
            }
        };
        for (int step = 0; step < nsteps; ++step) {
            std::vector<int> live;
            for (int p : peers) {
                if (!net.Disconnected(p)) live.push_back(p);
            }
            if (live.empty()) break;
            int p = rng.pick(live);
            const uint64_t r = rng.below(100);
            Punish::Out o;
            bool scripted = false;
            if (dl && dl->tip_at_start != net.TipHash() && !(dl->kind == 1 && dl->stage == 3)) dl.reset(); // the tip moved under the scenario: give up
            if (!dl && delayed_left > 0 && step >= delayed_start && live.size() >= 2 && net.TipHeight() >= 2) {
                dl = Delayed{};
                dl->kind = static_cast<int>(rng.below(2));
                dl->tip_at_start = net.TipHash();
                --delayed_left;
                delayed_start = step + 4;
            }
            if (dl && rng.chance(3, 4)) {
                scripted = true;
                auto other_than_x = [&] {
                    std::vector<int> v;
                    for (int q : live) {
                        if (q != dl->X) v.push_back(q);
                    }
                    return v.empty() ? p : rng.pick(v);
                };
                if (dl->kind == 0 && dl->stage == 0) {
                    BlockSpec s;
                    const int h = net.TipHeight();
                    s.prev = WITH_LOCK(cs_main, return net.chainman().ActiveChain()[h - 1]->GetBlockHash());
                    s.height = h;
                    s.time = net.TipTime();
                    bad_block_spec(s);
                    dl->bad = net.BuildBlock(s);
                    dl->X = p;
                    o = g.BlockMsg("block_delayed_sibling", dl->bad);
                    pending.push_back({dl->bad->GetHash(), p, o.cls});
                    dl->stage = 1;
                } else if (dl->kind == 0 && dl->stage == 1) {
                    BlockSpec s;
                    s.prev = dl->bad->GetHash();
                    s.height = net.TipHeight() + 1;
                    s.time = dl->bad->nTime + 1;
                    p = other_than_x();
                    o = g.BlockMsg("block_child_of_delayed", net.BuildBlock(s));
                    dl.reset();
                } else if (dl->kind == 1 && dl->stage == 0) {
                    BlockSpec sp = g.TipSpec();
                    dl->other = net.BuildBlock(sp);
                    BlockSpec sc;
                    sc.prev = dl->other->GetHash();
                    sc.height = sp.height + 1;
                    sc.time = sp.time + 1;
                    bad_block_spec(sc);
                    dl->bad = net.BuildBlock(sc);
                    o.type = "headers";
                    o.cls = "headers_delayed_pair";
                    o.payload = SerHeaders({static_cast<const CBlockHeader&>(*dl->other), static_cast<const CBlockHeader&>(*dl->bad)});
                    dl->stage = 1;
                } else if (dl->kind == 1 && dl->stage == 1) {
                    dl->X = p;
                    o = g.BlockMsg("block_delayed_child", dl->bad);
                    pending.push_back({dl->bad->GetHash(), p, o.cls});
                    dl->stage = 2;
                } else {
                    p = other_than_x();
                    o = g.BlockMsg("block_delayed_parent", dl->other);
                    g.last_valid_block = dl->other;
                    dl.reset();
                }
            } else if (dl) {
                // interleaved traffic that cannot move the tip, preferably not from X (so that X is still connected when the verdict comes)
                std::vector<int> v;
                for (int q : live) {
                    if (q != dl->X) v.push_back(q);
                }
                if (!v.empty()) p = rng.pick(v);
                do {
                    o = r < 60 ? g.MakeTx() : g.MakeMisc(net.Spec(p));
                } while (o.type == "cmpctblock" || o.type == "blocktxn");
            } else {
                o = r < 42 ? g.MakeTx() : r < 60 ? g.MakeBlock() : r < 70 ? g.MakeHeaders() : g.MakeMisc(net.Spec(p));
            }
            net.Ev(vh::J().str("ev", "step").i("n", step).i("p", p).str("cls", o.cls));
            net.Send(p, o.type, o.payload, o.cls, o.meta);
            if (o.block_hash) {
                const std::string v = net.Verdict(*o.block_hash);
                const BlkStatus st = net.Status(*o.block_hash);
                net.Ev(vh::J().str("ev", "verdict").str("hash", HexLE(*o.block_hash)).str("v", v).b("known", st.known).b("failed", st.failed).b("have_data", st.have_data).b("active", st.in_active));
                if (o.type == "block" && st.known && st.failed && o.cls != "block_dup_invalid" && o.cls != "block_high_hash") {
                    g.invalid_blocks.push_back(*o.block_hash);
                    g.invalid_block_payloads.push_back(o.payload);
                }
            }
            for (auto& pv : pending) {
                if (pv.reported) continue;
                const std::string v = net.Verdict(pv.hash);
                if (v.empty()) continue;
                pv.reported = true;
                net.Ev(vh::J().str("ev", "delayed_verdict").str("hash", HexLE(pv.hash)).str("v", v).i("sender", pv.sender).str("cls", pv.cls).b("same_step", pv.sender == p && o.block_hash && *o.block_hash == pv.hash));
            }
            // the next two ProcessMessages / SendMessages rounds of the sender, then one SendMessages round of everybody else
            for (int round = 0; round < 2; ++round) {
                net.Process(p);
                net.SendMessages(p);
            }
            for (int q : peers) {
                if (q != p) net.SendMessages(q);
            }
            for (int q : peers) net.Observe(q);
            if (rng.chance(1, 3)) net.Advance(rng.range(1, 3));
        }
        net.Ev(vh::J().str("ev", "end"));
        vh::log().obs("sessions");
        vh::log().rec(vh::J().u("case", c).str("kind", "net_punish").b("blocksonly", blocksonly).i("tip", net.TipHeight()).raw("peers", net.PeersJson()).raw("ev", net.TakeEvents()));
    }
    return 0;
}

// =====================================================================================================================
// C39 clause 1  net_privacy
// =====================================================================================================================
VH_CMD(net_privacy)
{
    const int nsteps = static_cast<int>(args.geti("steps", 60));
    for (uint64_t c = args.from; c < args.to; ++c) {
        vh::set_case(c);
        vh::Rng rng(args.seed, c);
        NodeOpts no;
        no.debuglog = args.geti("debuglog", 0);
        Net net(no);
        net.SetHexCap(3000);

        // spies only probe; sources only deliver
        std::vector<int> spies, sources;
        const int nspies = 3 + static_cast<int>(rng.below(2));
        for (int i = 0; i < nspies; ++i) {
            PeerSpec ps;
            static const std::vector<uint32_t> cw{5, 3, 2};
            const size_t k = i == 0 ? c % 3 : rng.weighted(cw);
            ps.conn = k == 0 ? ConnectionType::INBOUND : k == 1 ? ConnectionType::OUTBOUND_FULL_RELAY : ConnectionType::MANUAL;
            const size_t pk = i == 0 ? (c / 3) % 4 : rng.below(6);
            ps.perm = pk == 1 ? NetPermissionFlags::NoBan : pk == 2 ? NetPermissionFlags::Mempool : pk == 3 ? NetPermissionFlags::Relay : NetPermissionFlags::None;
            ps.wtxidrelay = rng.chance(2, 3);
            ps.sendaddrv2 = rng.coin();
            const int p = net.AddPeer(ps);
            net.Handshake(p);
            spies.push_back(p);
        }
        for (int i = 0; i < 2; ++i) {
            PeerSpec ps;
            ps.conn = i == 0 ? ConnectionType::INBOUND : ConnectionType::OUTBOUND_FULL_RELAY;
            const int p = net.AddPeer(ps);
            net.Handshake(p);
            sources.push_back(p);
        }
        net.Ev(vh::J().str("ev", "start"));

        MpTracker mp;
        std::vector<CTransactionRef> known;   // every tx of the session (mempool, mined, never submitted)
        std::vector<CTransactionRef> in_pool; // engine's view, only to choose what to mine / spend
        auto new_tx = [&]() -> CTransactionRef {
            // a fresh spend, or a child of a mempool tx
            if (!in_pool.empty() && rng.chance(1, 4)) {
                const auto& parent = rng.pick(in_pool);
                if (parent->vout[0].scriptPubKey == net.ScriptFor(CoinKind::P2WPKH) && net.mempool().exists(parent->GetWitnessHash())) {
                    bool spent = false;
                    for (const auto& t : in_pool) {
                        for (const auto& in : t->vin) spent |= in.prevout == COutPoint(parent->GetHash(), 0);
                    }
                    if (!spent) return SimpleSpend(net, Net::OutputAsCoin(*parent, 0, CoinKind::P2WPKH), 15000);
                }
            }
            auto coin = TryCoin(net, rng);
            if (!coin) return nullptr;
            return SimpleSpend(net, *coin, 15000 + static_cast<CAmount>(rng.below(20000)));
        };

        for (int step = 0; step < nsteps; ++step) {
            const uint64_t r = rng.below(100);
            if (r < 28) {
                // a transaction enters the mempool: from a source peer or submitted locally
                auto tx = new_tx();
                if (!tx) continue;
                known.push_back(tx);
                mp.Track(tx);
                if (rng.chance(2, 3)) {
                    const int s = rng.pick(sources);
                    net.Send(s, "tx", SerTx(*tx), "src_tx", TxMeta(*tx));
                } else {
                    std::string err;
                    const auto res = node::BroadcastTransaction(net.node(), tx, err, /*max_tx_fee=*/0, node::TxBroadcast::MEMPOOL_AND_BROADCAST_TO_ALL, /*wait_callback=*/false);
                    net.Ev(vh::J().str("ev", "local_submit").raw("m", TxMeta(*tx)).i("res", static_cast<int>(res)));
                }
                if (net.mempool().exists(tx->GetWitnessHash())) in_pool.push_back(tx);
                mp.Poll(net);
            } else if (r < 40) {
                net.Advance(rng.range(1, 9));
            } else if (r < 62) {
                // trickle opportunity for one spy (or all)
                if (rng.chance(1, 4)) {
                    for (int s : spies) net.SendMessages(s);
                } else {
                    net.SendMessages(rng.pick(spies));
                }
            } else if (r < 90) {
                // a spy probes
                const int s = rng.pick(spies);
                std::vector<CInv> v;
                const int n = 1 + static_cast<int>(rng.below(3));
                for (int i = 0; i < n; ++i) {
                    if (known.empty() || rng.chance(1, 10)) {
                        v.emplace_back(rng.coin() ? MSG_WTX : MSG_WITNESS_TX, RandHash(rng));
                        continue;
                    }
                    // bias to the most recent additions: that is where the answer depends on the inv timing
                    const size_t idx = rng.chance(2, 3) ? known.size() - 1 - rng.below(std::min<size_t>(3, known.size())) : rng.below(known.size());
                    const auto& tx = known[idx];
                    const uint64_t how = rng.below(3);
                    if (how == 0) v.emplace_back(MSG_WTX, tx->GetWitnessHash().ToUint256());
                    else if (how == 1) v.emplace_back(MSG_WITNESS_TX, tx->GetHash().ToUint256());
                    else v.emplace_back(MSG_TX, tx->GetHash().ToUint256());
                }
                net.Send(s, "getdata", SerInv(v), "probe");
                while (net.Process(s)) {
                }
            } else if (r < 96) {
                // a block confirms part of the mempool
                std::vector<CTransactionRef> take;
                std::set<Txid> taken;
                CAmount fees = 0;
                // parents first: in_pool is in submission order
                for (const auto& tx : in_pool) {
                    if (!net.mempool().exists(tx->GetWitnessHash())) continue;
                    bool parent_ok = true;
                    for (const auto& in : tx->vin) {
                        for (const auto& o : in_pool) {
                            if (o->GetHash() == in.prevout.hash && !taken.count(o->GetHash()) && net.mempool().exists(o->GetWitnessHash())) parent_ok = false;
                        }
                    }
                    if (!parent_ok || !rng.chance(2, 3)) continue;
                    take.push_back(tx);
                    taken.insert(tx->GetHash());
                    LOCK(net.mempool().cs);
                    if (auto e = net.mempool().GetEntry(tx->GetHash())) fees += e->GetFee();
                }
                auto b = net.MineOnTip(take, fees);
                std::vector<std::string> ids;
                for (const auto& tx : take) ids.push_back(vh::JStr(HexLE(tx->GetWitnessHash().ToUint256())));
                net.Ev(vh::J().str("ev", "block").str("hash", HexLE(b->GetHash())).b("tip", net.TipHash() == b->GetHash()).raw("wtxids", vh::JArr(ids)));
                in_pool.erase(std::remove_if(in_pool.begin(), in_pool.end(), [&](const CTransactionRef& t) { return taken.count(t->GetHash()) > 0; }), in_pool.end());
                mp.Poll(net);
            } else {
                // BIP35
                const int s = rng.pick(spies);
                net.Send(s, "mempool", {}, "bip35");
            }
            mp.Poll(net);
        }
        net.Ev(vh::J().str("ev", "end"));
        vh::log().obs("sessions");
        vh::log().rec(vh::J().u("case", c).str("kind", "net_privacy").raw("peers", net.PeersJson()).raw("spies", [&] {
            std::vector<std::string> v;
            for (int s : spies) v.push_back(std::to_string(s));
            return vh::JArr(v);
        }()).raw("ev", net.TakeEvents()));
    }
    return 0;
}

// =====================================================================================================================
// C39 clause 2  net_privbcast
// =====================================================================================================================
VH_CMD(net_privbcast)
{
    for (uint64_t c = args.from; c < args.to; ++c) {
        vh::set_case(c);
        vh::Rng rng(args.seed, c);
        NodeOpts no;
        no.debuglog = args.geti("debuglog", 0);
        no.extra_args.push_back("-privatebroadcast=1");
        Net net(no);
        net.SetHexCap(3000);

        std::vector<int> normal;
        for (int i = 0; i < 3; ++i) {
            PeerSpec ps;
            ps.conn = i == 1 ? ConnectionType::OUTBOUND_FULL_RELAY : ConnectionType::INBOUND;
            ps.wtxidrelay = i != 2;
            if (i == 0 && rng.coin()) ps.perm = NetPermissionFlags::NoBan; // trickles at every SendMessages
            if (i == 2 && rng.coin()) ps.perm = NetPermissionFlags::Mempool;
            const int p = net.AddPeer(ps);
            net.Handshake(p);
            normal.push_back(p);
        }
        net.Ev(vh::J().str("ev", "start"));
        MpTracker mp;
        std::vector<CTransactionRef> priv, pub;
        std::vector<int> pb_peers;
        auto service_normal = [&] {
            for (int p : normal) net.SendMessages(p);
        };
        const int nsteps = 22 + static_cast<int>(rng.below(10));
        for (int step = 0; step < nsteps; ++step) {
            const uint64_t r = rng.below(100);
            if (r < 18 || (step < 2)) {
                auto coin = TryCoin(net, rng);
                if (!coin) continue;
                auto tx = SimpleSpend(net, *coin, 20000);
                mp.Track(tx);
                std::string err;
                const auto res = node::BroadcastTransaction(net.node(), tx, err, 0, node::TxBroadcast::NO_MEMPOOL_PRIVATE_BROADCAST, false);
                net.Ev(vh::J().str("ev", "priv_submit").raw("m", TxMeta(*tx)).i("res", static_cast<int>(res)));
                if (res == node::TransactionError::OK) priv.push_back(tx);
                mp.Poll(net);
            } else if (r < 28) {
                auto coin = TryCoin(net, rng);
                if (!coin) continue;
                auto tx = SimpleSpend(net, *coin, 20000);
                mp.Track(tx);
                pub.push_back(tx);
                if (rng.coin()) {
                    net.Send(rng.pick(normal), "tx", SerTx(*tx), "pub_tx", TxMeta(*tx));
                } else {
                    std::string err;
                    const auto res = node::BroadcastTransaction(net.node(), tx, err, 0, node::TxBroadcast::MEMPOOL_AND_BROADCAST_TO_ALL, false);
                    net.Ev(vh::J().str("ev", "local_submit").raw("m", TxMeta(*tx)).i("res", static_cast<int>(res)));
                }
                mp.Poll(net);
            } else if (r < 58) {
                // one private-broadcast connection, scripted from connect to the end
                PeerSpec ps;
                ps.conn = ConnectionType::PRIVATE_BROADCAST;
                ps.wtxidrelay = false; // the node only sends version/verack/inv/tx/ping on these connections
                ps.sendaddrv2 = false;
                ps.relay = !rng.chance(1, 10);
                const int p = net.AddPeer(ps);
                pb_peers.push_back(p);
                net.Ev(vh::J().str("ev", "pb_open").i("p", p));
                const bool pre_getdata = rng.chance(1, 8);
                if (pre_getdata && !priv.empty()) {
                    // getdata before the handshake completes must not be served
                    net.SendMessages(p);
                    net.Send(p, "getdata", SerInv({CInv(MSG_TX, rng.pick(priv)->GetHash().ToUint256())}), "pb_getdata_early");
                }
                net.Handshake(p);
                auto got = net.Take(p);
                std::optional<uint256> announced;
                for (const auto& m : got) {
                    if (m.type == "inv") {
                        try {
                            auto v = ParseInv(m.data);
                            if (!v.empty()) announced = v[0].hash;
                        } catch (const std::exception&) {
                        }
                    }
                }
                if (announced && !net.Disconnected(p)) {
                    const uint64_t how = rng.below(10);
                    std::vector<CInv> req;
                    std::string cls = "pb_getdata";
                    if (how < 5) req = {CInv(MSG_TX, *announced)};
                    else if (how == 5) {
                        cls = "pb_getdata_other";
                        // some other tx: another private one, a public one, or by wtxid
                        std::vector<uint256> alt;
                        for (const auto& t : priv) {
                            if (t->GetHash().ToUint256() != *announced) alt.push_back(t->GetHash().ToUint256());
                        }
                        for (const auto& t : pub) alt.push_back(t->GetHash().ToUint256());
                        if (alt.empty()) alt.push_back(RandHash(rng));
                        req = {CInv(MSG_TX, rng.pick(alt))};
                    } else if (how == 6) {
                        cls = "pb_getdata_two";
                        req = {CInv(MSG_TX, *announced), CInv(MSG_TX, priv.empty() ? RandHash(rng) : rng.pick(priv)->GetHash().ToUint256())};
                    } else if (how == 7) {
                        cls = "pb_getdata_wtx";
                        uint256 w = *announced;
                        for (const auto& t : priv) {
                            if (t->GetHash().ToUint256() == *announced) w = t->GetWitnessHash().ToUint256();
                        }
                        req = {CInv(MSG_WTX, w)};
                    } else if (how == 8) {
                        cls = "pb_other_msgs";
                        net.Send(p, "mempool", {}, cls);
                        net.Send(p, "inv", SerInv({CInv(MSG_TX, RandHash(rng))}), cls);
                        req = {CInv(MSG_TX, *announced)};
                    } else {
                        req.clear(); // silent peer
                    }
                    if (!req.empty()) {
                        net.Send(p, "getdata", SerInv(req), cls);
                        auto resp = net.Take(p);
                        std::optional<uint64_t> nonce;
                        for (const auto& m : resp) {
                            if (m.type == "ping" && m.data.size() == 8) {
                                uint64_t n;
                                std::memcpy(&n, m.data.data(), 8);
                                nonce = n;
                            }
                        }
                        if (nonce && rng.chance(4, 5) && !net.Disconnected(p)) {
                            DataStream ss;
                            ss << *nonce;
                            net.Send(p, "pong", MakeUCharSpan(ss), "pb_pong");
                        }
                        if (!net.Disconnected(p) && rng.chance(1, 3)) {
                            // a second request on the same connection
                            net.Send(p, "getdata", SerInv({CInv(MSG_TX, priv.empty() ? *announced : rng.pick(priv)->GetHash().ToUint256())}), "pb_getdata_again");
                        }
                    }
                }
                net.SendMessages(p);
                net.Observe(p);
                if (rng.coin()) net.RemovePeer(p);
            } else if (r < 72) {
                service_normal();
            } else if (r < 80) {
                net.Advance(rng.range(1, 20));
            } else if (r < 88) {
                // a normal peer asks for a private tx
                if (priv.empty()) continue;
                const auto& t = rng.pick(priv);
                const int p = rng.pick(normal);
                net.Send(p, "getdata", SerInv({CInv(MSG_WTX, t->GetWitnessHash().ToUint256()), CInv(MSG_WITNESS_TX, t->GetHash().ToUint256())}), "normal_probe");
                while (net.Process(p)) {
                }
            } else if (r < 95) {
                // the private tx comes back from the network
                if (priv.empty()) continue;
                const auto& t = rng.pick(priv);
                net.Send(rng.pick(normal), "tx", SerTx(*t), "recv_back", TxMeta(*t));
                mp.Poll(net);
            } else {
                // ... or is resubmitted without private broadcast
                if (priv.empty()) continue;
                const auto& t = rng.pick(priv);
                std::string err;
                const auto res = node::BroadcastTransaction(net.node(), t, err, 0, node::TxBroadcast::MEMPOOL_AND_BROADCAST_TO_ALL, false);
                net.Ev(vh::J().str("ev", "local_submit").raw("m", TxMeta(*t)).i("res", static_cast<int>(res)));
                mp.Poll(net);
            }
            mp.Poll(net);
        }
        service_normal();
        mp.Poll(net);
        net.Ev(vh::J().str("ev", "end"));
        vh::log().obs("sessions");
        vh::log().rec(vh::J().u("case", c).str("kind", "net_privbcast").raw("peers", net.PeersJson()).raw("ev", net.TakeEvents()));
    }
    return 0;
}

// =====================================================================================================================
// C64  net_malleate
// =====================================================================================================================
VH_CMD(net_malleate)
{
    for (uint64_t c = args.from; c < args.to; ++c) {
        vh::set_case(c);
        vh::Rng rng(args.seed, c);
        NodeOpts no;
        no.debuglog = args.geti("debuglog", 0);
        Net net(no);
        net.SetHexCap(3000);

        // peers: attackers A1 A2 (wtxid relay), honest H1 (inbound) H2 (outbound, preferred) H3 (inbound), control C (txid relay)
        struct P {
            int id;
            std::string role;
        };
        std::vector<P> ps;
        auto add = [&](const std::string& role, ConnectionType ct, bool wtxid) {
            PeerSpec s;
            s.conn = ct;
            s.wtxidrelay = wtxid;
            const int p = net.AddPeer(s);
            net.Handshake(p);
            ps.push_back({p, role});
            return p;
        };
        const int A1 = add("attacker", ConnectionType::INBOUND, true);
        const int A2 = add("attacker", rng.coin() ? ConnectionType::INBOUND : ConnectionType::OUTBOUND_FULL_RELAY, true);
        const int H1 = add("honest", ConnectionType::INBOUND, true);
        const int H2 = add("honest", ConnectionType::OUTBOUND_FULL_RELAY, true);
        const int H3 = add("honest", ConnectionType::INBOUND, true);
        const int C = add("control", ConnectionType::INBOUND, false);
        std::vector<int> all{A1, A2, H1, H2, H3, C};
        for (int p : all) net.Take(p);
        net.Ev(vh::J().str("ev", "start"));

        // scenario parameters (first cases enumerate kind x malleation x orphan systematically)
        struct Variant {
            CoinKind kind;
            Mall mall;
        };
        static const Variant VARS[] = {{CoinKind::P2WPKH, Mall::BADSIG}, {CoinKind::P2WPKH, Mall::STRIPPED}, {CoinKind::P2WSH_DROP, Mall::BADSIG},
                                       {CoinKind::P2WSH_DROP, Mall::STRIPPED}, {CoinKind::P2WSH_DROP, Mall::PAD_NONSTD}, {CoinKind::P2TR, Mall::BADSIG},
                                       {CoinKind::P2TR, Mall::STRIPPED}, {CoinKind::P2WSH_DROP, Mall::PAD_ALT}};
        const Variant var = VARS[c % 8];
        const bool orphan = (c / 8) % 2 == 1;
        const bool unconf = (c / 16) % 2 == 1; // T spends an UNCONFIRMED witness output (of G0, accepted into the mempool first)
        const CAmount fee = 20000;
        MpTracker mp;
        Utxo coin;
        CTransactionRef G0;
        if (unconf) {
            Utxo c0 = net.TakeCoin(CoinKind::P2WPKH);
            G0 = SimpleSpend(net, c0, fee, var.kind, Mall::NONE);
            mp.Track(G0);
            net.Send(H3, "tx", SerTx(*G0), "tx_G0", TxMeta(*G0));
            mp.Poll(net);
            coin = Net::OutputAsCoin(*G0, 0, var.kind);
        } else {
            coin = net.TakeCoin(var.kind);
        }
        // T is the transaction that gets malleated: G itself, or G's unconfirmed parent
        CTransactionRef T = SimpleSpend(net, coin, fee, CoinKind::P2WPKH, Mall::NONE);
        CTransactionRef M = SimpleSpend(net, coin, fee, CoinKind::P2WPKH, var.mall);
        CTransactionRef child; // only in the orphan variant: spends T:0
        if (orphan) child = SimpleSpend(net, Net::OutputAsCoin(*T, 0, CoinKind::P2WPKH), fee, CoinKind::P2WPKH, Mall::NONE);
        mp.Track(T);
        mp.Track(M);
        if (child) mp.Track(child);
        net.Ev(vh::J().str("ev", "scenario").str("kind", CoinKindName(var.kind)).str("mall", MallName(var.mall)).b("orphan", orphan).b("unconf", unconf).b("G0_in", G0 ? net.mempool().exists(G0->GetWitnessHash()) : false).raw("T", TxMeta(*T)).raw("M", TxMeta(*M)).raw("child", child ? TxMeta(*child) : "null"));

        // who has been asked for what (engine-side bookkeeping only to script plausible replies; the oracle re-derives it)
        auto await_requests = [&](int extra_wait) {
            // let the request schedule run: past the non-preferred / txid delays, then (if asked) past an unanswered request
            net.Advance(5);
            for (int p : all) net.SendMessages(p);
            if (extra_wait) {
                net.Advance(extra_wait);
                for (int p : all) net.SendMessages(p);
            }
        };
        auto requested_from = [&](int p, const uint256& h) {
            bool asked = false;
            for (const auto& m : net.Take(p)) {
                if (m.type != "getdata") continue;
                try {
                    for (const auto& inv : ParseInv(m.data)) asked |= inv.hash == h;
                } catch (const std::exception&) {
                }
            }
            return asked;
        };
        auto process_all = [&] {
            for (int round = 0; round < 3; ++round) {
                for (int p : all) {
                    while (net.Process(p)) {
                    }
                }
            }
            mp.Poll(net);
        };

        // step list
        enum Step { INV_M, TX_M, TX_M2, INV_T_H1, INV_T_H2, INV_T_C, TX_T, BLOCK, WAIT, TX_CHILD_A, TX_CHILD_H, INV_CHILD_H, REPLAY_M };
        std::vector<Step> steps;
        if (rng.chance(2, 3)) steps.push_back(INV_M);
        steps.push_back(TX_M);
        if (rng.coin()) steps.push_back(TX_M2);
        steps.push_back(INV_T_H1);
        if (rng.coin()) steps.push_back(INV_T_H2);
        if (rng.coin()) steps.push_back(INV_T_C);
        if (rng.chance(1, 3)) steps.push_back(BLOCK);
        if (rng.chance(1, 3)) steps.push_back(WAIT);
        if (rng.chance(1, 3)) steps.push_back(REPLAY_M);
        if (orphan) {
            steps.push_back(rng.coin() ? TX_CHILD_A : TX_CHILD_H);
            if (rng.coin()) steps.push_back(INV_CHILD_H);
        }
        rng.shuffle(steps);
        // the genuine transaction is delivered last in 3 of 4 scenarios, at a random position otherwise
        if (rng.chance(3, 4)) steps.push_back(TX_T);
        else steps.insert(steps.begin() + rng.below(steps.size() + 1), TX_T);

        std::set<int> asked_T; // honest peers the node sent a getdata(T) to
        bool inv_m_sent = false;
        for (Step s : steps) {
            switch (s) {
            case INV_M: {
                net.Send(A1, "inv", SerInv({CInv(MSG_WTX, M->GetWitnessHash().ToUint256())}), "inv_M", TxMeta(*M));
                inv_m_sent = true;
                await_requests(0);
                break;
            }
            case TX_M:
            case TX_M2:
            case REPLAY_M: {
                const int a = s == TX_M ? A1 : A2;
                net.Send(a, "tx", SerTx(*M), "tx_M", TxMeta(*M));
                process_all();
                break;
            }
            case INV_T_H1:
            case INV_T_H2: {
                const int h = s == INV_T_H1 ? H1 : H2;
                net.Send(h, "inv", SerInv({CInv(MSG_WTX, T->GetWitnessHash().ToUint256())}), "inv_T", TxMeta(*T));
                await_requests(rng.chance(1, 2) ? 61 : 0);
                for (int p : {H1, H2}) {
                    if (requested_from(p, T->GetWitnessHash().ToUint256())) asked_T.insert(p);
                }
                break;
            }
            case INV_T_C: {
                net.Send(C, "inv", SerInv({CInv(MSG_TX, T->GetHash().ToUint256())}), "inv_T_txid", TxMeta(*T));
                await_requests(0);
                break;
            }
            case TX_T: {
                // solicited if someone was asked, else pushed unsolicited by H3
                int from = H3;
                if (!asked_T.empty() && rng.chance(3, 4)) from = *asked_T.begin();
                net.Send(from, "tx", SerTx(*T), "tx_T", TxMeta(*T));
                process_all();
                break;
            }
            case TX_CHILD_A:
            case TX_CHILD_H: {
                const int from = s == TX_CHILD_A ? A2 : H3;
                net.Send(from, "tx", SerTx(*child), "tx_child", TxMeta(*child));
                process_all();
                // the node may now ask the sender for the parent by txid; the attacker answers with the malleated copy
                net.Advance(5);
                for (int p : all) net.SendMessages(p);
                if (requested_from(from, T->GetHash().ToUint256())) {
                    if (from == A2) {
                        net.Send(A2, "tx", SerTx(*M), "tx_M", TxMeta(*M));
                    } else if (rng.coin()) {
                        net.Send(from, "tx", SerTx(*T), "tx_T", TxMeta(*T));
                    } else {
                        net.Send(from, "notfound", SerInv({CInv(MSG_WITNESS_TX, T->GetHash().ToUint256())}), "notfound_T");
                    }
                    process_all();
                }
                break;
            }
            case INV_CHILD_H: {
                net.Send(H1, "inv", SerInv({CInv(MSG_WTX, child->GetWitnessHash().ToUint256())}), "inv_child", TxMeta(*child));
                await_requests(0);
                if (requested_from(H1, child->GetWitnessHash().ToUint256())) {
                    net.Send(H1, "tx", SerTx(*child), "tx_child", TxMeta(*child));
                    process_all();
                    net.Advance(5); // orphan resolution: the missing parent is requested after the non-preferred / txid delays
                    for (int p : all) net.SendMessages(p);
                }
                break;
            }
            case BLOCK: {
                auto b = net.MineOnTip();
                net.Ev(vh::J().str("ev", "block").str("hash", HexLE(b->GetHash())));
                break;
            }
            case WAIT: {
                net.Advance(rng.range(1, 70));
                for (int p : all) net.SendMessages(p);
                break;
            }
            }
            mp.Poll(net);
        }
        // closing phase: whatever is still missing is delivered genuinely once more by a fresh honest path, then everything is processed
        if (orphan) {
            if (!net.mempool().exists(child->GetWitnessHash())) {
                net.Send(H3, "tx", SerTx(*child), "tx_child_final", TxMeta(*child));
                process_all();
            }
        }
        if (!net.mempool().exists(T->GetHash())) {
            net.Send(H3, "tx", SerTx(*T), "tx_T_final", TxMeta(*T));
            process_all();
        }
        process_all();
        std::vector<std::string> orph;
        for (const auto& o : net.peerman().GetOrphanTransactions()) orph.push_back(vh::JStr(HexLE(o.tx->GetWitnessHash().ToUint256())));
        net.Ev(vh::J().str("ev", "final").b("T_wtxid_in", net.mempool().exists(T->GetWitnessHash())).b("T_txid_in", net.mempool().exists(T->GetHash()))
                   .b("child_in", child ? net.mempool().exists(child->GetWitnessHash()) : false).b("M_in", net.mempool().exists(M->GetWitnessHash())).raw("orphans", vh::JArr(orph)));
        for (int p : all) net.Observe(p);
        vh::log().obs("sessions");
        std::vector<std::string> roles;
        for (const auto& p : ps) roles.push_back(vh::J().i("p", p.id).str("role", p.role).done());
        vh::log().rec(vh::J().u("case", c).str("kind", "net_malleate").raw("roles", vh::JArr(roles)).raw("peers", net.PeersJson()).raw("ev", net.TakeEvents()));
    }
    return 0;
}

// =====================================================================================================================
// C58  net_unrequested
// =====================================================================================================================
namespace {

struct ChainBlock {
    std::shared_ptr<CBlock> block;
    uint256 hash;
    int height;
};

//! a branch of coinbase-only blocks on top of (prev, prev_height)
std::vector<ChainBlock> BuildBranch(Net& net, const uint256& prev, int prev_height, uint32_t prev_time, int n)
{
    std::vector<ChainBlock> v;
    uint256 p = prev;
    for (int i = 1; i <= n; ++i) {
        BlockSpec s;
        s.prev = p;
        s.height = prev_height + i;
        s.time = prev_time + i;
        auto b = net.BuildBlock(s);
        v.push_back({b, b->GetHash(), s.height});
        p = v.back().hash;
    }
    return v;
}

} // namespace

VH_CMD(net_unrequested)
{
    for (uint64_t c = args.from; c < args.to; ++c) {
        vh::set_case(c);
        vh::Rng rng(args.seed, c);
        NodeOpts no;
        no.debuglog = args.geti("debuglog", 0);
        no.chain_len = 104;
        no.rich_blocks = 0;
        // scenario classes: 0 fork depths around the tip, 1 far ahead (288 window), 2 minimum chain work, 3 mixed
        const int scen = static_cast<int>(c % 4);
        int mcw_height = 0, mcw_adj = 0;
        if (scen == 2 || (scen == 3 && rng.coin())) {
            mcw_height = no.chain_len + static_cast<int>(rng.range(1, 12));
            mcw_adj = static_cast<int>(rng.range(-1, 1));
            // every regtest block carries proof 2, so the chain ending at height h has work 2*(h+1)
            no.min_chain_work = arith_uint256(static_cast<uint64_t>(2 * (mcw_height + 1) + mcw_adj));
        }
        Net net(no);
        net.SetHexCap(600);
        std::vector<int> peers;
        for (int i = 0; i < 2; ++i) {
            PeerSpec ps;
            ps.conn = i == 0 ? ConnectionType::INBOUND : ConnectionType::OUTBOUND_FULL_RELAY;
            if (rng.chance(1, 4)) ps.perm = NetPermissionFlags::NoBan;
            const int p = net.AddPeer(ps);
            net.Handshake(p);
            peers.push_back(p);
        }
        const int tip0 = net.TipHeight();
        net.Ev(vh::J().str("ev", "start").i("tip", tip0).str("min_chain_work", no.min_chain_work ? no.min_chain_work->GetHex() : "0").u("bits", net.Bits()));

        // candidate blocks
        struct Cand {
            ChainBlock cb;
            bool headers_first;
            std::string what;
        };
        std::vector<Cand> cands;
        auto hash_at = [&](int h) { return WITH_LOCK(cs_main, return net.chainman().ActiveChain()[h]->GetBlockHash()); };
        auto time_at = [&](int h) { return WITH_LOCK(cs_main, return net.chainman().ActiveChain()[h]->nTime); };
        auto add_branch = [&](int fork_height, int len, const std::string& what, bool headers_first, const std::vector<int>& pick_offsets) {
            auto br = BuildBranch(net, hash_at(fork_height), fork_height, time_at(fork_height), len);
            if (headers_first) {
                std::vector<CBlockHeader> hs;
                for (const auto& b : br) hs.push_back(static_cast<const CBlockHeader&>(*b.block));
                std::string rej;
                const bool ok = net.SubmitHeaders(hs, &rej);
                net.Ev(vh::J().str("ev", "headers").i("from", fork_height + 1).i("n", len).b("ok", ok).str("rej", rej));
            }
            for (int off : pick_offsets) {
                if (off >= 1 && off <= len) cands.push_back({br[off - 1], headers_first, what});
            }
            return br;
        };
        if (scen == 0 || scen == 3) {
            // forks at depth d below the tip with length reaching up to tip+1: block heights tip-3 .. tip+1
            for (int d = 1; d <= 4; ++d) {
                const int fork = tip0 - d;
                const bool hf = rng.coin();
                std::vector<int> offs;
                for (int o = 1; o <= d + 1; ++o) {
                    if (hf || o == 1) offs.push_back(o); // without headers only the first block of a branch has a known parent
                }
                add_branch(fork, d + 1, "fork", hf, offs);
            }
            add_branch(tip0, 1, "extend", false, {1});
            if (rng.coin()) add_branch(tip0 - 100, 1, "deep_fork", false, {1});
        }
        if (scen == 1 || scen == 3) {
            std::vector<int> offs{287, 288, 289, 290};
            for (int i = 0; i < 3; ++i) offs.push_back(static_cast<int>(rng.range(2, 300)));
            add_branch(tip0, 300, "ahead", true, offs);
            // a second, competing far-ahead branch forking one below the tip
            if (rng.coin()) add_branch(tip0 - 1, 295, "ahead_fork", true, {288, 289, 290, static_cast<int>(rng.range(2, 295))});
        }
        if (mcw_height) {
            std::vector<int> offs;
            for (int h = mcw_height - 2; h <= mcw_height + 2; ++h) offs.push_back(h - tip0);
            offs.push_back(1);
            add_branch(tip0, mcw_height - tip0 + 4, "minwork", true, offs);
        }
        rng.shuffle(cands);
        if (cands.size() > 14) cands.resize(14);

        auto describe = [&](const uint256& h) {
            const BlkStatus st = net.Status(h);
            return vh::J().b("known", st.known).b("have_data", st.have_data).b("failed", st.failed).u("ntx", st.ntx).b("active", st.in_active).done();
        };
        auto anc_have_data = [&](const CBlock& b) {
            // every ancestor down to the active chain has its data (so the block can be connected once stored)
            LOCK(cs_main);
            const CBlockIndex* pi = net.chainman().m_blockman.LookupBlockIndex(b.hashPrevBlock);
            if (!pi) return false;
            for (; pi; pi = pi->pprev) {
                if (net.chainman().ActiveChain().Contains(*pi)) break;
                if (!(pi->nStatus & BLOCK_HAVE_DATA)) return false;
            }
            return true;
        };
        std::vector<Cand> dropped;
        auto deliver = [&](const Cand& cd, bool forced, const std::string& phase) {
            const bool via_net = !forced && rng.coin();
            const int tip_h = net.TipHeight();
            const uint256 tip_hash = net.TipHash();
            const uint64_t usage0 = net.BlockFileBytes();
            const std::string before = describe(cd.cb.hash);
            const bool anc = anc_have_data(*cd.cb.block);
            bool ret = false, nb = false;
            int via_peer = -1;
            if (via_net) {
                via_peer = rng.pick(peers);
                net.Send(via_peer, "block", SerBlock(*cd.cb.block), "unrequested_block", vh::J().str("hash", HexLE(cd.cb.hash)).done());
            } else {
                ret = net.SubmitBlock(cd.cb.block, forced, &nb);
            }
            const uint64_t usage1 = net.BlockFileBytes();
            net.Ev(vh::J().str("ev", "delivery").str("phase", phase).str("what", cd.what).str("hash", HexLE(cd.cb.hash)).i("height", cd.cb.height).b("headers_first", cd.headers_first)
                       .b("forced", forced).b("via_net", via_net).i("peer", via_peer).i("tip_h", tip_h).str("tip", HexLE(tip_hash)).b("ret", ret).b("new_block", nb)
                       .u("usage0", usage0).u("usage1", usage1).raw("before", before).raw("after", describe(cd.cb.hash)).b("anc_data", anc)
                       .i("tip_h_after", net.TipHeight()).str("tip_after", HexLE(net.TipHash())).str("verdict", net.Verdict(cd.cb.hash)).u("blen", SerBlock(*cd.cb.block).size()));
            vh::log().obs("deliveries");
            return net.Status(cd.cb.hash).have_data;
        };
        for (const auto& cd : cands) {
            const bool had = net.Status(cd.cb.hash).have_data;
            const bool stored = deliver(cd, /*forced=*/false, "unrequested");
            if (!stored && !had) dropped.push_back(cd);
            if (stored && rng.chance(1, 4)) deliver(cd, false, "again"); // already have it: nothing new is written
            if (!stored && rng.chance(1, 3)) {
                deliver(cd, /*forced=*/true, "forced");
                dropped.pop_back();
            }
        }
        for (const auto& cd : dropped) deliver(cd, /*forced=*/true, "forced");
        net.Ev(vh::J().str("ev", "end"));
        vh::log().obs("sessions");
        vh::log().rec(vh::J().u("case", c).str("kind", "net_unrequested").i("scen", scen).i("mcw_height", mcw_height).i("mcw_adj", mcw_adj).raw("peers", net.PeersJson()).raw("ev", net.TakeEvents()));
    }
    return 0;
}
