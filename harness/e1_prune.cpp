// C19: pruning never deletes data the node still needs (E1 class "prune").
//
// One case = one history on a regtest node with real block/undo files on disk (`fast_prune`: 64 KiB block files), prune
// mode manual or automatic: a chain of 400-1200 blocks of random sizes (padded coinbase OP_RETURN output; one spend of a
// 100-deep coinbase per block so that undo data is real), reorgs of depth 1-12, prune locks set/moved/deleted the way an
// index does (UpdatePruneLock with the height of its best block), manual prunes at random heights (also above tip-288
// and above the tip), explicit automatic prunes (PruneAndFlush) and the natural ones inside ProcessNewBlock.  Automatic
// pruning needs usage above the 550 MiB minimum target: the accounting size (CBlockFileInfo::nSize, through the public
// GetBlockFileInfo pointer) of already finalised files is inflated instead of writing that much data.
// Every fifth history starts from the deterministic chain with the committed assumeutxo block 110, loads the genuine
// snapshot and keeps the background chainstate behind (some of its blocks stored out of order, i.e. on disk but not yet
// validated) while the snapshot chain grows and is pruned.
//
// Before every call that can prune the engine records: blk/rev files on disk, for every block index entry with data its
// file number / height / flags (taken from the block index, not from the per-file summary the code uses), tip, the
// harness' own table of prune locks, usage, target, snapshot state.  After the call: which files are gone.  Online
// monitors: flags of deleted blocks cleared, flags of survivors intact, survivors still readable (ReadBlock /
// ReadBlockUndo).  The height rules (288 window, locks, snapshot) and the post-condition of automatic pruning are
// decided offline by checks/C19.py from the logged event.
#include <common/vh.h>
#include <snapchain.h>

#include <consensus/merkle.h>
#include <kernel/chainparams.h>
#include <node/blockstorage.h>
#include <node/chainstate.h>
#include <node/kernel_notifications.h>
#include <script/script.h>
#include <undo.h>
#include <util/check.h>

#include <algorithm>
#include <dirent.h>
#include <limits>
#include <map>
#include <optional>
#include <set>

namespace {
using snapchain::Bytes;
using snapchain::Chain;
using node::BlockManager;
using kernel::CBlockFileInfo;

constexpr uint64_t MiB = 1024 * 1024;

struct PruneNode : public ChainTestingSetup {
    PruneNode(uint64_t prune_target)
        : ChainTestingSetup{ChainType::REGTEST, TestOpts{.extra_args = {"-debug=0", "-checkmempool=0", "-fastprune"}, .setup_net = false}}
    {
        m_node.chainman.reset();
        m_make_chainman = [this, prune_target] {
            Assert(!m_node.chainman);
            const CChainParams& chainparams = Params();
            ChainstateManager::Options chainman_opts{
                .chainparams = chainparams,
                .datadir = m_args.GetDataDirNet(),
                .check_block_index = 16, // in-tree consistency checker, 1 call in 16
                .notifications = static_cast<kernel::Notifications&>(*m_node.notifications),
                .signals = m_node.validation_signals.get(),
                .worker_threads_num = 0,
                .prevoutfetch_threads_num = 0,
            };
            const BlockManager::Options blockman_opts{
                .chainparams = chainman_opts.chainparams,
                .prune_target = prune_target,
                .fast_prune = true,
                .blocks_dir = m_args.GetBlocksDirPath(),
                .notifications = chainman_opts.notifications,
                .block_tree_db_params = DBParams{
                    .path = m_args.GetDataDirNet() / "blocks" / "index",
                    .cache_bytes = m_kernel_cache_sizes.block_tree_db,
                    .memory_only = true,
                    .wipe_data = false,
                },
            };
            m_node.chainman = std::make_unique<ChainstateManager>(*Assert(m_node.shutdown_signal), chainman_opts, blockman_opts);
        };
        m_make_chainman();
        LoadVerifyActivateChainstate();
    }
};

struct BlkRef {
    const CBlockIndex* pi;
    int file;
    int height;
    bool undo;
    bool active;
    unsigned pos;
};
struct FileInfoCopy {
    uint64_t size{0}, undo{0};
    uint32_t first{0}, last{0}, nblocks{0};
};
struct Snap {
    std::set<int> blk_on_disk, rev_on_disk;
    std::vector<BlkRef> refs;
    std::vector<FileInfoCopy> info; // by file number
    int tip{-1};
    uint64_t usage{0};
};

struct Hist {
    PruneNode& n;
    ChainstateManager& cm;
    fs::path blocks_dir;
    vh::Rng& rng;
    vh::Rng& mon; // sampling decisions of the monitors (kept apart from the workload generator)
    const Consensus::Params& cp;
    uint64_t target;   // configured prune target (0xffff.. = manual only)
    bool automatic;
    std::map<std::string, int> locks; // harness' own table (what the "indexes" last set)
    std::map<uint256, Txid> coinbase_of; // blocks built here
    uint64_t salt{0};
    int nev{0};
    uint64_t c;
    // snapshot histories
    bool snapshot{false};
    Chainstate* snap_cs{nullptr};
    Chainstate* bg_cs{nullptr};
    int base_height{0};
    int lock_regime{0};
    // stats
    int blocks_mined{0}, reorgs{0}, max_reorg{0};
    std::set<int> protected_files; // files a chainstate is still writing to (never inflated)
    // height ranges [lo, hi] that were written to disk out of height order and then closed by a file roll-over: the
    // file's last-written block is lower than its highest one
    std::vector<std::pair<int, int>> ooo;
    std::set<size_t> ooo_aimed;
    int aimed{0};
};

// plain readdir: this runs twice per submitted block
void ListDir(const fs::path& dir, std::set<int>& blk, std::set<int>& rev)
{
    DIR* d = opendir(fs::PathToString(dir).c_str());
    if (!d) throw std::runtime_error("cannot list the blocks directory");
    while (struct dirent* e = readdir(d)) {
        const char* nm = e->d_name;
        if (std::strlen(nm) == 12 && std::strcmp(nm + 8, ".dat") == 0) {
            const int num = std::atoi(std::string(nm + 3, 5).c_str());
            if (std::strncmp(nm, "blk", 3) == 0) blk.insert(num);
            if (std::strncmp(nm, "rev", 3) == 0) rev.insert(num);
        }
    }
    closedir(d);
}

Snap TakeSnap(Hist& h)
{
    Snap s;
    ListDir(h.blocks_dir, s.blk_on_disk, s.rev_on_disk);
    LOCK(::cs_main);
    const CChain& ac = h.cm.ActiveChain();
    s.tip = ac.Height();
    s.refs.reserve(h.cm.m_blockman.m_block_index.size());
    for (const auto& [hash, bi] : h.cm.m_blockman.m_block_index) {
        if (bi.nStatus & BLOCK_HAVE_DATA) {
            s.refs.push_back(BlkRef{&bi, bi.nFile, bi.nHeight, bool(bi.nStatus & BLOCK_HAVE_UNDO), ac.Contains(bi), bi.nDataPos});
        }
    }
    for (int f = 0;; ++f) {
        try {
            const CBlockFileInfo* fi = h.cm.m_blockman.GetBlockFileInfo(f);
            s.info.push_back(FileInfoCopy{fi->nSize, fi->nUndoSize, fi->nHeightFirst, fi->nHeightLast, fi->nBlocks});
        } catch (const std::out_of_range&) {
            break;
        }
    }
    s.usage = h.cm.m_blockman.CalculateCurrentUsage();
    return s;
}

CBlock BuildBlock(Hist& h, const CBlockIndex* parent, size_t target_size, bool with_spend)
{
    CBlock b;
    const int height = parent->nHeight + 1;
    b.nVersion = 0x20000000;
    b.hashPrevBlock = parent->GetBlockHash();
    b.nTime = std::max<int64_t>(parent->GetMedianTimePast() + 1, parent->GetBlockTime() + 1);
    b.nBits = parent->nBits;
    CMutableTransaction cb;
    cb.vin.resize(1);
    cb.vin[0].prevout.SetNull();
    cb.vin[0].scriptSig = CScript() << height << CScriptNum(int64_t(++h.salt) + 0x10000);
    cb.vout.emplace_back(1000, CScript() << OP_TRUE);
    std::vector<CTransactionRef> txs;
    if (with_spend && height > 100) {
        const CBlockIndex* anc = parent->GetAncestor(height - 100);
        auto it = anc ? h.coinbase_of.find(anc->GetBlockHash()) : h.coinbase_of.end();
        if (it != h.coinbase_of.end()) {
            CMutableTransaction sp;
            sp.vin.emplace_back(COutPoint{it->second, 0}, CScript(), 0xffffffff);
            sp.vout.emplace_back(500, CScript() << OP_TRUE);
            txs.push_back(MakeTransactionRef(std::move(sp)));
        }
    }
    size_t base = 80 + 1 + 4 + 1 + 41 + cb.vin[0].scriptSig.size() + 1 + (8 + 1 + 1) + 4;
    for (const auto& t : txs) base += t->ComputeTotalSize();
    if (target_size > base + 16) {
        CScript pad;
        pad << OP_RETURN;
        std::vector<unsigned char> zeros(target_size - base - 16, 0);
        pad.insert(pad.end(), zeros.begin(), zeros.end());
        cb.vout.emplace_back(0, pad);
    }
    b.vtx.push_back(MakeTransactionRef(std::move(cb)));
    for (auto& t : txs) b.vtx.push_back(t);
    b.hashMerkleRoot = BlockMerkleRoot(b);
    while (!CheckProofOfWork(b.GetHash(), b.nBits, h.cp)) ++b.nNonce;
    h.coinbase_of.emplace(b.GetHash(), b.vtx[0]->GetHash());
    return b;
}

size_t RandomBlockSize(vh::Rng& rng)
{
    switch (rng.weighted({58, 25, 11, 4, 2})) {
    case 0: return 0;
    case 1: return 1000 + rng.below(7000);
    case 2: return 8000 + rng.below(32000);
    case 3: return 40000 + rng.below(30000);
    default: return 66000 + rng.below(60000);
    }
}

std::string LocksJson(const Hist& h)
{
    vh::J j;
    for (const auto& [k, v] : h.locks) j.i(k, v);
    return j.done();
}

// Re-assert the harness' lock table in the node (an index rewinds and re-announces its best block after a reorg; the node
// itself moves locks back in DisconnectTip, which is not visible through the public interface).
void SyncLocks(Hist& h)
{
    LOCK(::cs_main);
    for (const auto& [k, v] : h.locks) h.cm.m_blockman.UpdatePruneLock(k, node::PruneLockInfo{.height_first = v});
}

enum class CallType { MANUAL, AUTO, NATURAL };

// Runs `call` (something that may prune) between two observations; online monitors + one event record.
template <typename F>
void Observed(Hist& h, CallType type, int manual_height, F&& call)
{
    const Snap pre = TakeSnap(h);
    int bg_tip_pre = -1;
    bool validated_pre = true;
    if (h.snapshot) {
        LOCK(::cs_main);
        bg_tip_pre = h.bg_cs->m_chain.Height();
        validated_pre = h.snap_cs->m_assumeutxo == Assumeutxo::VALIDATED;
    }
    call();
    std::set<int> blk, rev;
    ListDir(h.blocks_dir, blk, rev);
    std::set<int> deleted;
    for (int f : pre.blk_on_disk) if (!blk.count(f)) deleted.insert(f);
    for (int f : pre.rev_on_disk) if (!rev.count(f)) deleted.insert(f);
    if (type == CallType::NATURAL && deleted.empty()) return;
    std::map<int, std::vector<BlkRef>> by_file;
    for (const BlkRef& r : pre.refs) by_file[r.file].push_back(r);

    int tip_post, bg_tip_post = -1;
    bool validated_post = true;
    uint64_t usage_post;
    std::vector<std::string> jdel, jrem;
    uint64_t flags_kept = 0, flags_lost = 0, unreadable = 0, half_deleted = 0, checked_read = 0;
    {
        LOCK(::cs_main);
        tip_post = h.cm.ActiveChain().Height();
        usage_post = h.cm.m_blockman.CalculateCurrentUsage();
        if (h.snapshot) {
            bg_tip_post = h.bg_cs->m_chain.Height();
            validated_post = h.snap_cs->m_assumeutxo == Assumeutxo::VALIDATED;
        }
    }
    // which survivors get a read-back
    std::set<int> read_files;
    for (int f : deleted) { read_files.insert(f - 1); read_files.insert(f + 1); }
    for (const auto& [f, refs] : by_file) {
        const bool gone = deleted.count(f);
        if (gone) {
            if (blk.count(f) || rev.count(f)) {
                // only one of the pair removed (a rev file exists only once undo data was written)
                if (pre.blk_on_disk.count(f) && pre.rev_on_disk.count(f)) ++half_deleted;
            }
            std::vector<std::string> bl;
            int mn = INT32_MAX, mx = -1;
            const BlkRef* lastw = &refs.front();
            for (const BlkRef& r : refs) if (r.pos > lastw->pos) lastw = &r;
            for (const BlkRef& r : refs) {
                bl.push_back("[" + std::to_string(r.height) + "," + (r.active ? "1" : "0") + "]");
                mn = std::min(mn, r.height);
                mx = std::max(mx, r.height);
                LOCK(::cs_main);
                if (r.pi->nStatus & (BLOCK_HAVE_DATA | BLOCK_HAVE_UNDO)) {
                    if (flags_kept++ < 3)
                        vh::log().violation("pruned-block-keeps-data-flag", "block whose file was deleted still has BLOCK_HAVE_DATA/UNDO",
                                            vh::J().i("file", f).i("height", r.height).u("status", r.pi->nStatus));
                }
            }
            const FileInfoCopy fi = f >= 0 && size_t(f) < pre.info.size() ? pre.info[f] : FileInfoCopy{};
            jdel.push_back(vh::J().i("f", f).i("minh", mn).i("maxh", mx).u("fi_first", fi.first).u("fi_last", fi.last).u("size", fi.size).u("undo", fi.undo).i("lw", lastw->height)
                               .raw("blocks", vh::JArr(bl)).done());
        } else {
            int mn = INT32_MAX, mx = -1;
            const BlkRef* lastw = &refs.front();
            for (const BlkRef& r : refs) if (r.pos > lastw->pos) lastw = &r;
            for (const BlkRef& r : refs) {
                mn = std::min(mn, r.height);
                mx = std::max(mx, r.height);
                bool lost;
                {
                    LOCK(::cs_main);
                    lost = !(r.pi->nStatus & BLOCK_HAVE_DATA) || (r.undo && !(r.pi->nStatus & BLOCK_HAVE_UNDO)) || r.pi->nFile != f;
                }
                if (lost) {
                    if (flags_lost++ < 3)
                        vh::log().violation("surviving-block-lost-data-flag", "block in a file that was not deleted lost BLOCK_HAVE_DATA/UNDO or its position",
                                            vh::J().i("file", f).i("height", r.height).u("status", r.pi->nStatus));
                    continue;
                }
                if (!deleted.empty() && (read_files.count(f) || h.mon.chance(1, 40))) {
                    ++checked_read;
                    CBlock blkdata;
                    bool ok = h.cm.m_blockman.ReadBlock(blkdata, *r.pi) && blkdata.GetHash() == r.pi->GetBlockHash();
                    if (ok && r.undo && r.pi->nHeight > 0) {
                        CBlockUndo u;
                        ok = h.cm.m_blockman.ReadBlockUndo(u, *r.pi) && u.vtxundo.size() + 1 == blkdata.vtx.size();
                    }
                    if (!ok && unreadable++ < 3)
                        vh::log().violation("surviving-block-unreadable", "block/undo data of a surviving flagged block cannot be read back after a prune",
                                            vh::J().i("file", f).i("height", r.height));
                }
            }
            if (type != CallType::NATURAL) {
                const FileInfoCopy fi = f >= 0 && size_t(f) < pre.info.size() ? pre.info[f] : FileInfoCopy{};
                jrem.push_back("[" + std::to_string(f) + "," + std::to_string(mn) + "," + std::to_string(mx) + "," + std::to_string(fi.first) + "," + std::to_string(fi.last) + "," +
                               std::to_string(fi.size) + "," + std::to_string(fi.undo) + "," + std::to_string(lastw->height) + "]");
            }
        }
    }
    if (half_deleted) vh::log().violation("blk-rev-not-deleted-together", "only one of blk/rev of a pruned file number was removed", vh::J().u("n", half_deleted));
    const char* tn = type == CallType::MANUAL ? "manual" : type == CallType::AUTO ? "auto" : "natural";
    vh::J rec;
    rec.u("case", h.c).i("ev", h.nev++).str("type", tn).i("arg", manual_height).i("tip_pre", pre.tip).i("tip_post", tip_post).raw("locks", LocksJson(h))
        .u("usage_pre", pre.usage).u("usage_post", usage_post).b("automatic", h.automatic).u("target", h.target).i("prune_after", 100)
        .b("snapshot", h.snapshot).i("base", h.base_height).i("bg_tip_pre", bg_tip_pre).i("bg_tip_post", bg_tip_post).b("validated_pre", validated_pre).b("validated_post", validated_post)
        .i("maxfile", int(pre.info.size()) - 1).raw("deleted", vh::JArr(jdel)).raw("remaining", vh::JArr(jrem)).u("read_back", checked_read).u("flags_kept", flags_kept).u("flags_lost", flags_lost).u("unreadable", unreadable);
    vh::log().rec(rec);
    vh::log().obs(std::string("events_") + tn);
    if (!deleted.empty()) vh::log().obs(std::string("prunes_") + tn);
    vh::log().obs("files_deleted", deleted.size());
    vh::log().obs("read_back", checked_read);
}

void Submit(Hist& h, const CBlock& b, bool expect_tip)
{
    auto sp = std::make_shared<const CBlock>(b);
    Observed(h, CallType::NATURAL, 0, [&] {
        bool nb = false;
        if (!h.cm.ProcessNewBlock(sp, /*force_processing=*/true, /*min_pow_checked=*/true, &nb)) throw std::runtime_error("generated block rejected by ProcessNewBlock");
    });
    if (expect_tip) {
        LOCK(::cs_main);
        if (h.cm.ActiveChain().Tip()->GetBlockHash() != b.GetHash()) throw std::runtime_error("generated block did not become the tip");
    }
    ++h.blocks_mined;
}

const CBlockIndex* Tip(Hist& h) { return WITH_LOCK(::cs_main, return h.cm.ActiveChain().Tip()); }

void Mine(Hist& h, int n)
{
    for (int i = 0; i < n; ++i) {
        const CBlockIndex* tip = Tip(h);
        Submit(h, BuildBlock(h, tip, RandomBlockSize(h.rng), true), true);
    }
}


void ManualPruneAt(Hist& h, int height);
void AutoPrune(Hist& h);
void NoteWriteFiles(Hist& h);

// When tip-288 falls strictly inside an out-of-order range, a prune right now has its boundary inside that file.
void MaybeAimedPrune(Hist& h)
{
    const int tip = Tip(h)->nHeight;
    const int edge = tip - 288;
    for (size_t wi = 0; wi < h.ooo.size(); ++wi) {
        const auto [lo, hi] = h.ooo[wi];
        if (lo <= edge && edge < hi && !h.ooo_aimed.count(wi) && h.rng.chance(1, 2)) {
            h.ooo_aimed.insert(wi); // one aimed prune per window
            ++h.aimed;
            vh::log().obs("aimed_prunes_at_window_edge");
            if (h.automatic && h.rng.coin()) {
                // make sure automatic pruning wants to get as far as this file
                {
                    LOCK(::cs_main);
                    const CBlockIndex* pi = h.cm.ActiveChain()[lo];
                    if (pi && (pi->nStatus & BLOCK_HAVE_DATA) && !h.protected_files.count(pi->nFile)) {
                        CBlockFileInfo* fi = h.cm.m_blockman.GetBlockFileInfo(pi->nFile);
                        if (fi->nSize > 0 && fi->nSize < 100 * MiB) fi->nSize += 900 * MiB;
                    }
                }
                AutoPrune(h);
            } else {
                ManualPruneAt(h, h.rng.coin() ? tip : edge + int(h.rng.below(hi - edge + 3)));
            }
            return;
        }
    }
}

// Headers first, then the block data in reverse or shuffled order (2..8 blocks, sometimes 12..18 so that a prune lock's
// buffer fits inside), optionally followed by a block that forces a new file: the file then ends with a block that is
// lower than its highest one.
void MineOutOfOrder(Hist& h, int n, bool roll_after)
{
    const CBlockIndex* parent = Tip(h);
    const int lo = parent->nHeight + 1;
    std::vector<CBlock> blocks;
    for (int i = 0; i < n; ++i) {
        CBlock b = BuildBlock(h, parent, h.rng.chance(1, 4) ? 600 + h.rng.below(2500) : 0, true);
        BlockValidationState st;
        const CBlockHeader hd = static_cast<const CBlockHeader&>(b);
        if (!h.cm.ProcessNewBlockHeaders(std::span<const CBlockHeader>{&hd, 1}, true, st)) throw std::runtime_error("generated header rejected: " + st.ToString());
        parent = WITH_LOCK(::cs_main, return h.cm.m_blockman.LookupBlockIndex(b.GetHash()));
        if (!parent) throw std::runtime_error("header not in the index");
        blocks.push_back(std::move(b));
    }
    std::vector<int> order(n);
    for (int i = 0; i < n; ++i) order[i] = n - 1 - i; // reverse
    if (h.rng.chance(1, 3)) {
        h.rng.shuffle(order);
        if (order.back() == n - 1) std::swap(order.front(), order.back()); // the highest block is never written last
    }
    for (int i : order) Submit(h, blocks[i], false);
    if (Tip(h) != parent) throw std::runtime_error("out-of-order delivered blocks did not become the active chain");
    vh::log().obs("ooo_windows");
    vh::log().obs("ooo_blocks", n);
    if (roll_after) {
        Submit(h, BuildBlock(h, Tip(h), 66000 + h.rng.below(30000), true), true);
        h.ooo.emplace_back(lo, lo + n - 1);
        vh::log().obs("ooo_windows_closed_by_rollover");
    }
}

// A stale block some heights below the tip arrives late (it is written behind higher blocks and does not reorganise),
// then a block that forces a new file.
void StaleThenRoll(Hist& h)
{
    const CBlockIndex* tip = Tip(h);
    const int d = 1 + h.rng.below(12);
    const int floor_h = h.snapshot ? h.base_height : 0;
    if (tip->nHeight - d <= floor_h) return;
    const CBlockIndex* parent = tip->GetAncestor(tip->nHeight - d);
    Submit(h, BuildBlock(h, parent, 0, true), false);
    if (Tip(h) != tip) throw std::runtime_error("stale block changed the tip");
    Submit(h, BuildBlock(h, tip, 66000 + h.rng.below(30000), true), true);
    h.ooo.emplace_back(tip->nHeight - d + 1, tip->nHeight);
    vh::log().obs("late_stale_blocks");
}

// growth with out-of-order episodes mixed in
void Grow(Hist& h, int n)
{
    const int target = Tip(h)->nHeight + n;
    while (Tip(h)->nHeight < target) {
        switch (h.rng.weighted({78, 14, 4, 4})) {
        case 0: Mine(h, 1 + h.rng.below(6)); break;
        case 1: MineOutOfOrder(h, 2 + h.rng.below(7), h.rng.chance(3, 4)); break;
        case 2: MineOutOfOrder(h, 12 + h.rng.below(7), true); break;
        default: StaleThenRoll(h); break;
        }
        NoteWriteFiles(h);
        MaybeAimedPrune(h);
    }
}

// a prune lock placed on top of an out-of-order range (an index that has synced exactly that far), then a manual prune
void LockOnWindowThenPrune(Hist& h)
{
    const int tip = Tip(h)->nHeight;
    std::vector<std::pair<int, int>> cand;
    for (const auto& w : h.ooo) if (w.second - w.first >= 11 && w.second <= tip - 288) cand.push_back(w);
    if (cand.empty()) return;
    const auto w = cand[h.rng.below(cand.size())];
    const int v = w.second - int(h.rng.below(std::max(1, w.second - w.first - 10)));
    {
        LOCK(::cs_main);
        // the other "indexes" are further ahead, this one is the limiting lock
        for (auto& [k, lv] : h.locks) if (lv < v) { lv = v; h.cm.m_blockman.UpdatePruneLock(k, node::PruneLockInfo{.height_first = lv}); }
        h.locks["idxW"] = v;
        h.cm.m_blockman.UpdatePruneLock("idxW", node::PruneLockInfo{.height_first = v});
    }
    vh::log().obs("lock_on_ooo_window");
    ManualPruneAt(h, tip);
}

void Reorg(Hist& h)
{
    const CBlockIndex* tip = Tip(h);
    const int depth = 1 + h.rng.below(12);
    const int floor_h = h.snapshot ? h.base_height : 0;
    if (tip->nHeight - depth <= floor_h) return;
    const CBlockIndex* parent = tip->GetAncestor(tip->nHeight - depth);
    const int len = depth + 1 + h.rng.below(3);
    for (int i = 0; i < len; ++i) {
        CBlock b = BuildBlock(h, parent, RandomBlockSize(h.rng), true);
        Submit(h, b, false);
        parent = WITH_LOCK(::cs_main, return h.cm.m_blockman.LookupBlockIndex(b.GetHash()));
        if (!parent) throw std::runtime_error("side-branch block not in the index");
    }
    if (Tip(h) != parent) throw std::runtime_error("longer side branch did not become the active chain");
    ++h.reorgs;
    h.max_reorg = std::max(h.max_reorg, depth);
    // indexes rewind to the fork point
    const int fork_h = tip->nHeight - depth;
    for (auto& [k, v] : h.locks) if (v != std::numeric_limits<int>::max() && v > fork_h) v = fork_h;
    SyncLocks(h);
    vh::log().obs("reorgs");
    vh::log().obs_max("reorg_depth", depth);
}

void LockAction(Hist& h)
{
    const char* names[3] = {"idxA", "idxB", "idxC"};
    const std::string name = names[h.rng.below(3)];
    const int tip = Tip(h)->nHeight;
    LOCK(::cs_main);
    auto it = h.locks.find(name);
    // regime 1: indexes that keep up with the chain; regime 2: anything goes
    const int kind = h.lock_regime == 1 ? h.rng.weighted({6, 40, 0, 34, 8, 4, 8}) : h.rng.weighted({30, 30, 10, 10, 10, 10, 0});
    if (kind == 4 && it != h.locks.end()) {
        h.cm.m_blockman.DeletePruneLock(name);
        h.locks.erase(it);
        vh::log().obs("lock_deleted");
        return;
    }
    int v;
    switch (kind) {
    case 0: v = std::max<int>(0, tip - int(h.rng.below(700))); break;                                                  // an index somewhere behind
    case 1: v = it != h.locks.end() && it->second < tip ? std::min<int>(tip, it->second + 1 + h.rng.below(60)) : tip; break; // syncing forward
    case 2: v = h.rng.below(13); break;                                                                               // just started
    case 3: v = tip; break;                                                                                           // in sync
    case 5: v = std::numeric_limits<int>::max(); break;                                                               // "no best block yet"
    default: v = std::max<int>(0, tip - 288 - int(h.rng.below(40)) + 20); break;                                      // around the window edge
    }
    h.locks[name] = v;
    h.cm.m_blockman.UpdatePruneLock(name, node::PruneLockInfo{.height_first = v});
    vh::log().obs("lock_set");
}

void Inflate(Hist& h)
{
    LOCK(::cs_main);
    std::vector<int> cand;
    for (int f = 0;; ++f) {
        CBlockFileInfo* fi;
        try { fi = h.cm.m_blockman.GetBlockFileInfo(f); } catch (const std::out_of_range&) { break; }
        if (h.snapshot && fi->nHeightFirst <= static_cast<unsigned>(h.base_height)) continue; // the background chainstate may still append there
        if (fi->nSize > 0 && fi->nSize < 100 * MiB && !h.protected_files.count(f)) cand.push_back(f);
    }
    if (cand.empty()) return;
    const int k = 1 + h.rng.below(4);
    for (int i = 0; i < k; ++i) {
        // biased to old files (the ones automatic pruning reaches first), but anywhere is possible
        const int f = h.rng.chance(2, 3) ? cand[h.rng.below(std::min<size_t>(cand.size(), 1 + cand.size() / 3))] : cand[h.rng.below(cand.size())];
        CBlockFileInfo* fi = h.cm.m_blockman.GetBlockFileInfo(f);
        if (fi->nSize >= 100 * MiB) continue;
        fi->nSize += (20 + h.rng.below(280)) * MiB;
        vh::log().obs("files_inflated");
    }
}

// files the node is still appending to: the files of the most recently written blocks of each chainstate
void NoteWriteFiles(Hist& h)
{
    LOCK(::cs_main);
    h.protected_files.clear();
    int mx = -1;
    for (const auto& [hash, bi] : h.cm.m_blockman.m_block_index)
        if (bi.nStatus & BLOCK_HAVE_DATA) mx = std::max(mx, bi.nFile);
    // the last two file numbers in use cover both cursors (normal + assumed) in every layout produced here
    for (int f = std::max(0, mx - 3); f <= mx + 1; ++f) h.protected_files.insert(f);
}

void ManualPrune(Hist& h)
{
    const int tip = Tip(h)->nHeight;
    int height;
    switch (h.rng.weighted({35, 25, 15, 10, 15})) {
    case 0: height = tip - 288 - int(h.rng.below(300)); break;
    case 1: height = tip - 288 + int(h.rng.below(21)) - 10; break; // around the window edge
    case 2: height = tip - int(h.rng.below(288)); break;           // inside the window
    case 3: height = tip + int(h.rng.below(50)); break;            // at / above the tip
    default: {                                                      // just below a lock
        height = tip - 288;
        for (const auto& [k, v] : h.locks) if (v != std::numeric_limits<int>::max()) height = std::min(height, v + int(h.rng.below(25)) - 12);
        break;
    }
    }
    ManualPruneAt(h, height);
}

void ManualPruneAt(Hist& h, int height)
{
    if (height < 1) height = 1;
    Chainstate& cs = h.cm.ActiveChainstate();
    Observed(h, CallType::MANUAL, height, [&] { PruneBlockFilesManual(cs, height); });
}

void AutoPrune(Hist& h)
{
    Chainstate& cs = h.cm.ActiveChainstate();
    Observed(h, CallType::AUTO, 0, [&] { cs.PruneAndFlush(); });
}

const Chain& BaseChain()
{
    static const Chain ch = snapchain::BuildChain(0);
    return ch;
}

// final read-back of everything that is still flagged
void FinalReadBack(Hist& h)
{
    std::vector<const CBlockIndex*> all;
    {
        LOCK(::cs_main);
        for (const auto& [hash, bi] : h.cm.m_blockman.m_block_index)
            if (bi.nStatus & BLOCK_HAVE_DATA) all.push_back(&bi);
    }
    uint64_t bad = 0;
    for (const CBlockIndex* pi : all) {
        CBlock b;
        bool ok = h.cm.m_blockman.ReadBlock(b, *pi) && b.GetHash() == pi->GetBlockHash();
        const bool undo = WITH_LOCK(::cs_main, return bool(pi->nStatus & BLOCK_HAVE_UNDO));
        if (ok && undo && pi->nHeight > 0) {
            CBlockUndo u;
            ok = h.cm.m_blockman.ReadBlockUndo(u, *pi) && u.vtxundo.size() + 1 == b.vtx.size();
        }
        if (!ok && bad++ < 3)
            vh::log().violation("surviving-block-unreadable", "block/undo data of a flagged block cannot be read back at the end of the history", vh::J().i("height", pi->nHeight));
    }
    vh::log().obs("final_read_back", all.size());
}

} // namespace

// params: actions (per history), grow_min, grow_max, snap_every (every n-th history starts from a loaded snapshot; 0 = never)
VH_CMD(prune)
{
    const int64_t n_actions = args.geti("actions", 120);
    const int64_t grow_min = args.geti("grow_min", 330), grow_max = args.geti("grow_max", 520);
    const int64_t snap_every = args.geti("snap_every", 5);
    const auto regtest = CChainParams::RegTest({});
    const Consensus::Params& cp = regtest->GetConsensus();

    for (uint64_t c = args.from; c < args.to; ++c) {
        vh::set_case(c);
        vh::Rng rng(args.seed, c);
        const bool snapshot = snap_every > 0 && (c % snap_every) == static_cast<uint64_t>(snap_every - 1);
        const bool automatic = rng.chance(3, 5);
        const uint64_t target = automatic ? (550 + rng.below(250)) * MiB : BlockManager::PRUNE_TARGET_MANUAL;
        const Chain* base = snapshot ? &BaseChain() : nullptr; // built before the node (one FakeNodeClock at a time)

        PruneNode n{target};
        ChainstateManager& cm = *n.m_node.chainman;
        vh::Rng mon(args.seed ^ 0x6d6f6e, c);
        Hist h{.n = n, .cm = cm, .blocks_dir = n.m_args.GetBlocksDirPath(), .rng = rng, .mon = mon, .cp = cp, .target = target, .automatic = automatic, .c = c};
        h.snapshot = snapshot;
        h.lock_regime = rng.weighted({30, 40, 30});

        int bg_next = 0; // next background block to deliver in order
        std::vector<int> bg_pending;
        if (snapshot) {
            const Chain& ch = *base;
            const int H = rng.below(100);
            BlockValidationState st;
            std::vector<CBlockHeader> hs(ch.headers.begin() + 1, ch.headers.begin() + 111);
            if (!cm.ProcessNewBlockHeaders(hs, true, st)) throw std::runtime_error("base headers rejected");
            for (int i = 1; i <= H; ++i) {
                bool nb;
                if (!cm.ProcessNewBlock(ch.blocks[i], true, true, &nb)) throw std::runtime_error("base block rejected");
            }
            const fs::path fp = n.m_path_root / "snap.dat";
            snapchain::WriteFileBytes(fp, ch.snap110);
            AutoFile af{fsbridge::fopen(fp, "rb")};
            node::SnapshotMetadata meta{cm.GetParams().MessageStart()};
            af >> meta;
            auto res = cm.ActivateSnapshot(af, meta, /*in_memory=*/false);
            if (!res) throw std::runtime_error("genuine snapshot refused: " + util::ErrorString(res).original);
            {
                LOCK(::cs_main);
                h.snap_cs = &cm.CurrentChainstate();
                h.bg_cs = cm.HistoricalChainstate();
            }
            if (!h.bg_cs) throw std::runtime_error("no background chainstate after snapshot activation");
            h.base_height = 110;
            bg_next = H + 1;
            vh::log().obs("snapshot_histories");
            if (rng.chance(2, 3) && H + 2 <= 110) {
                // some background blocks arrive out of order straight away: stored next to the validated ones, not yet validated
                const int to = std::min(110, H + 2 + int(rng.below(15)));
                for (int i = H + 2; i <= to; ++i) {
                    bool nb;
                    if (!cm.ProcessNewBlock(ch.blocks[i], true, true, &nb)) throw std::runtime_error("out-of-order base block rejected");
                    bg_pending.push_back(i);
                }
                vh::log().obs("bg_out_of_order");
            }
        }

        // ---- grow -----------------------------------------------------------------------------------------------
        const int grow = grow_min + rng.below(grow_max - grow_min + 1);
        // the first blocks decide what the first files look like: sometimes a big block right at the start
        if (!snapshot && rng.chance(1, 4)) {
            const CBlockIndex* tip = Tip(h);
            Submit(h, BuildBlock(h, tip, rng.coin() ? 66000 + rng.below(20000) : 0, false), true);
            tip = Tip(h);
            Submit(h, BuildBlock(h, tip, rng.coin() ? 66000 + rng.below(20000) : 0, false), true);
        }
        Grow(h, grow);
        NoteWriteFiles(h);

        // ---- act ------------------------------------------------------------------------------------------------
        for (int64_t a = 0; a < n_actions; ++a) {
            switch (rng.weighted({30, 6, h.lock_regime == 0 ? 0u : 12u, automatic ? 12u : 0u, automatic ? 14u : 0u, 18, snapshot ? 8u : 0u, automatic ? 6u : 0u, 5u})) {
            case 0: Grow(h, 1 + rng.below(12)); break;
            case 1: Reorg(h); NoteWriteFiles(h); break;
            case 2: LockAction(h); break;
            case 3: Inflate(h); break;
            case 4: AutoPrune(h); break;
            case 7: Inflate(h); AutoPrune(h); break;
            case 8: LockOnWindowThenPrune(h); break;
            case 5: ManualPrune(h); break;
            case 6: { // background chainstate progress
                const Chain& ch = *base;
                if (bg_next > 110) break;
                bool nb;
                if (rng.chance(1, 3) && bg_next + 1 <= 110) {
                    // out of order: blocks after a gap are stored but cannot be validated yet
                    const int from = bg_next + 1, to = std::min(110, from + int(rng.below(15)));
                    for (int i = from; i <= to; ++i)
                        if (std::find(bg_pending.begin(), bg_pending.end(), i) == bg_pending.end()) {
                            Observed(h, CallType::NATURAL, 0, [&] { cm.ProcessNewBlock(ch.blocks[i], true, true, &nb); });
                            bg_pending.push_back(i);
                        }
                    vh::log().obs("bg_out_of_order");
                } else {
                    const int to = std::min(110, bg_next + int(rng.below(8)));
                    for (int i = bg_next; i <= to; ++i) Observed(h, CallType::NATURAL, 0, [&] { cm.ProcessNewBlock(ch.blocks[i], true, true, &nb); });
                    bg_next = WITH_LOCK(::cs_main, return h.bg_cs->m_chain.Height()) + 1;
                    vh::log().obs("bg_in_order");
                }
                NoteWriteFiles(h);
                break;
            }
            }
        }
        FinalReadBack(h);
        n.m_node.validation_signals->SyncWithValidationInterfaceQueue();
        const int tip = Tip(h)->nHeight;
        vh::log().rec(vh::J().u("case", c).b("hist_end", true).b("snapshot", snapshot).b("automatic", automatic).u("target", target).i("tip", tip).i("blocks", h.blocks_mined)
                          .i("reorgs", h.reorgs).i("max_reorg", h.max_reorg).i("events", h.nev));
        vh::log().obs("histories");
        vh::log().obs("blocks_mined", h.blocks_mined);
    }
    return 0;
}
