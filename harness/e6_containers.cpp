// C61: prevector / bitdeque / VecDeque in lock-step with std::vector / std::deque<bool> / std::deque<T>, and PoolResource
// against a reference allocator model (interval set of live blocks, per-size free lists, chunk carving), under ASan+UBSan.
// One case = one random operation sequence on one container configuration.
#include <common/vh.h>

#include <prevector.h>
#include <support/allocators/pool.h>
#include <util/bitdeque.h>
#include <util/vecdeque.h>

#include <algorithm>
#include <compare>
#include <cstring>
#include <deque>
#include <list>
#include <map>
#include <set>
#include <stdexcept>
#include <string>
#include <unordered_map>
#include <vector>

// The friend name pool.h grants access to ("for testing purpose only"). The repository's own helper of this name
// (test/util/poolresourcetester.h) is not included anywhere in the harness binary; this one exposes what the reference
// allocator model needs (chunk addresses, free-list members), read-only.
class PoolResourceTester
{
public:
    template <std::size_t M, std::size_t A>
    static std::vector<const std::byte*> VhChunks(const PoolResource<M, A>& r)
    {
        return std::vector<const std::byte*>(r.m_allocated_chunks.begin(), r.m_allocated_chunks.end());
    }
    template <std::size_t M, std::size_t A>
    static std::vector<std::vector<const void*>> VhFreeLists(const PoolResource<M, A>& r)
    {
        std::vector<std::vector<const void*>> out;
        for (const auto* ptr : r.m_free_lists) {
            out.emplace_back();
            while (ptr != nullptr) {
                out.back().push_back(ptr);
                const auto* cur = ptr;
                ASAN_UNPOISON_MEMORY_REGION(cur, sizeof(void*));
                ptr = ptr->m_next;
                ASAN_POISON_MEMORY_REGION(cur, sizeof(void*));
            }
        }
        return out;
    }
    template <std::size_t M, std::size_t A>
    static const std::byte* VhAvailIt(const PoolResource<M, A>& r) { return r.m_available_memory_it; }
    template <std::size_t M, std::size_t A>
    static const std::byte* VhAvailEnd(const PoolResource<M, A>& r) { return r.m_available_memory_end; }
    template <std::size_t M, std::size_t A>
    static constexpr std::size_t VhElemAlign() { return PoolResource<M, A>::ELEM_ALIGN_BYTES; }
};

namespace {

uint64_t Fnv(const std::string& s)
{
    uint64_t h = 1469598103934665603ULL;
    for (unsigned char c : s) {
        h ^= c;
        h *= 1099511628211ULL;
    }
    return h;
}

struct Ctx {
    std::vector<std::string> hist;
    std::map<std::string, int> kinds;
    std::string family;
    bool bad{false};
    uint64_t nops{0};
    void Op(const std::string& name, const std::string& arg = "")
    {
        hist.push_back(arg.empty() ? name : name + "(" + arg + ")");
        ++kinds[name];
        ++nops;
        vh::log().obs(family + "_" + name);
    }
    void Violation(const std::string& key, const std::string& msg, const vh::J& extra = vh::J())
    {
        bad = true;
        static int logged = 0;
        if (logged++ >= 25) {
            vh::log().obs("violations_suppressed");
            return;
        }
        std::vector<std::string> h;
        const size_t from = hist.size() > 150 ? hist.size() - 150 : 0;
        for (size_t i = from; i < hist.size(); ++i) h.push_back(vh::JStr(hist[i]));
        vh::log().violation(family + ":" + key, msg, vh::J().str("family", family).raw("ops_tail", vh::JArr(h)).u("ops_total", hist.size()).raw("extra", extra.done()));
    }
    std::string KindSig() const
    {
        std::string s = family + ":";
        for (const auto& [k, n] : kinds) s += k + "=" + std::to_string(n) + ",";
        return s;
    }
};

// size drawn around interesting boundaries (0, the inline capacity / block size, a bit above, occasionally large)
size_t AroundSize(vh::Rng& rng, size_t boundary, size_t cur)
{
    switch (rng.below(8)) {
    case 0: return 0;
    case 1: return boundary;
    case 2: return boundary + 1;
    case 3: return boundary > 0 ? boundary - 1 : 0;
    case 4: return rng.below(2 * boundary + 3);
    case 5: return cur + rng.below(4);
    case 6: return cur > 0 ? cur - rng.below(std::min<size_t>(cur, 3) + 1) : 0;
    default: return rng.below(4 * boundary + 40);
    }
}

// ---------------------------------------------------------------------------------------------------- prevector

template <unsigned N, typename T>
struct PvPair {
    prevector<N, T> real;
    std::vector<T> ref;
};

template <unsigned N, typename T>
bool PvCompare(Ctx& ctx, const prevector<N, T>& real, const std::vector<T>& ref, const char* which)
{
    auto fail = [&](const std::string& what) {
        ctx.Violation("content", std::string("prevector differs from std::vector (") + which + "): " + what, vh::J().u("size", real.size()).u("want_size", ref.size()).u("N", N).u("elem", sizeof(T)));
        return false;
    };
    if (real.size() != ref.size()) return fail("size");
    if (real.empty() != ref.empty()) return fail("empty");
    if (real.capacity() < real.size() || real.capacity() < N) return fail("capacity below size or below the inline capacity");
    if (real.allocated_memory() != (real.capacity() > N ? real.capacity() * sizeof(T) : 0)) return fail("allocated_memory inconsistent with capacity");
    size_t i = 0;
    for (auto it = real.begin(); it != real.end(); ++it, ++i) {
        if (i >= ref.size() || *it != ref[i]) return fail("element via iterator at " + std::to_string(i));
    }
    if (i != ref.size()) return fail("iterator range length");
    for (i = 0; i < ref.size(); ++i)
        if (real[i] != ref[i]) return fail("operator[] at " + std::to_string(i));
    if (!ref.empty()) {
        if (real.front() != ref.front() || real.back() != ref.back()) return fail("front/back");
        if (std::memcmp(real.data(), ref.data(), ref.size() * sizeof(T)) != 0) return fail("data() not the contiguous content");
        if (&real[0] != real.data() || &*real.begin() != real.data()) return fail("data()/begin() address");
    }
    if (real.end() - real.begin() != static_cast<int32_t>(ref.size())) return fail("end()-begin()");
    return true;
}

template <unsigned N, typename T>
void RunPrevector(vh::Rng& rng, int len, Ctx& ctx)
{
    ctx.family = "prevector";
    auto val = [&]() { return static_cast<T>(rng.next()); };
    PvPair<N, T> a, b;
    auto cmp = [&]() { return PvCompare<N, T>(ctx, a.real, a.ref, "a") && PvCompare<N, T>(ctx, b.real, b.ref, "b"); };
    for (int step = 0; step < len && !ctx.bad; ++step) {
        if (rng.chance(1, 12)) std::swap(a, b); // work on the other one for a while (exercises move of the whole pair too)
        auto& pv = a.real;
        auto& v = a.ref;
        const size_t sz = v.size();
        const size_t cap_before = pv.capacity();
        switch (rng.below(30)) {
        case 0:
        case 1: {
            const T x = val();
            ctx.Op("push_back");
            pv.push_back(x);
            v.push_back(x);
            break;
        }
        case 2: {
            const T x = val();
            ctx.Op("emplace_back");
            pv.emplace_back(x);
            v.emplace_back(x);
            break;
        }
        case 3:
            if (sz) {
                ctx.Op("pop_back");
                pv.pop_back();
                v.pop_back();
                if (pv.capacity() != cap_before) ctx.Violation("capacity", "pop_back changed the capacity");
            }
            break;
        case 4:
        case 5: {
            const size_t pos = rng.below(sz + 1);
            const T x = val();
            ctx.Op("insert_one", std::to_string(pos));
            auto it = pv.insert(pv.begin() + pos, x);
            v.insert(v.begin() + pos, x);
            if (it - pv.begin() != static_cast<int32_t>(pos) || *it != x) ctx.Violation("insert-result", "insert(pos, value) returned a wrong iterator");
            break;
        }
        case 6: {
            const size_t pos = rng.below(sz + 1);
            const size_t cnt = rng.chance(1, 4) ? AroundSize(rng, N, 0) % (2 * N + 8) : rng.below(5);
            const T x = val();
            ctx.Op("insert_fill", std::to_string(pos) + "," + std::to_string(cnt));
            pv.insert(pv.begin() + pos, cnt, x);
            v.insert(v.begin() + pos, cnt, x);
            break;
        }
        case 7: {
            const size_t pos = rng.below(sz + 1);
            std::vector<T> src(rng.chance(1, 4) ? AroundSize(rng, N, 0) % (2 * N + 8) : rng.below(6));
            for (auto& x : src) x = val();
            ctx.Op("insert_range", std::to_string(pos) + "," + std::to_string(src.size()));
            pv.insert(pv.begin() + pos, src.begin(), src.end());
            v.insert(v.begin() + pos, src.begin(), src.end());
            break;
        }
        case 8:
        case 9:
            if (sz) {
                const size_t pos = rng.below(sz);
                ctx.Op("erase_one", std::to_string(pos));
                auto it = pv.erase(pv.begin() + pos);
                v.erase(v.begin() + pos);
                if (it - pv.begin() != static_cast<int32_t>(pos)) ctx.Violation("erase-result", "erase(pos) returned a wrong iterator");
                if (pv.capacity() != cap_before) ctx.Violation("capacity", "erase changed the capacity");
            }
            break;
        case 10:
        case 11: {
            const size_t first = rng.below(sz + 1);
            const size_t last = first + rng.below(sz - first + 1);
            ctx.Op("erase_range", std::to_string(first) + "," + std::to_string(last));
            auto it = pv.erase(pv.begin() + first, pv.begin() + last);
            v.erase(v.begin() + first, v.begin() + last);
            if (it - pv.begin() != static_cast<int32_t>(first)) ctx.Violation("erase-result", "erase(first,last) returned a wrong iterator");
            if (pv.capacity() != cap_before) ctx.Violation("capacity", "erase changed the capacity");
            break;
        }
        case 12:
        case 13: {
            const size_t n = AroundSize(rng, N, sz);
            ctx.Op("resize", std::to_string(n));
            pv.resize(n);
            v.resize(n);
            break;
        }
        case 14: {
            const size_t n = AroundSize(rng, N, sz);
            ctx.Op("resize_uninitialized", std::to_string(n));
            pv.resize_uninitialized(n);
            // the added elements must be initialized explicitly by the caller
            for (size_t i = sz; i < n; ++i) pv[i] = static_cast<T>(i * 3 + 1);
            v.resize(n);
            for (size_t i = sz; i < n; ++i) v[i] = static_cast<T>(i * 3 + 1);
            break;
        }
        case 15: {
            const size_t n = AroundSize(rng, N, sz);
            const T x = val();
            ctx.Op("assign_fill", std::to_string(n));
            pv.assign(n, x);
            v.assign(n, x);
            break;
        }
        case 16: {
            std::vector<T> src(AroundSize(rng, N, sz));
            for (auto& x : src) x = val();
            ctx.Op("assign_range", std::to_string(src.size()));
            pv.assign(src.begin(), src.end());
            v.assign(src.begin(), src.end());
            break;
        }
        case 17:
            ctx.Op("clear");
            pv.clear();
            v.clear();
            if (pv.capacity() != cap_before) ctx.Violation("capacity", "clear changed the capacity");
            break;
        case 18: {
            const size_t n = AroundSize(rng, N, sz);
            ctx.Op("reserve", std::to_string(n));
            pv.reserve(n);
            v.reserve(n);
            if (pv.capacity() < n) ctx.Violation("capacity", "capacity() < n after reserve(n)");
            break;
        }
        case 19:
            ctx.Op("shrink_to_fit");
            pv.shrink_to_fit();
            v.shrink_to_fit();
            if (pv.capacity() != std::max<size_t>(N, pv.size())) ctx.Violation("capacity", "shrink_to_fit did not reduce the capacity to max(N, size)", vh::J().u("capacity", pv.capacity()).u("size", pv.size()));
            break;
        case 20:
            ctx.Op("swap");
            pv.swap(b.real);
            v.swap(b.ref);
            break;
        case 21: {
            ctx.Op("copy_construct");
            prevector<N, T> c(b.real);
            std::vector<T> cr(b.ref);
            if (!PvCompare<N, T>(ctx, c, cr, "copy")) break;
            ctx.Op("move_assign");
            pv = std::move(c);
            v = std::move(cr);
            break;
        }
        case 22:
            ctx.Op("copy_assign");
            pv = b.real;
            v = b.ref;
            break;
        case 23: {
            ctx.Op("self_copy_assign");
            auto& alias = pv;
            pv = alias;
            break;
        }
        case 24: {
            ctx.Op("move_construct");
            prevector<N, T> c(std::move(pv));
            std::vector<T> cr(std::move(v));
            v.clear();
            if (!pv.empty()) ctx.Violation("moved-from", "moved-from prevector is not empty");
            if (!PvCompare<N, T>(ctx, c, cr, "moved")) break;
            // use the moved-from object again, then move back
            const T x = val();
            pv.push_back(x);
            v.push_back(x);
            if (rng.coin()) {
                pv = std::move(c);
                v = std::move(cr);
            }
            break;
        }
        case 25: {
            const size_t n = AroundSize(rng, N, sz);
            const int kind = static_cast<int>(rng.below(3));
            ctx.Op("construct", std::to_string(kind) + "," + std::to_string(n));
            if (kind == 0) {
                prevector<N, T> c(n);
                std::vector<T> cr(n);
                pv.swap(c);
                v.swap(cr);
            } else if (kind == 1) {
                const T x = val();
                prevector<N, T> c(n, x);
                std::vector<T> cr(n, x);
                pv.swap(c);
                v.swap(cr);
            } else {
                std::vector<T> src(n);
                for (auto& x : src) x = val();
                prevector<N, T> c(src.begin(), src.end());
                pv.swap(c);
                v = src;
            }
            break;
        }
        case 26:
            if (sz) {
                const size_t pos = rng.below(sz);
                const T x = val();
                ctx.Op("write_index");
                pv[pos] = x;
                v[pos] = x;
                pv.front() = v.front();
                pv.back() = v.back();
            }
            break;
        case 27: {
            ctx.Op("iterator_arithmetic");
            if (sz) {
                const size_t i = rng.below(sz), j = rng.below(sz);
                auto it = pv.begin() + i;
                auto jt = pv.end() - (sz - j);
                typename prevector<N, T>::const_iterator cit = it;
                bool ok = (it - jt) == static_cast<int32_t>(i) - static_cast<int32_t>(j) && (it < jt) == (i < j) && (it == jt) == (i == j) && (it >= jt) == (i >= j);
                ok = ok && *it == v[i] && *cit == v[i] && pv.begin()[i] == v[i];
                auto kt = it;
                kt += (sz - 1 - i);
                ok = ok && *kt == v.back();
                kt -= (sz - 1);
                ok = ok && *kt == v.front();
                auto lt = it++;
                ok = ok && lt - pv.begin() == static_cast<int32_t>(i) && it - pv.begin() == static_cast<int32_t>(i) + 1;
                --it;
                ok = ok && it == lt;
                if (!ok) ctx.Violation("iterator", "iterator arithmetic/comparison differs from indices");
                // reverse traversal
                size_t k = sz;
                for (auto rt = pv.end(); rt != pv.begin();) {
                    --rt;
                    --k;
                    if (*rt != v[k]) {
                        ctx.Violation("iterator", "reverse traversal differs");
                        break;
                    }
                }
            }
            break;
        }
        case 28: {
            ctx.Op("equality");
            const bool eq = pv == b.real;
            if (eq != (v == b.ref)) ctx.Violation("equality", "operator== differs from std::vector");
            prevector<N, T> c(pv);
            if (!(c == pv)) ctx.Violation("equality", "copy is not equal to the original");
            break;
        }
        default: {
            // grow across the inline boundary in one go, then back
            ctx.Op("boundary_walk");
            while (v.size() < N + 2) {
                const T x = val();
                pv.push_back(x);
                v.push_back(x);
            }
            while (v.size() > N - 1 && !v.empty()) {
                pv.pop_back();
                v.pop_back();
            }
            if (rng.coin()) {
                pv.shrink_to_fit();
                v.shrink_to_fit();
            }
            break;
        }
        }
        if (!ctx.bad) cmp();
        if (a.ref.size() > N) vh::log().obs("prevector_indirect_steps");
        else vh::log().obs("prevector_direct_steps");
        if (a.ref.size() > 6 * N + 300) {
            a.real.resize(N);
            a.ref.resize(N);
        }
    }
}

// ---------------------------------------------------------------------------------------------------- bitdeque

template <int BITS>
bool BdCompare(Ctx& ctx, const bitdeque<BITS>& real, const std::deque<bool>& ref, const char* which)
{
    auto fail = [&](const std::string& what) {
        ctx.Violation("content", std::string("bitdeque differs from std::deque<bool> (") + which + "): " + what, vh::J().u("size", real.size()).u("want_size", ref.size()).i("bits_per_word", BITS));
        return false;
    };
    if (real.size() != ref.size()) return fail("size");
    if (real.empty() != ref.empty()) return fail("empty");
    size_t i = 0;
    for (auto it = real.begin(); it != real.end(); ++it, ++i)
        if (i >= ref.size() || *it != ref[i]) return fail("forward iteration at " + std::to_string(i));
    if (i != ref.size()) return fail("iteration length");
    i = ref.size();
    for (auto it = real.rbegin(); it != real.rend(); ++it) {
        --i;
        if (*it != ref[i]) return fail("reverse iteration at " + std::to_string(i));
    }
    for (i = 0; i < ref.size(); ++i)
        if (real[i] != ref[i] || real.at(i) != ref[i]) return fail("operator[]/at at " + std::to_string(i));
    if (!ref.empty() && (real.front() != ref.front() || real.back() != ref.back())) return fail("front/back");
    if (real.end() - real.begin() != static_cast<std::ptrdiff_t>(ref.size())) return fail("end()-begin()");
    if (real.cend() - real.cbegin() != static_cast<std::ptrdiff_t>(ref.size())) return fail("cend()-cbegin()");
    return true;
}

template <int BITS>
void RunBitdeque(vh::Rng& rng, int len, Ctx& ctx)
{
    ctx.family = "bitdeque";
    bitdeque<BITS> bd, bd2;
    std::deque<bool> d, d2;
    const size_t B = BITS;
    auto bits = [&](size_t n) {
        std::vector<bool> v(n);
        for (size_t i = 0; i < n; ++i) v[i] = rng.coin();
        return v;
    };
    const size_t cap = 6 * B + 200;
    for (int step = 0; step < len && !ctx.bad; ++step) {
        const size_t sz = d.size();
        switch (rng.below(30)) {
        case 0:
        case 1: {
            const bool x = rng.coin();
            ctx.Op("push_back");
            bd.push_back(x);
            d.push_back(x);
            break;
        }
        case 2:
        case 3: {
            const bool x = rng.coin();
            ctx.Op("push_front");
            bd.push_front(x);
            d.push_front(x);
            break;
        }
        case 4: {
            const bool x = rng.coin();
            ctx.Op("emplace_back");
            auto r = bd.emplace_back(x);
            d.emplace_back(x);
            if (r != x) ctx.Violation("emplace-result", "emplace_back returned a wrong reference");
            break;
        }
        case 5: {
            const bool x = rng.coin();
            ctx.Op("emplace_front");
            auto r = bd.emplace_front(x);
            d.emplace_front(x);
            if (r != x) ctx.Violation("emplace-result", "emplace_front returned a wrong reference");
            break;
        }
        case 6:
            if (sz) {
                ctx.Op("pop_back");
                bd.pop_back();
                d.pop_back();
            }
            break;
        case 7:
            if (sz) {
                ctx.Op("pop_front");
                bd.pop_front();
                d.pop_front();
            }
            break;
        case 8:
        case 9: {
            const size_t pos = rng.below(sz + 1);
            const bool x = rng.coin();
            ctx.Op("insert_one", std::to_string(pos));
            auto it = bd.insert(bd.cbegin() + pos, x);
            d.insert(d.begin() + pos, x);
            if (it - bd.begin() != static_cast<std::ptrdiff_t>(pos) || *it != x) ctx.Violation("insert-result", "insert(pos, val) returned a wrong iterator");
            break;
        }
        case 10: {
            const size_t pos = rng.below(sz + 1);
            const size_t cnt = rng.chance(1, 3) ? AroundSize(rng, B, 0) % (2 * B + 5) : rng.below(6);
            const bool x = rng.coin();
            ctx.Op("insert_fill", std::to_string(pos) + "," + std::to_string(cnt));
            auto it = bd.insert(bd.cbegin() + pos, cnt, x);
            d.insert(d.begin() + pos, cnt, x);
            if (it - bd.begin() != static_cast<std::ptrdiff_t>(pos)) ctx.Violation("insert-result", "insert(pos, count, val) returned a wrong iterator");
            break;
        }
        case 11: {
            const size_t pos = rng.below(sz + 1);
            const auto src = bits(rng.chance(1, 3) ? AroundSize(rng, B, 0) % (2 * B + 5) : rng.below(9));
            ctx.Op("insert_range", std::to_string(pos) + "," + std::to_string(src.size()));
            auto it = bd.insert(bd.cbegin() + pos, src.begin(), src.end());
            d.insert(d.begin() + pos, src.begin(), src.end());
            if (it - bd.begin() != static_cast<std::ptrdiff_t>(pos)) ctx.Violation("insert-result", "insert(pos, first, last) returned a wrong iterator");
            break;
        }
        case 12:
        case 13:
            if (sz) {
                const size_t pos = rng.below(sz);
                ctx.Op("erase_one", std::to_string(pos));
                auto it = rng.coin() ? bd.erase(bd.cbegin() + pos) : bd.erase(bd.begin() + pos);
                d.erase(d.begin() + pos);
                if (it - bd.begin() != static_cast<std::ptrdiff_t>(pos)) ctx.Violation("erase-result", "erase(pos) returned a wrong iterator");
            }
            break;
        case 14:
        case 15: {
            const size_t first = rng.below(sz + 1);
            const size_t last = first + rng.below(sz - first + 1);
            ctx.Op("erase_range", std::to_string(first) + "," + std::to_string(last));
            auto it = bd.erase(bd.cbegin() + first, bd.cbegin() + last);
            d.erase(d.begin() + first, d.begin() + last);
            if (it - bd.begin() != static_cast<std::ptrdiff_t>(first)) ctx.Violation("erase-result", "erase(first,last) returned a wrong iterator");
            break;
        }
        case 16:
        case 17: {
            const size_t n = AroundSize(rng, B, sz) % cap;
            ctx.Op("resize", std::to_string(n));
            bd.resize(n);
            d.resize(n);
            break;
        }
        case 18: {
            const size_t n = AroundSize(rng, B, sz) % cap;
            const bool x = rng.coin();
            ctx.Op("assign_fill", std::to_string(n));
            bd.assign(n, x);
            d.assign(n, x);
            break;
        }
        case 19: {
            const auto src = bits(AroundSize(rng, B, sz) % cap);
            ctx.Op("assign_range", std::to_string(src.size()));
            bd.assign(src.begin(), src.end());
            d.assign(src.begin(), src.end());
            break;
        }
        case 20: {
            ctx.Op("assign_ilist");
            const bool x = rng.coin(), y = rng.coin();
            if (rng.coin()) {
                bd.assign({x, y, !x, true, false});
            } else {
                bd = {x, y, !x, true, false};
            }
            d = {x, y, !x, true, false};
            break;
        }
        case 21:
            ctx.Op("clear");
            bd.clear();
            d.clear();
            break;
        case 22:
            ctx.Op("shrink_to_fit");
            bd.shrink_to_fit();
            d.shrink_to_fit();
            break;
        case 23:
            ctx.Op("swap");
            if (rng.coin()) bd.swap(bd2);
            else swap(bd, bd2);
            d.swap(d2);
            break;
        case 24: {
            ctx.Op("copy_move");
            bitdeque<BITS> c(bd2);
            std::deque<bool> cr(d2);
            if (!BdCompare<BITS>(ctx, c, cr, "copy")) break;
            bitdeque<BITS> mv(std::move(c));
            if (!BdCompare<BITS>(ctx, mv, cr, "move-constructed")) break;
            if (rng.coin()) {
                bd = mv;
                d = cr;
            } else {
                bd = std::move(mv);
                d = std::move(cr);
            }
            break;
        }
        case 25: {
            const size_t n = AroundSize(rng, B, sz) % cap;
            const int kind = static_cast<int>(rng.below(3));
            ctx.Op("construct", std::to_string(kind) + "," + std::to_string(n));
            if (kind == 0) {
                bitdeque<BITS> c(n);
                bd.swap(c);
                d = std::deque<bool>(n);
            } else if (kind == 1) {
                const bool x = rng.coin();
                bitdeque<BITS> c(n, x);
                bd.swap(c);
                d = std::deque<bool>(n, x);
            } else {
                const auto src = bits(n);
                bitdeque<BITS> c(src.begin(), src.end());
                bd.swap(c);
                d.assign(src.begin(), src.end());
            }
            break;
        }
        case 26:
            if (sz) {
                const size_t pos = rng.below(sz);
                const bool x = rng.coin();
                ctx.Op("write_ref");
                switch (rng.below(4)) {
                case 0: bd[pos] = x; break;
                case 1: bd.at(pos) = x; break;
                case 2: *(bd.begin() + pos) = x; break;
                default: bd.begin()[pos] = x; break;
                }
                d[pos] = x;
                bd.front() = d.front();
                bd.back() = d.back();
                if (rng.coin()) {
                    bd[pos].flip();
                    d[pos] = !d[pos];
                }
            }
            break;
        case 27: {
            ctx.Op("at_out_of_range");
            bool thrown = false;
            try {
                (void)bd.at(sz + rng.below(3));
            } catch (const std::out_of_range&) {
                thrown = true;
            }
            if (!thrown) ctx.Violation("at", "at(size()+k) did not throw std::out_of_range");
            break;
        }
        case 28: {
            ctx.Op("iterator_arithmetic");
            if (sz) {
                const size_t i = rng.below(sz), j = rng.below(sz);
                auto it = bd.begin() + i;
                auto jt = bd.end() - (sz - j);
                typename bitdeque<BITS>::const_iterator cit = it;
                bool ok = (it - jt) == static_cast<std::ptrdiff_t>(i) - static_cast<std::ptrdiff_t>(j) && (it < jt) == (i < j) && (it == jt) == (i == j) && (it >= jt) == (i >= j) && (it <= jt) == (i <= j) && (it > jt) == (i > j);
                ok = ok && *it == d[i] && *cit == d[i] && it[static_cast<std::ptrdiff_t>(j) - static_cast<std::ptrdiff_t>(i)] == d[j];
                auto kt = it;
                kt += static_cast<std::ptrdiff_t>(sz - 1 - i);
                ok = ok && *kt == d.back();
                kt -= static_cast<std::ptrdiff_t>(sz - 1);
                ok = ok && *kt == d.front();
                auto lt = it++;
                ok = ok && lt - bd.begin() == static_cast<std::ptrdiff_t>(i) && it - bd.begin() == static_cast<std::ptrdiff_t>(i) + 1;
                --it;
                ok = ok && it == lt && (static_cast<std::ptrdiff_t>(j) + bd.begin()) == jt;
                auto mt = it--;
                ok = ok && mt - it == 1;
                ++it;
                if (!ok) ctx.Violation("iterator", "iterator arithmetic/comparison differs from indices");
            }
            break;
        }
        default: {
            // walk across a word boundary from both ends
            ctx.Op("boundary_walk");
            const size_t target = B * (1 + rng.below(2)) + rng.below(3);
            while (d.size() < target && d.size() < cap) {
                const bool x = rng.coin();
                if (rng.coin()) {
                    bd.push_back(x);
                    d.push_back(x);
                } else {
                    bd.push_front(x);
                    d.push_front(x);
                }
            }
            for (size_t k = 0; k < 3 && !d.empty(); ++k) {
                if (rng.coin()) {
                    bd.pop_back();
                    d.pop_back();
                } else {
                    bd.pop_front();
                    d.pop_front();
                }
            }
            break;
        }
        }
        if (!ctx.bad) BdCompare<BITS>(ctx, bd, d, "a") && BdCompare<BITS>(ctx, bd2, d2, "b");
        if (d.size() > B) vh::log().obs("bitdeque_multiword_steps");
        if (d.size() >= cap) {
            bd.resize(B / 2);
            d.resize(B / 2);
        }
    }
}

// ---------------------------------------------------------------------------------------------------- VecDeque

struct Tracked {
    static inline int64_t live = 0;
    static inline int64_t bad_source = 0;
    static constexpr uint32_t MAGIC = 0x7ac4ed01;
    uint32_t magic{MAGIC};
    uint32_t v{0};
    uint64_t* heap; // owning pointer: makes double destruction / missing destruction visible to ASan too
    Tracked() : heap(new uint64_t(0)) { ++live; }
    explicit Tracked(uint32_t x) : v(x), heap(new uint64_t(x)) { ++live; }
    Tracked(const Tracked& o) : v(o.v), heap(new uint64_t(*o.heap))
    {
        if (o.magic != MAGIC) ++bad_source;
        ++live;
    }
    Tracked(Tracked&& o) noexcept : v(o.v), heap(o.heap)
    {
        if (o.magic != MAGIC) ++bad_source;
        o.heap = nullptr;
        ++live;
    }
    Tracked& operator=(const Tracked& o)
    {
        if (o.magic != MAGIC || magic != MAGIC) ++bad_source;
        if (this != &o) {
            v = o.v;
            delete heap;
            heap = new uint64_t(*o.heap);
        }
        return *this;
    }
    Tracked& operator=(Tracked&& o) noexcept
    {
        if (o.magic != MAGIC || magic != MAGIC) ++bad_source;
        if (this != &o) {
            v = o.v;
            delete heap;
            heap = o.heap;
            o.heap = nullptr;
        }
        return *this;
    }
    ~Tracked()
    {
        if (magic != MAGIC) ++bad_source;
        magic = 0xdeaddead;
        delete heap;
        --live;
    }
    friend bool operator==(const Tracked& a, const Tracked& b) { return a.v == b.v; }
    friend std::strong_ordering operator<=>(const Tracked& a, const Tracked& b) { return a.v <=> b.v; }
};

uint32_t ValOf(const Tracked& t) { return t.v; }
uint32_t ValOf(uint32_t t) { return t; }

template <typename T>
bool VdCompare(Ctx& ctx, const VecDeque<T>& real, const std::deque<uint32_t>& ref, const char* which)
{
    auto fail = [&](const std::string& what) {
        ctx.Violation("content", std::string("VecDeque differs from std::deque (") + which + "): " + what, vh::J().u("size", real.size()).u("want_size", ref.size()).u("capacity", real.capacity()));
        return false;
    };
    if (real.size() != ref.size()) return fail("size");
    if (real.empty() != ref.empty()) return fail("empty");
    if (real.capacity() < real.size()) return fail("capacity below size");
    for (size_t i = 0; i < ref.size(); ++i)
        if (ValOf(real[i]) != ref[i]) return fail("operator[] at " + std::to_string(i));
    if (!ref.empty() && (ValOf(real.front()) != ref.front() || ValOf(real.back()) != ref.back())) return fail("front/back");
    return true;
}

template <typename T>
void RunVecDeque(vh::Rng& rng, int len, Ctx& ctx)
{
    ctx.family = "vecdeque";
    constexpr bool tracked = std::is_same_v<T, Tracked>;
    const int64_t live0 = Tracked::live;
    {
        VecDeque<T> q, q2;
        std::deque<uint32_t> d, d2;
        auto val = [&]() { return static_cast<uint32_t>(rng.next()); };
        for (int step = 0; step < len && !ctx.bad; ++step) {
            const size_t sz = d.size();
            const size_t cap_before = q.capacity();
            switch (rng.below(26)) {
            case 0:
            case 1: {
                const uint32_t x = val();
                ctx.Op("push_back_copy");
                const T e{x};
                q.push_back(e);
                d.push_back(x);
                break;
            }
            case 2: {
                const uint32_t x = val();
                ctx.Op("push_back_move");
                q.push_back(T{x});
                d.push_back(x);
                break;
            }
            case 3: {
                const uint32_t x = val();
                ctx.Op("emplace_back");
                q.emplace_back(x);
                d.emplace_back(x);
                break;
            }
            case 4:
            case 5: {
                const uint32_t x = val();
                ctx.Op("push_front_copy");
                const T e{x};
                q.push_front(e);
                d.push_front(x);
                break;
            }
            case 6: {
                const uint32_t x = val();
                ctx.Op("push_front_move");
                q.push_front(T{x});
                d.push_front(x);
                break;
            }
            case 7: {
                const uint32_t x = val();
                ctx.Op("emplace_front");
                q.emplace_front(x);
                d.emplace_front(x);
                break;
            }
            case 8:
            case 9:
                if (sz) {
                    ctx.Op("pop_front");
                    q.pop_front();
                    d.pop_front();
                    if (q.capacity() != cap_before) ctx.Violation("capacity", "pop_front changed the capacity");
                }
                break;
            case 10:
            case 11:
                if (sz) {
                    ctx.Op("pop_back");
                    q.pop_back();
                    d.pop_back();
                    if (q.capacity() != cap_before) ctx.Violation("capacity", "pop_back changed the capacity");
                }
                break;
            case 12:
            case 13: {
                const size_t n = AroundSize(rng, std::max<size_t>(cap_before, 4), sz) % 400;
                ctx.Op("resize", std::to_string(n));
                q.resize(n);
                d.resize(n);
                break;
            }
            case 14:
                ctx.Op("clear");
                q.clear();
                d.clear();
                if (q.capacity() != cap_before) ctx.Violation("capacity", "clear changed the capacity (documented: unchanged)");
                break;
            case 15: {
                const size_t n = AroundSize(rng, std::max<size_t>(cap_before, 4), sz) % 400;
                ctx.Op("reserve", std::to_string(n));
                q.reserve(n);
                if (q.capacity() < n || q.capacity() < cap_before) ctx.Violation("capacity", "reserve(n): capacity below n or shrunk");
                break;
            }
            case 16:
                ctx.Op("shrink_to_fit");
                q.shrink_to_fit();
                d.shrink_to_fit();
                if (q.capacity() != q.size()) ctx.Violation("capacity", "shrink_to_fit: capacity != size (documented: equal)");
                break;
            case 17:
                ctx.Op("swap");
                if (rng.coin()) q.swap(q2);
                else swap(q, q2);
                d.swap(d2);
                break;
            case 18: {
                ctx.Op("copy_construct");
                VecDeque<T> c(q2);
                if (!VdCompare<T>(ctx, c, d2, "copy")) break;
                if (!(c == q2)) ctx.Violation("equality", "copy is not equal to the original");
                ctx.Op("move_assign");
                q = std::move(c);
                d = d2;
                break;
            }
            case 19:
                ctx.Op("copy_assign");
                q = q2;
                d = d2;
                break;
            case 20: {
                ctx.Op("self_copy_assign");
                auto& alias = q;
                q = alias;
                break;
            }
            case 21: {
                ctx.Op("move_construct");
                VecDeque<T> c(std::move(q));
                if (!VdCompare<T>(ctx, c, d, "moved")) break;
                if (!q.empty()) ctx.Violation("moved-from", "moved-from VecDeque is not empty");
                q = std::move(c);
                break;
            }
            case 22:
                if (sz) {
                    const size_t pos = rng.below(sz);
                    const uint32_t x = val();
                    ctx.Op("write_index");
                    q[pos] = T{x};
                    d[pos] = x;
                    q.front() = T{d.front()};
                    q.back() = T{d.back()};
                }
                break;
            case 23: {
                ctx.Op("compare");
                const bool eq = q == q2;
                if (eq != (d == d2)) ctx.Violation("equality", "operator== differs from std::deque");
                const auto c3 = q <=> q2;
                const auto w3 = d <=> d2;
                if ((c3 < 0) != (w3 < 0) || (c3 > 0) != (w3 > 0)) ctx.Violation("ordering", "operator<=> differs from std::deque's lexicographic order");
                break;
            }
            default: {
                // rotate through the ring so that the content wraps around the end of the buffer
                ctx.Op("wrap_walk");
                q.reserve(8);
                const size_t rounds = q.capacity() + rng.below(5);
                for (size_t k = 0; k < rounds; ++k) {
                    const uint32_t x = val();
                    if (d.size() + 1 >= q.capacity() && !d.empty()) {
                        q.pop_front();
                        d.pop_front();
                    }
                    q.push_back(T{x});
                    d.push_back(x);
                }
                break;
            }
            }
            if (!ctx.bad) VdCompare<T>(ctx, q, d, "a") && VdCompare<T>(ctx, q2, d2, "b");
            if (tracked && !ctx.bad) {
                const int64_t want = static_cast<int64_t>(q.size() + q2.size());
                if (Tracked::live - live0 != want) ctx.Violation("live-objects", "number of live element objects differs from the number of elements", vh::J().i("live", Tracked::live - live0).i("want", want));
                if (Tracked::bad_source) {
                    ctx.Violation("dead-object-used", "an element was copied/moved/destroyed through a dead or never-constructed object");
                    Tracked::bad_source = 0;
                }
            }
            if (d.size() > 300) {
                q.resize(3);
                d.resize(3);
            }
        }
    }
    if (tracked && !ctx.bad && Tracked::live != live0) ctx.Violation("live-objects", "element objects leaked or destroyed twice after the containers were destroyed", vh::J().i("live", Tracked::live - live0));
    Tracked::live = live0;
}

// ---------------------------------------------------------------------------------------------------- PoolResource

struct Block {
    std::byte* p;
    size_t bytes, align;
    uint8_t fill;
};

template <std::size_t MAXB, std::size_t ALIGN>
void RunPool(vh::Rng& rng, int len, Ctx& ctx)
{
    ctx.family = "pool";
    using Res = PoolResource<MAXB, ALIGN>;
    constexpr size_t EA = PoolResourceTester::VhElemAlign<MAXB, ALIGN>();
    static_assert(EA == std::max(ALIGN, alignof(void*)));
    const size_t req_chunk = rng.chance(1, 3) ? MAXB + rng.below(64) : (rng.chance(1, 2) ? MAXB * (1 + rng.below(6)) + rng.below(EA) : 1024 + rng.below(8192));
    const size_t chunk = std::max<size_t>((req_chunk + EA - 1) / EA, 1) * EA;
    {
        Res res(req_chunk);
        if (res.ChunkSizeBytes() != chunk) ctx.Violation("chunk-size", "ChunkSizeBytes is not the requested size rounded up to the element alignment", vh::J().u("got", res.ChunkSizeBytes()).u("want", chunk));
        // reference allocator state
        std::vector<Block> live;
        std::map<uintptr_t, size_t> live_iv;                  // start -> rounded length (pool blocks) / bytes (malloc'd)
        std::vector<std::vector<const void*>> mfree(MAXB / EA + 1); // per size class: stack of free blocks
        size_t mchunks = 1;
        size_t mavail = chunk;
        const std::byte* mavail_it = PoolResourceTester::VhAvailIt(res);
        auto in_chunk = [&](const void* p, size_t n) {
            for (const std::byte* c : PoolResourceTester::VhChunks(res))
                if (reinterpret_cast<const std::byte*>(p) >= c && reinterpret_cast<const std::byte*>(p) + n <= c + chunk) return true;
            return false;
        };
        auto touches_chunk = [&](const void* p, size_t n) {
            for (const std::byte* c : PoolResourceTester::VhChunks(res))
                if (reinterpret_cast<const std::byte*>(p) < c + chunk && reinterpret_cast<const std::byte*>(p) + n > c) return true;
            return false;
        };
        auto check_accounting = [&]() {
            if (res.NumAllocatedChunks() != mchunks) {
                ctx.Violation("chunk-count", "NumAllocatedChunks differs from the reference allocator", vh::J().u("got", res.NumAllocatedChunks()).u("want", mchunks));
                return;
            }
            const size_t avail = PoolResourceTester::VhAvailEnd(res) - PoolResourceTester::VhAvailIt(res);
            if (avail != mavail || PoolResourceTester::VhAvailIt(res) != mavail_it) {
                ctx.Violation("available-memory", "remaining chunk memory differs from the reference allocator", vh::J().u("got", avail).u("want", mavail));
                return;
            }
            const auto fl = PoolResourceTester::VhFreeLists(res);
            if (fl.size() != mfree.size()) {
                ctx.Violation("free-lists", "number of free lists differs");
                return;
            }
            for (size_t i = 0; i < fl.size(); ++i) {
                std::multiset<const void*> x(fl[i].begin(), fl[i].end()), y(mfree[i].begin(), mfree[i].end());
                if (x != y) {
                    ctx.Violation("free-lists", "free list content differs from the reference allocator", vh::J().u("size_class", i).u("got", fl[i].size()).u("want", mfree[i].size()));
                    return;
                }
            }
        };
        auto do_alloc = [&]() {
            size_t align = size_t{1} << rng.below(rng.chance(1, 5) ? 7 : 4);
            size_t bytes;
            switch (rng.below(6)) {
            case 0: bytes = MAXB; break;
            case 1: bytes = MAXB + align; break;
            case 2: bytes = EA * (1 + rng.below(MAXB / EA)); break;
            case 3: bytes = 1 + rng.below(MAXB + 2 * EA); break;
            case 4: bytes = align; break;
            default: bytes = 1 + rng.below(3 * EA); break;
            }
            bytes = ((bytes + align - 1) / align) * align; // size is a multiple of the alignment, as for any C++ object
            ctx.Op("allocate", std::to_string(bytes) + "," + std::to_string(align));
            const bool pooled = align <= EA && bytes <= MAXB;
            const size_t cls = (bytes + EA - 1) / EA; // bytes >= 1
            const size_t rounded = cls * EA;
            void* p = res.Allocate(bytes, align);
            vh::J x;
            x.u("bytes", bytes).u("align", align).u("max_block", MAXB).u("elem_align", EA).u("chunk", chunk);
            if (p == nullptr || (reinterpret_cast<uintptr_t>(p) & (align - 1)) != 0) {
                ctx.Violation("alignment", "returned block is null or not aligned as requested", x);
                return;
            }
            const size_t occupied = pooled ? rounded : bytes;
            // disjoint from every live block
            auto it = live_iv.upper_bound(reinterpret_cast<uintptr_t>(p));
            if (it != live_iv.end() && it->first < reinterpret_cast<uintptr_t>(p) + occupied) {
                ctx.Violation("overlap", "returned block overlaps a live block", x);
                return;
            }
            if (it != live_iv.begin()) {
                --it;
                if (it->first + it->second > reinterpret_cast<uintptr_t>(p)) {
                    ctx.Violation("overlap", "returned block overlaps a live block", x);
                    return;
                }
            }
            if (pooled) {
                if (!in_chunk(p, rounded)) {
                    ctx.Violation("not-in-chunk", "a pool-sized block does not lie inside one chunk", x);
                    return;
                }
                if (!mfree[cls].empty()) {
                    auto f = std::find(mfree[cls].begin(), mfree[cls].end(), static_cast<const void*>(p));
                    if (f == mfree[cls].end()) {
                        ctx.Violation("freelist-not-reused", "a free block of the right size class exists but the allocation did not reuse one", x.u("size_class", cls));
                        return;
                    }
                    vh::log().obs(f + 1 == mfree[cls].end() ? "pool_reuse_lifo" : "pool_reuse_other");
                    mfree[cls].erase(f);
                } else {
                    if (rounded > mavail) {
                        // new chunk; the leftover of the old one goes to the free list of its size
                        if (mavail) {
                            mfree[mavail / EA].push_back(mavail_it);
                            vh::log().obs("pool_leftover_to_freelist");
                        }
                        ++mchunks;
                        mavail = chunk;
                        mavail_it = static_cast<const std::byte*>(p);
                        vh::log().obs("pool_new_chunk");
                    }
                    if (static_cast<const std::byte*>(p) != mavail_it) {
                        ctx.Violation("carve-position", "block not carved from the start of the available chunk memory", x);
                        return;
                    }
                    mavail_it += rounded;
                    mavail -= rounded;
                    vh::log().obs("pool_carved");
                }
            } else {
                if (touches_chunk(p, bytes)) {
                    ctx.Violation("oversize-in-chunk", "a block too large or too aligned for the pool lies inside a chunk", x);
                    return;
                }
                vh::log().obs(align > EA ? "pool_fallback_alignment" : "pool_fallback_size");
            }
            const uint8_t fill = static_cast<uint8_t>(rng.below(255) + 1);
            std::memset(p, fill, bytes);
            live.push_back(Block{static_cast<std::byte*>(p), bytes, align, fill});
            live_iv[reinterpret_cast<uintptr_t>(p)] = occupied;
        };
        auto do_free = [&](size_t idx) {
            Block b = live[idx];
            live[idx] = live.back();
            live.pop_back();
            ctx.Op("deallocate", std::to_string(b.bytes) + "," + std::to_string(b.align));
            for (size_t i = 0; i < b.bytes; ++i) {
                if (static_cast<uint8_t>(b.p[i]) != b.fill) {
                    ctx.Violation("content-clobbered", "a live block's content was overwritten", vh::J().u("bytes", b.bytes).u("offset", i));
                    return;
                }
            }
            live_iv.erase(reinterpret_cast<uintptr_t>(b.p));
            res.Deallocate(b.p, b.bytes, b.align);
            if (b.align <= EA && b.bytes <= MAXB) mfree[(b.bytes + EA - 1) / EA].push_back(b.p);
        };
        for (int step = 0; step < len && !ctx.bad; ++step) {
            const bool grow = live.size() < 4 || (live.size() < 120 && rng.chance(3, 5));
            if (grow) do_alloc();
            else do_free(rng.below(live.size()));
            if (!ctx.bad && (step % 4 == 0 || step + 1 == len)) check_accounting();
        }
        while (!live.empty() && !ctx.bad) do_free(live.size() - 1);
        if (!ctx.bad) {
            check_accounting();
            // every byte of every chunk is either in a free list or still available
            size_t total = mavail;
            std::map<uintptr_t, size_t> iv;
            const auto fl = PoolResourceTester::VhFreeLists(res);
            for (size_t i = 0; i < fl.size() && !ctx.bad; ++i) {
                for (const void* p : fl[i]) {
                    total += i * EA;
                    if (!in_chunk(p, i * EA) || (reinterpret_cast<uintptr_t>(p) & (EA - 1))) ctx.Violation("free-block-outside-chunk", "a free block is misaligned or not inside a chunk");
                    if (!iv.emplace(reinterpret_cast<uintptr_t>(p), i * EA).second) ctx.Violation("free-block-twice", "a block is in the free lists twice");
                }
            }
            uintptr_t end = 0;
            for (const auto& [s, n] : iv) {
                if (s < end) ctx.Violation("free-blocks-overlap", "two free blocks overlap");
                end = s + n;
            }
            if (!ctx.bad && total != mchunks * chunk) ctx.Violation("bytes-unaccounted", "free lists + available memory do not add up to the chunk memory", vh::J().u("accounted", total).u("chunks", mchunks).u("chunk", chunk));
            vh::log().obs("pool_full_accounting_checked");
        }
        vh::log().obs_max("pool_chunks", mchunks);
    }
}

// a node container on top of PoolAllocator behaves like the same container on std::allocator
void RunPoolAllocator(vh::Rng& rng, int len, Ctx& ctx)
{
    ctx.family = "poolalloc";
    using Map = std::unordered_map<uint64_t, uint64_t, std::hash<uint64_t>, std::equal_to<uint64_t>, PoolAllocator<std::pair<const uint64_t, uint64_t>, sizeof(std::pair<const uint64_t, uint64_t>) + sizeof(void*) * 4>>;
    typename Map::allocator_type::ResourceType res(1024 + rng.below(4096));
    {
        Map m{0, std::hash<uint64_t>{}, std::equal_to<uint64_t>{}, &res};
        std::map<uint64_t, uint64_t> ref;
        for (int step = 0; step < len && !ctx.bad; ++step) {
            const uint64_t k = rng.below(64);
            switch (rng.below(5)) {
            case 0:
            case 1:
                ctx.Op("map_insert");
                m[k] = step;
                ref[k] = step;
                break;
            case 2:
                ctx.Op("map_erase");
                m.erase(k);
                ref.erase(k);
                break;
            case 3:
                if (rng.chance(1, 10)) {
                    ctx.Op("map_clear");
                    m.clear();
                    ref.clear();
                }
                break;
            default:
                ctx.Op("map_rehash");
                m.rehash(rng.below(200));
                break;
            }
            if (m.size() != ref.size()) ctx.Violation("content", "unordered_map on PoolAllocator differs from the reference map (size)");
            for (const auto& [kk, vv] : ref) {
                auto it = m.find(kk);
                if (it == m.end() || it->second != vv) {
                    ctx.Violation("content", "unordered_map on PoolAllocator differs from the reference map");
                    break;
                }
            }
        }
    }
}

template <typename F>
void RunCase(const vh::Args& args, uint64_t c, const char* cmd, F&& f)
{
    vh::set_case(c);
    vh::Rng rng(args.seed, c);
    Ctx ctx;
    std::string cfg = f(rng, ctx);
    vh::log().obs("sequences");
    vh::log().obs("ops_executed", ctx.nops);
    vh::log().obs(std::string("cfg_") + cfg);
    vh::J j;
    j.u("case", c).str("cmd", cmd).str("cfg", cfg).u("n", 1).u("ops", ctx.nops).b("nt", ctx.nops > 20).str("sig", std::to_string(Fnv(cfg + ctx.KindSig()))).b("failed", ctx.bad);
    if (c < 2) j.raw("sample", vh::J().str("family", ctx.family).str("config", cfg).str("op_kinds", ctx.KindSig()).done());
    vh::log().rec(j);
}

} // namespace

VH_CMD(cont_prevector)
{
    const int len = static_cast<int>(args.geti("len", 300));
    for (uint64_t c = args.from; c < args.to; ++c) {
        RunCase(args, c, "cont_prevector", [&](vh::Rng& rng, Ctx& ctx) -> std::string {
            switch (c % 6) {
            case 0: RunPrevector<8, uint8_t>(rng, len, ctx); return "prevector<8,uint8_t>";
            case 1: RunPrevector<28, uint8_t>(rng, len, ctx); return "prevector<28,uint8_t>";
            case 2: RunPrevector<36, uint8_t>(rng, len, ctx); return "prevector<36,uint8_t>";
            case 3: RunPrevector<8, int32_t>(rng, len, ctx); return "prevector<8,int32_t>";
            case 4: RunPrevector<28, uint16_t>(rng, len, ctx); return "prevector<28,uint16_t>";
            default: RunPrevector<36, uint64_t>(rng, len, ctx); return "prevector<36,uint64_t>";
            }
        });
    }
    return 0;
}

VH_CMD(cont_bitdeque)
{
    const int len = static_cast<int>(args.geti("len", 300));
    for (uint64_t c = args.from; c < args.to; ++c) {
        RunCase(args, c, "cont_bitdeque", [&](vh::Rng& rng, Ctx& ctx) -> std::string {
            switch (c % 5) {
            case 0: RunBitdeque<1>(rng, len, ctx); return "bitdeque<1>";
            case 1: RunBitdeque<7>(rng, len, ctx); return "bitdeque<7>";
            case 2: RunBitdeque<16>(rng, len, ctx); return "bitdeque<16>";
            case 3: RunBitdeque<64>(rng, len, ctx); return "bitdeque<64>";
            default: RunBitdeque<129>(rng, len, ctx); return "bitdeque<129>";
            }
        });
    }
    return 0;
}

VH_CMD(cont_vecdeque)
{
    const int len = static_cast<int>(args.geti("len", 300));
    for (uint64_t c = args.from; c < args.to; ++c) {
        RunCase(args, c, "cont_vecdeque", [&](vh::Rng& rng, Ctx& ctx) -> std::string {
            if (c % 3 == 0) {
                RunVecDeque<uint32_t>(rng, len, ctx);
                return "VecDeque<uint32_t>";
            }
            RunVecDeque<Tracked>(rng, len, ctx);
            return "VecDeque<Tracked>";
        });
    }
    return 0;
}

VH_CMD(cont_pool)
{
    const int len = static_cast<int>(args.geti("len", 300));
    for (uint64_t c = args.from; c < args.to; ++c) {
        RunCase(args, c, "cont_pool", [&](vh::Rng& rng, Ctx& ctx) -> std::string {
            switch (c % 6) {
            case 0: RunPool<128, 8>(rng, len, ctx); return "PoolResource<128,8>";
            case 1: RunPool<8, 8>(rng, len, ctx); return "PoolResource<8,8>";
            case 2: RunPool<16, 16>(rng, len, ctx); return "PoolResource<16,16>";
            case 3: RunPool<144, 16>(rng, len, ctx); return "PoolResource<144,16>";
            case 4: RunPool<64, 1>(rng, len, ctx); return "PoolResource<64,1>";
            default: RunPoolAllocator(rng, len, ctx); return "unordered_map<PoolAllocator>";
            }
        });
    }
    return 0;
}
