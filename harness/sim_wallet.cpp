// E8 `walletsim` fixture implementation. See sim_wallet.h for the API contract.
#include <sim_wallet.h>

#include <chain.h>
#include <chainparams.h>
#include <consensus/merkle.h>
#include <consensus/validation.h>
#include <core_io.h>
#include <crypto/sha256.h>
#include <interfaces/chain.h>
#include <kernel/mempool_removal_reason.h>
#include <key_io.h>
#include <node/blockstorage.h>
#include <node/context.h>
#include <policy/policy.h>
#include <pow.h>
#include <script/sign.h>
#include <script/signingprovider.h>
#include <streams.h>
#include <test/util/setup_common.h>
#include <txmempool.h>
#include <util/rbf.h>
#include <util/strencodings.h>
#include <util/translation.h>
#include <validationinterface.h>
#include <wallet/context.h>
#include <wallet/scriptpubkeyman.h>
#include <wallet/spend.h>
#include <wallet/test/util.h>
#include <wallet/walletutil.h>

#include <algorithm>
#include <stdexcept>

namespace simw {

std::string TxHex(const CTransaction& tx)
{
    DataStream ss;
    ss << TX_WITH_WITNESS(tx);
    return vh::Hex(ss);
}
std::string OutpointStr(const COutPoint& op) { return op.hash.ToString() + ":" + std::to_string(op.n); }
int64_t TxVSize(const CTransaction& tx) { return (GetTransactionWeight(tx) + 3) / 4; }

// ------------------------------------------------------------------------------------------------------------------------
// ShadowLedger
// ------------------------------------------------------------------------------------------------------------------------

ShadowLedger::ShadowLedger(ChainstateManager& chainman, CTxMemPool& pool, IsMineFn is_mine)
    : m_chainman(chainman), m_pool(pool), m_is_mine(std::move(is_mine)) {}

bool ShadowLedger::Mine(const CScript& spk)
{
    auto it = m_mine_memo.find(spk);
    if (it != m_mine_memo.end() && it->second) return true;
    // a negative answer is re-asked: the wallet's script set grows (keypool top-up), it never shrinks
    const bool r = m_is_mine(spk);
    if (r) m_mine_memo[spk] = true;
    return r;
}

void ShadowLedger::Refresh()
{
    // 1. active chain: keep the common prefix, read the rest from the block files
    std::vector<const CBlockIndex*> to_read;
    {
        LOCK(cs_main);
        const CChain& chain = m_chainman.ActiveChain();
        int common = std::min<int>(chain.Height(), TipHeight());
        while (common >= 0 && chain[common]->GetBlockHash() != m_chain[common].hash) --common;
        m_chain.resize(common + 1);
        for (int h = common + 1; h <= chain.Height(); ++h) to_read.push_back(chain[h]);
    }
    for (const CBlockIndex* pi : to_read) {
        CBlock block;
        if (!m_chainman.m_blockman.ReadBlock(block, *pi)) throw std::runtime_error("ShadowLedger: cannot read active-chain block");
        ++m_blocks_read;
        m_chain.push_back(BlockRec{pi->GetBlockHash(), block.vtx});
    }
    // 2. mempool: the set of transactions; order them parents-first ourselves
    std::vector<CTransactionRef> pool;
    for (const auto& info : m_pool.infoAll()) pool.push_back(info.tx);
    std::map<Txid, size_t> idx;
    for (size_t i = 0; i < pool.size(); ++i) idx[pool[i]->GetHash()] = i;
    std::vector<int> state(pool.size(), 0);
    m_mempool.clear();
    std::function<void(size_t)> visit = [&](size_t i) {
        if (state[i]) return;
        state[i] = 1;
        for (const auto& in : pool[i]->vin) {
            auto it = idx.find(in.prevout.hash);
            if (it != idx.end()) visit(it->second);
        }
        m_mempool.push_back(pool[i]);
    };
    for (size_t i = 0; i < pool.size(); ++i) visit(i);
    Recompute();
}

void ShadowLedger::NoteTx(const CTransactionRef& tx)
{
    if (m_known.emplace(tx->GetHash(), tx).second) m_known_order.push_back(tx->GetHash());
    for (size_t i = 0; i < tx->vout.size(); ++i) {
        if (Mine(tx->vout[i].scriptPubKey)) m_ever_mine.insert(COutPoint(tx->GetHash(), i));
    }
}

void ShadowLedger::Recompute()
{
    m_coins.clear();
    m_spender.clear();
    m_status.clear();
    m_trusted_mempool.clear();
    auto apply = [&](const CTransactionRef& tx, int height) {
        const Txid txid = tx->GetHash();
        bool relevant = false;
        bool all_inputs_trusted = !tx->IsCoinBase() && !tx->vin.empty();
        if (!tx->IsCoinBase()) {
            for (const auto& in : tx->vin) {
                m_spender[in.prevout] = txid;
                auto it = m_coins.find(in.prevout);
                if (it != m_coins.end()) {
                    relevant = true;
                    if (height >= 0) it->second.spent_chain = txid; else it->second.spent_mempool = txid;
                    m_spent_scripts.insert(it->second.out.scriptPubKey);
                    if (!(it->second.height >= 0 || m_trusted_mempool.count(in.prevout.hash))) all_inputs_trusted = false;
                } else {
                    all_inputs_trusted = false;
                    if (m_ever_mine.count(in.prevout)) relevant = true;
                }
            }
        }
        for (size_t i = 0; i < tx->vout.size(); ++i) {
            if (!Mine(tx->vout[i].scriptPubKey)) continue;
            relevant = true;
            SCoin c;
            c.op = COutPoint(txid, i);
            c.out = tx->vout[i];
            c.height = height;
            c.coinbase = tx->IsCoinBase();
            m_coins[c.op] = c;
            m_ever_mine.insert(c.op);
        }
        if (relevant) {
            if (m_known.emplace(txid, tx).second) m_known_order.push_back(txid);
            m_status[txid] = {height >= 0 ? TxStatus::CHAIN : TxStatus::MEMPOOL, height};
            if (height < 0 && all_inputs_trusted) m_trusted_mempool.insert(txid);
        }
    };
    for (int h = 0; h <= TipHeight(); ++h) {
        for (const auto& tx : m_chain[h].vtx) apply(tx, h);
    }
    for (const auto& tx : m_mempool) apply(tx, -1);
    // known transactions that are neither on the active chain nor in the mempool: conflicted (an input is spent by an active-chain /
    // in-mempool transaction, or an ancestor is conflicted or an orphaned coinbase) or "limbo"
    for (const Txid& txid : m_known_order) {
        if (m_status.count(txid)) continue;
        const CTransactionRef& tx = m_known.at(txid);
        if (tx->IsCoinBase()) {
            m_status[txid] = {TxStatus::CONFLICTED, -1};
            continue;
        }
        bool conflicted = false;
        for (const auto& in : tx->vin) {
            auto sp = m_spender.find(in.prevout);
            if (sp != m_spender.end() && sp->second != txid) conflicted = true;
            auto ps = m_status.find(in.prevout.hash);
            if (ps != m_status.end() && ps->second.first == TxStatus::CONFLICTED) conflicted = true;
        }
        m_status[txid] = {conflicted ? TxStatus::CONFLICTED : TxStatus::LIMBO, -1};
        if (!conflicted) {
            for (const auto& in : tx->vin) {
                auto it = m_coins.find(in.prevout);
                if (it != m_coins.end()) it->second.limbo_spenders.push_back(txid);
            }
        }
    }
}

const SCoin* ShadowLedger::Find(const COutPoint& op) const
{
    auto it = m_coins.find(op);
    return it == m_coins.end() ? nullptr : &it->second;
}

std::optional<CTxOut> ShadowLedger::FindAnyOutput(const COutPoint& op) const
{
    auto it = m_known.find(op.hash);
    if (it == m_known.end() || op.n >= it->second->vout.size()) return std::nullopt;
    return it->second->vout[op.n];
}

CoinClass ShadowLedger::Classify(const SCoin& c) const
{
    if (!c.Unspent()) return CoinClass::SPENT;
    if (c.height >= 0) {
        if (c.coinbase && Depth(c) <= COINBASE_MATURITY) return CoinClass::IMMATURE;
        return CoinClass::TRUSTED;
    }
    return m_trusted_mempool.count(c.op.hash) ? CoinClass::TRUSTED : CoinClass::UNTRUSTED_PENDING;
}

Balances ShadowLedger::GetBalances() const
{
    Balances b;
    for (const auto& [op, c] : m_coins) {
        const bool amb = Ambiguous(c);
        switch (Classify(c)) {
        case CoinClass::SPENT: break;
        case CoinClass::IMMATURE: (amb ? b.amb_immature : b.immature) += c.out.nValue; break;
        case CoinClass::TRUSTED: (amb ? b.amb_trusted : b.trusted) += c.out.nValue; break;
        case CoinClass::UNTRUSTED_PENDING: (amb ? b.amb_untrusted_pending : b.untrusted_pending) += c.out.nValue; break;
        }
    }
    return b;
}

TxStatus ShadowLedger::Status(const Txid& txid) const
{
    auto it = m_status.find(txid);
    return it == m_status.end() ? TxStatus::UNKNOWN : it->second.first;
}
int ShadowLedger::TxHeight(const Txid& txid) const
{
    auto it = m_status.find(txid);
    return it == m_status.end() || it->second.first != TxStatus::CHAIN ? -1 : it->second.second;
}
std::optional<Txid> ShadowLedger::SpenderOf(const COutPoint& op) const
{
    auto it = m_spender.find(op);
    if (it == m_spender.end()) return std::nullopt;
    return it->second;
}

// ------------------------------------------------------------------------------------------------------------------------
// WalletSim
// ------------------------------------------------------------------------------------------------------------------------

class WalletSim::Recorder : public CValidationInterface
{
public:
    Mutex m_mutex;
    std::vector<std::pair<Txid, std::string>> m_removed GUARDED_BY(m_mutex);
    void TransactionRemovedFromMempool(const CTransactionRef& tx, MemPoolRemovalReason reason, uint64_t) override
    {
        LOCK(m_mutex);
        m_removed.emplace_back(tx->GetHash(), RemovalReasonToString(reason));
    }
};

WalletSim::WalletSim(const Options& opts) : m_opts(opts)
{
    TestOpts to;
    m_arg_store.push_back("-keypool=" + std::to_string(opts.keypool));
    for (const auto& s : m_arg_store) to.extra_args.push_back(s.c_str());
    m_node = std::make_unique<TestChain100Setup>(ChainType::REGTEST, to);
    m_node->m_args.ForceSetArg("-keypool", std::to_string(opts.keypool));
    if (opts.unsafe_sqlite_sync) m_node->m_args.ForceSetArg("-unsafesqlitesync", "1");
    m_recorder = std::make_shared<Recorder>();
    m_node->m_node.validation_signals->RegisterSharedValidationInterface(m_recorder);
    m_context = std::make_unique<wallet::WalletContext>();
    m_context->args = &m_node->m_args;
    m_context->chain = m_node->m_node.chain.get();
    m_context->scheduler = m_node->m_node.scheduler.get();
    const CScript p2pk = GetScriptForRawPubKey(m_node->coinbaseKey.GetPubKey());
    const CScript p2wpkh = FaucetScript();
    m_faucet_ledger = std::make_unique<ShadowLedger>(Chainman(), Pool(), [p2pk, p2wpkh](const CScript& s) { return s == p2pk || s == p2wpkh; });
    m_ledger = std::make_unique<ShadowLedger>(Chainman(), Pool(), [this](const CScript& s) {
        if (!m_wallet) return false;
        LOCK(m_wallet->cs_wallet);
        return m_wallet->IsMine(s);
    });
    if (opts.create_wallet) CreateWallet();
}

WalletSim::~WalletSim()
{
    if (m_wallet) UnloadWallet();
    if (m_recorder) {
        m_node->m_node.validation_signals->SyncWithValidationInterfaceQueue();
        m_node->m_node.validation_signals->UnregisterSharedValidationInterface(m_recorder);
    }
    m_ledger.reset();
    m_faucet_ledger.reset();
    m_context.reset();
    m_node.reset();
}

ChainstateManager& WalletSim::Chainman() { return *m_node->m_node.chainman; }
CTxMemPool& WalletSim::Pool() { return *m_node->m_node.mempool; }
void WalletSim::Drain() { m_node->m_node.validation_signals->SyncWithValidationInterfaceQueue(); }
int WalletSim::TipHeight() { return WITH_LOCK(cs_main, return Chainman().ActiveChain().Height()); }
uint256 WalletSim::TipHash() { return WITH_LOCK(cs_main, return Chainman().ActiveChain().Tip()->GetBlockHash()); }
uint256 WalletSim::HashAtHeight(int h)
{
    LOCK(cs_main);
    const CBlockIndex* pi = Chainman().ActiveChain()[h];
    return pi ? pi->GetBlockHash() : uint256{};
}
void WalletSim::AdvanceTime(int seconds) { m_node->m_clock += std::chrono::seconds{seconds}; }

void WalletSim::CreateWallet()
{
    if (m_wallet) throw std::runtime_error("WalletSim: wallet already present");
    wallet::DatabaseOptions options;
    options.require_create = true;
    options.create_flags = wallet::WALLET_FLAG_DESCRIPTORS | (m_opts.avoid_reuse ? wallet::WALLET_FLAG_AVOID_REUSE : 0);
    wallet::ReadDatabaseArgs(*m_context->args, options); // -unsafesqlitesync
    wallet::DatabaseStatus status;
    bilingual_str error;
    auto database = wallet::MakeWalletDatabase("", options, status, error);
    if (!database) throw std::runtime_error("WalletSim: MakeWalletDatabase failed: " + error.original);
    m_wallet = wallet::TestCreateWallet(std::move(database), *m_context, options.create_flags);
    if (!m_wallet) throw std::runtime_error("WalletSim: wallet creation failed");
    Drain();
}

void WalletSim::UnloadWallet()
{
    if (!m_wallet) return;
    wallet::TestUnloadWallet(std::move(m_wallet));
    m_wallet.reset();
}

void WalletSim::LoadWallet()
{
    if (m_wallet) throw std::runtime_error("WalletSim: wallet already present");
    wallet::DatabaseOptions options;
    options.require_existing = true;
    wallet::ReadDatabaseArgs(*m_context->args, options);
    wallet::DatabaseStatus status;
    bilingual_str error;
    auto database = wallet::MakeWalletDatabase("", options, status, error);
    if (!database) throw std::runtime_error("WalletSim: MakeWalletDatabase failed: " + error.original);
    m_wallet = wallet::TestLoadWallet(std::move(database), *m_context);
    if (!m_wallet) throw std::runtime_error("WalletSim: wallet load failed");
    Drain();
}

std::string WalletSim::WalletFilePath() const
{
    return m_wallet ? m_wallet->GetDatabase().Filename() : std::string{};
}

CTxDestination WalletSim::NewDest(OutputType type, const std::string& label)
{
    auto r = m_wallet->GetNewDestination(type, label);
    if (!r) throw std::runtime_error("WalletSim: GetNewDestination failed: " + util::ErrorString(r).original);
    return *r;
}

CTxDestination WalletSim::NewChangeDest(OutputType type)
{
    auto r = m_wallet->GetNewChangeDestination(type);
    if (!r) throw std::runtime_error("WalletSim: GetNewChangeDestination failed: " + util::ErrorString(r).original);
    return *r;
}

CTxDestination WalletSim::ForeignDest(vh::Rng& rng, ForeignKind kind)
{
    // a valid compressed public key that nobody here holds the secret for is not needed: hashes of random bytes do
    auto b20 = rng.bytes(20);
    auto b32 = rng.bytes(32);
    switch (kind) {
    case ForeignKind::P2PKH: return PKHash(uint160(b20));
    case ForeignKind::P2SH: return ScriptHash(uint160(b20));
    case ForeignKind::P2WPKH: return WitnessV0KeyHash(uint160(b20));
    case ForeignKind::P2WSH: return WitnessV0ScriptHash(uint256(b32));
    case ForeignKind::P2TR: return WitnessV1Taproot(XOnlyPubKey(b32));
    case ForeignKind::P2PK: {
        CKey k;
        do {
            b32 = rng.bytes(32);
            k.Set(b32.begin(), b32.end(), true);
        } while (!k.IsValid());
        return PubKeyDestination(k.GetPubKey());
    }
    case ForeignKind::WIT_UNKNOWN: return WitnessUnknown(static_cast<int>(rng.range(2, 16)), rng.bytes(rng.range(2, 40)));
    default: break;
    }
    // non-standard scriptPubKey (the wallet accepts it as a recipient through CNoDestination)
    CScript s;
    s << rng.bytes(rng.range(1, 8)) << OP_DROP << OP_TRUE;
    return CNoDestination(s);
}

const CKey& WalletSim::FaucetKey() const { return m_node->coinbaseKey; }
CScript WalletSim::FaucetScript() const { return GetScriptForDestination(WitnessV0KeyHash(m_node->coinbaseKey.GetPubKey())); }

void WalletSim::FaucetSign(CMutableTransaction& mtx, const std::map<COutPoint, CTxOut>& prevouts)
{
    FillableSigningProvider keystore;
    keystore.AddKey(m_node->coinbaseKey);
    const CScript p2pk = GetScriptForRawPubKey(m_node->coinbaseKey.GetPubKey());
    const CScript p2wpkh = FaucetScript();
    // sign only faucet inputs; leave the others as they are
    std::vector<CTxOut> spent(mtx.vin.size());
    for (size_t i = 0; i < mtx.vin.size(); ++i) {
        auto it = prevouts.find(mtx.vin[i].prevout);
        if (it != prevouts.end()) spent[i] = it->second;
    }
    for (size_t i = 0; i < mtx.vin.size(); ++i) {
        const CTxOut& po = spent[i];
        if (po.scriptPubKey != p2pk && po.scriptPubKey != p2wpkh) continue;
        SignatureData sigdata;
        MutableTransactionSignatureCreator creator(mtx, i, po.nValue, SignOptions{.sighash_type = SIGHASH_ALL});
        if (!ProduceSignature(keystore, creator, po.scriptPubKey, sigdata)) throw std::runtime_error("WalletSim: faucet signing failed");
        UpdateInput(mtx.vin[i], sigdata);
    }
}

CTransactionRef WalletSim::FaucetTx(const std::vector<CTxOut>& outs, CAmount fee, bool signal_rbf, const std::vector<COutPoint>& also_spend, bool confirmed_only)
{
    CAmount need = fee;
    for (const auto& o : outs) need += o.nValue;
    CMutableTransaction mtx;
    mtx.version = 2;
    std::map<COutPoint, CTxOut> prevouts;
    CAmount have = 0;
    const ShadowLedger& fl = *m_faucet_ledger;
    auto add = [&](const SCoin& c) {
        if (prevouts.count(c.op)) return;
        mtx.vin.emplace_back(c.op, CScript{}, signal_rbf ? MAX_BIP125_RBF_SEQUENCE : CTxIn::MAX_SEQUENCE_NONFINAL);
        prevouts[c.op] = c.out;
        have += c.out.nValue;
    };
    for (const auto& op : also_spend) {
        const SCoin* c = fl.Find(op);
        if (!c) return nullptr;
        add(*c);
    }
    for (int pass = 0; pass < 2 && have < need; ++pass) {
        if (pass == 1 && confirmed_only) break;
        for (const auto& [op, c] : fl.Coins()) {
            if (have >= need) break;
            if (!c.Unspent() || m_faucet_reserved.count(op)) continue;
            if ((pass == 0) != (c.height >= 0)) continue;
            // a coinbase output can be spent by the next block when that block's height - its height >= 100
            if (c.coinbase && fl.TipHeight() + 1 - c.height < COINBASE_MATURITY) continue;
            add(c);
        }
    }
    if (have < need) return nullptr;
    mtx.vout = outs;
    const CAmount change = have - need;
    if (change >= 1000) mtx.vout.emplace_back(change, FaucetScript());
    FaucetSign(mtx, prevouts);
    for (const auto& in : mtx.vin) m_faucet_reserved.insert(in.prevout);
    return MakeTransactionRef(std::move(mtx));
}

std::optional<SCoin> WalletSim::ReserveFaucetCoin()
{
    const ShadowLedger& fl = *m_faucet_ledger;
    for (const auto& [op, c] : fl.Coins()) {
        if (!c.Unspent() || c.height < 0 || m_faucet_reserved.count(op)) continue;
        if (c.coinbase && fl.TipHeight() + 1 - c.height < COINBASE_MATURITY) continue;
        m_faucet_reserved.insert(op);
        return c;
    }
    return std::nullopt;
}

static Accept ToAccept(const MempoolAcceptResult& r)
{
    Accept a;
    a.ok = r.m_result_type == MempoolAcceptResult::ResultType::VALID;
    if (!a.ok) {
        a.reason = r.m_state.GetRejectReason();
        if (!r.m_state.GetDebugMessage().empty()) a.reason += " (" + r.m_state.GetDebugMessage() + ")";
    } else {
        if (r.m_vsize) a.vsize = *r.m_vsize;
        if (r.m_base_fees) a.fees = *r.m_base_fees;
        for (const auto& t : r.m_replaced_transactions) a.replaced.push_back(t->GetHash());
    }
    return a;
}

Accept WalletSim::TestAccept(const CTransactionRef& tx)
{
    LOCK(cs_main);
    return ToAccept(Chainman().ProcessTransaction(tx, /*test_accept=*/true));
}

Accept WalletSim::Submit(const CTransactionRef& tx)
{
    LOCK(cs_main);
    return ToAccept(Chainman().ProcessTransaction(tx, /*test_accept=*/false));
}

std::vector<std::pair<Txid, std::string>> WalletSim::TakeRemovals()
{
    Drain();
    LOCK(m_recorder->m_mutex);
    std::vector<std::pair<Txid, std::string>> r;
    r.swap(m_recorder->m_removed);
    return r;
}

CScript WalletSim::BurnScript() { return CScript() << OP_RETURN << std::vector<unsigned char>{'v', 'h'}; }

uint256 WalletSim::MineOn(const uint256* parent, std::vector<CTransactionRef> txs, const CScript& cb_spk)
{
    const CBlockIndex* prev;
    {
        LOCK(cs_main);
        prev = parent ? Chainman().m_blockman.LookupBlockIndex(*parent) : Chainman().ActiveChain().Tip();
    }
    if (!prev) return uint256{};
    // parents first (stable otherwise)
    {
        std::map<Txid, size_t> idx;
        for (size_t i = 0; i < txs.size(); ++i) idx[txs[i]->GetHash()] = i;
        std::vector<int> st(txs.size(), 0);
        std::vector<CTransactionRef> sorted;
        std::function<void(size_t)> visit = [&](size_t i) {
            if (st[i]) return;
            st[i] = 1;
            for (const auto& in : txs[i]->vin) {
                auto it = idx.find(in.prevout.hash);
                if (it != idx.end()) visit(it->second);
            }
            sorted.push_back(txs[i]);
        };
        for (size_t i = 0; i < txs.size(); ++i) visit(i);
        txs.swap(sorted);
    }
    const Consensus::Params& cons = Chainman().GetConsensus();
    const int height = prev->nHeight + 1;
    CBlock block;
    block.nVersion = 0x20000000;
    block.hashPrevBlock = prev->GetBlockHash();
    block.nTime = std::max<int64_t>(prev->GetMedianTimePast() + 1, GetTime());
    block.nBits = GetNextWorkRequired(prev, &block, cons);
    CMutableTransaction cb;
    cb.vin.resize(1);
    cb.vin[0].prevout.SetNull();
    cb.vin[0].scriptSig = CScript() << height << CScriptNum(static_cast<int64_t>(++m_extranonce));
    cb.vout.emplace_back(GetBlockSubsidy(height, cons), cb_spk);
    block.vtx.push_back(MakeTransactionRef(std::move(cb)));
    for (auto& t : txs) block.vtx.push_back(t);
    Chainman().GenerateCoinbaseCommitment(block, prev);
    block.hashMerkleRoot = BlockMerkleRoot(block);
    while (!CheckProofOfWork(block.GetHash(), block.nBits, cons)) ++block.nNonce;
    auto shared = std::make_shared<const CBlock>(block);
    bool new_block{false};
    Chainman().ProcessNewBlock(shared, /*force_processing=*/true, /*min_pow_checked=*/true, &new_block);
    AdvanceTime(1);
    return block.GetHash();
}

uint256 WalletSim::MineMempool(const CScript& cb_spk, const std::vector<CTransactionRef>& extra)
{
    std::vector<CTransactionRef> txs;
    for (const auto& info : Pool().infoAll()) txs.push_back(info.tx);
    std::set<Txid> have;
    for (const auto& t : txs) have.insert(t->GetHash());
    for (const auto& t : extra) {
        if (have.insert(t->GetHash()).second) txs.push_back(t);
    }
    return MineOn(nullptr, std::move(txs), cb_spk);
}

void WalletSim::MineEmpty(int n)
{
    for (int i = 0; i < n; ++i) MineOn(nullptr, {}, BurnScript());
}

bool WalletSim::Invalidate(const uint256& hash)
{
    CBlockIndex* pi = WITH_LOCK(cs_main, return Chainman().m_blockman.LookupBlockIndex(hash));
    if (!pi) return false;
    BlockValidationState state;
    return Chainman().ActiveChainstate().InvalidateBlock(state, pi) && state.IsValid();
}

void WalletSim::Reconsider(const uint256& hash)
{
    {
        LOCK(cs_main);
        CBlockIndex* pi = Chainman().m_blockman.LookupBlockIndex(hash);
        if (!pi) return;
        Chainman().ActiveChainstate().ResetBlockFailureFlags(pi);
        Chainman().RecalculateBestHeader(); // as the reconsiderblock RPC does
    }
    BlockValidationState state;
    Chainman().ActiveChainstate().ActivateBestChain(state);
}

bool WalletSim::OnActiveChain(const uint256& hash)
{
    LOCK(cs_main);
    const CBlockIndex* pi = Chainman().m_blockman.LookupBlockIndex(hash);
    return pi && Chainman().ActiveChain().Contains(*pi);
}

void WalletSim::Sync()
{
    Drain();
    m_ledger->Refresh();
    m_faucet_ledger->Refresh();
    // the wallet forgets a lock when a transaction spending the coin is added to it
    const auto& order = m_ledger->KnownOrder();
    for (auto it = m_locked.begin(); it != m_locked.end();) {
        bool spent = false;
        for (size_t i = m_lock_mark[*it]; i < order.size() && !spent; ++i) {
            for (const auto& in : m_ledger->KnownTxs().at(order[i])->vin) {
                if (in.prevout == *it) spent = true;
            }
        }
        if (spent) {
            m_lock_mark.erase(*it);
            it = m_locked.erase(it);
        } else {
            m_lock_mark[*it] = order.size();
            ++it;
        }
    }
    // release faucet reservations whose coin is now visibly spent or gone
    for (auto it = m_faucet_reserved.begin(); it != m_faucet_reserved.end();) {
        const SCoin* c = m_faucet_ledger->Find(*it);
        it = (!c || !c->Unspent()) ? m_faucet_reserved.erase(it) : std::next(it);
    }
}

bool WalletSim::Lock(const COutPoint& op_in, bool persist)
{
    const COutPoint op{op_in};
    LOCK(m_wallet->cs_wallet);
    const bool r = m_wallet->LockCoin(op, persist);
    if (r && m_locked.insert(op).second) m_lock_mark[op] = m_ledger->KnownOrder().size();
    return r;
}

bool WalletSim::Unlock(const COutPoint& op_in)
{
    const COutPoint op{op_in}; // the argument may refer to an element of m_locked
    LOCK(m_wallet->cs_wallet);
    const bool r = m_wallet->UnlockCoin(op);
    m_locked.erase(op);
    m_lock_mark.erase(op);
    return r;
}

std::optional<wallet::CreatedTransactionResult> WalletSim::Create(const std::vector<wallet::CRecipient>& recipients, std::optional<unsigned> change_pos,
                                                                  const wallet::CCoinControl& cc, bool sign, std::string* err)
{
    auto res = wallet::CreateTransaction(*m_wallet, recipients, change_pos, cc, sign);
    if (!res) {
        if (err) *err = util::ErrorString(res).original;
        return std::nullopt;
    }
    return *res;
}

void WalletSim::Commit(const CTransactionRef& tx)
{
    m_wallet->CommitTransaction(tx);
    m_ledger->NoteTx(tx);
}

namespace {
struct StateStr {
    std::string operator()(const wallet::TxStateConfirmed& s) const { return "confirmed:" + s.confirmed_block_hash.ToString() + ":" + std::to_string(s.confirmed_block_height) + ":" + std::to_string(s.position_in_block); }
    std::string operator()(const wallet::TxStateInMempool&) const { return "mempool"; }
    std::string operator()(const wallet::TxStateBlockConflicted& s) const { return "conflicted:" + s.conflicting_block_hash.ToString() + ":" + std::to_string(s.conflicting_block_height); }
    std::string operator()(const wallet::TxStateInactive& s) const { return s.abandoned ? "abandoned" : "inactive"; }
    std::string operator()(const wallet::TxStateUnrecognized& s) const { return "unrecognized"; }
};
std::string Sha(const std::string& s)
{
    unsigned char h[32];
    CSHA256().Write(reinterpret_cast<const unsigned char*>(s.data()), s.size()).Finalize(h);
    return vh::Hex(h, 32);
}
} // namespace

std::string WalletSim::Dump(bool with_volatile)
{
    using namespace wallet;
    CWallet& w = *m_wallet;
    std::vector<std::string> lines;
    LOCK(w.cs_wallet);
    lines.push_back("flags " + std::to_string(w.GetWalletFlags()));
    lines.push_back(std::string("encrypted ") + (w.HasEncryptionKeys() ? "1" : "0"));
    const auto active = w.GetActiveScriptPubKeyMans();
    for (ScriptPubKeyMan* spkm : w.GetAllScriptPubKeyMans()) {
        auto* d = dynamic_cast<DescriptorScriptPubKeyMan*>(spkm);
        if (!d) {
            lines.push_back("spkm other " + spkm->GetID().ToString());
            continue;
        }
        std::string desc;
        if (!d->GetDescriptorString(desc, /*priv=*/false)) desc = "?";
        LOCK(d->cs_desc_man);
        const WalletDescriptor wd = d->GetWalletDescriptor();
        lines.push_back("desc " + d->GetID().ToString() + " " + desc + " range=" + std::to_string(wd.range_start) + ":" + std::to_string(wd.range_end) +
                        " next=" + std::to_string(wd.next_index) + " active=" + (active.count(spkm) ? "1" : "0") +
                        " internal=" + (w.IsInternalScriptPubKeyMan(spkm).value_or(false) ? "1" : "0"));
    }
    for (const auto& [txid, wtx] : w.mapWallet) {
        DataStream ss;
        ss << wtx;
        std::string l = "tx " + txid.ToString() + " rec=" + Sha(std::string(reinterpret_cast<const char*>(ss.data()), ss.size())).substr(0, 24) +
                        " state=" + std::visit(StateStr{}, wtx.m_state) + " order=" + std::to_string(wtx.nOrderPos);
        if (wtx.m_replaces_txid) l += " replaces=" + wtx.m_replaces_txid->ToString();
        if (wtx.m_replaced_by_txid) l += " replaced_by=" + wtx.m_replaced_by_txid->ToString();
        if (with_volatile) {
            l += std::string(" inpool=") + (wtx.InMempool() ? "1" : "0");
            for (const auto& c : wtx.mempool_conflicts) l += " mc=" + c.ToString();
        }
        lines.push_back(l);
    }
    for (const auto& [dest, data] : w.m_address_book) {
        std::string l = "addr " + vh::Hex(GetScriptForDestination(dest)) + " label=" + (data.label ? "'" + *data.label + "'" : "-") +
                        " purpose=" + (data.purpose ? PurposeToString(*data.purpose) : "-") + " spent=" + (data.previously_spent ? "1" : "0");
        for (const auto& [k, v] : data.receive_requests) l += " rr:" + k + "=" + v;
        lines.push_back(l);
    }
    for (const auto& [op, persist] : w.m_locked_coins) lines.push_back("locked " + OutpointStr(op) + " persist=" + (persist ? "1" : "0"));
    if (with_volatile) lines.push_back("best " + w.GetLastBlockHash().ToString() + " " + std::to_string(w.GetLastBlockHeight()));
    std::sort(lines.begin(), lines.end());
    std::string out;
    for (const auto& l : lines) out += l + "\n";
    return out;
}

std::string WalletSim::DumpDigest(const std::string& dump) { return Sha(dump).substr(0, 32); }

} // namespace simw
