// E2 twin-run for C13 (validation caches never change a verdict), DESIGN §4 C13.
//
// One case = one recorded history executed twice in this process, one node alive at a time:
//   run A  node with the DEFAULT signature / script-execution caches. The history is generated while it runs (the generator looks
//          at the reference ledger and the pool), every action is recorded as a literal object (transaction / package / block /
//          block hash) together with the mock time it was executed at and the verdict expected by construction.
//   run B  fresh node with MINIMAL caches (0 bytes requested = the 2-element table the implementation falls back to); the
//          recorded actions are replayed literally.
// Every action yields one verdict string: ATMP / test-accept result + code + reason, package state and per-transaction results,
// ProcessNewBlock return value + BlockChecked verdict, TestBlockValidity verdict, the ordered BlockChecked / connected /
// disconnected events it caused, the active tip and a digest of the pool content. The two verdict lists must be identical and
// every tagged action must have the tagged outcome. In run A the reference ledger additionally checks every block verdict
// (M-verdict) and the active tip (M-tip).
//
// Histories are built so that a stale cache entry would be dangerous:
//   * deployment heights of dersig / cltv / csv / segwit(nulldummy) moved to a few blocks above the base chain, so the flags of a
//     block depend on its height; "flag-sensitive" transactions that are valid below the height and invalid from it on
//     (non-DER signature, bare <n> CLTV / <n> CSV anyone-can-spend outputs spent with an unsatisfying locktime / version, bare
//     multisig spent with a non-null dummy) are test-validated (TestBlockValidity stores results in the caches when the node
//     has no script-check workers) and mined below the boundary, then mined again above it, and the reverse after
//     InvalidateBlock reorgs across the boundary;
//   * witness twins: the same txid with a valid and with a corrupted witness, in both orders, through mempool, test-accept,
//     package, TestBlockValidity and block; third-party-malleable P2WSH spends with two different valid witnesses;
//   * transactions accepted to the mempool (script-execution cache filled under the tip's flags) and then mined, also across a
//     flag boundary, disconnected again by a reorg (mempool re-add through CheckInputsFromMempoolAndCache) and mined again;
//   * TestBlockValidity of a block (valid or invalid) followed by the submission of the very same block;
//   * a bare "DUP <k1> CHECKSIGVERIFY <k2> CHECKSIG NOT" output spent with one signature (the same signature must verify under k1 and
//     must not verify under k2 within one script).
// Evidence that the caches are really hit in run A: before every block validation the harness probes (read-only `contains`) the
// script-execution cache for (wtxid, flags of that height) of every transaction and the signature cache for every P2WPKH input.
#include <common/vh.h>
#include <sim_chain.h>
#include <sim_mempool.h>

#include <addresstype.h>
#include <consensus/merkle.h>
#include <crypto/sha256.h>
#include <hash.h>
#include <key.h>
#include <pubkey.h>
#include <script/interpreter.h>
#include <script/script.h>
#include <script/sigcache.h>
#include <sync.h>
#include <validation.h>

#include <algorithm>
#include <cstdlib>
#include <map>
#include <optional>
#include <set>
#include <string>
#include <vector>

namespace {
using namespace sim;

enum class Fam { DERSIG, CLTV, CSV, NULLDUMMY };
const char* FamName(Fam f)
{
    switch (f) {
    case Fam::DERSIG: return "dersig";
    case Fam::CLTV: return "cltv";
    case Fam::CSV: return "csv";
    case Fam::NULLDUMMY: return "nulldummy";
    }
    return "?";
}

struct Act {
    enum Kind { SUBMIT, TESTACCEPT, PACKAGE, BLOCK, TBV, INVALIDATE, RECONSIDER } kind{SUBMIT};
    CTransactionRef tx;
    Package pkg;
    std::shared_ptr<const CBlock> block;
    uint256 hash;
    int height{0};     //!< BLOCK / TBV: height of the block
    int64_t time{0};   //!< mock time at execution
    std::string expect; //!< "acc" | "rej" | ""  (SUBMIT/TESTACCEPT: VALID / INVALID; BLOCK/TBV: valid verdict / invalid verdict)
    std::string tag;
};
const char* KindName(Act::Kind k)
{
    static const char* n[] = {"submit", "testaccept", "package", "block", "tbv", "invalidate", "reconsider"};
    return n[(int)k];
}

struct ProbeStats {
    uint64_t script_probes{0}, script_hits{0}, sig_probes{0}, sig_hits{0};
};

//! spent outputs of the transactions the generator built (for the signature-cache probe)
using SpentMap = std::map<Wtxid, std::vector<CTxOut>>;

bool ProbeScriptCache(SimNode& node, const CTransaction& tx, script_verify_flags flags)
{
    LOCK(::cs_main);
    ValidationCache& vc = node.Chainman().m_validation_cache;
    uint256 key;
    CSHA256 hasher = vc.ScriptExecutionCacheHasher();
    hasher.Write(UCharCast(tx.GetWitnessHash().begin()), 32).Write((unsigned char*)&flags, sizeof(flags)).Finalize(key.begin());
    return vc.m_script_execution_cache.contains(key, /*erase=*/false);
}

//! signature-cache probe of every P2WPKH input (witness = [sig, pubkey])
void ProbeSigCache(SimNode& node, const CTransaction& tx, const std::vector<CTxOut>& spent, ProbeStats& ps)
{
    if (spent.size() != tx.vin.size()) return;
    PrecomputedTransactionData txdata;
    txdata.Init(tx, std::vector<CTxOut>(spent), /*force=*/true);
    for (size_t i = 0; i < tx.vin.size(); ++i) {
        const auto& st = tx.vin[i].scriptWitness.stack;
        if (st.size() != 2 || st[1].size() != 33 || st[0].size() < 9) continue;
        const CPubKey pk(st[1]);
        if (!pk.IsValid()) continue;
        if (spent[i].scriptPubKey != GetScriptForDestination(WitnessV0KeyHash(pk))) continue;
        const CScript script_code = GetScriptForDestination(PKHash(pk));
        const int hashtype = st[0].back();
        std::vector<unsigned char> sig(st[0].begin(), st[0].end() - 1);
        const uint256 sighash = SignatureHash(script_code, tx, (unsigned)i, hashtype, spent[i].nValue, SigVersion::WITNESS_V0, &txdata);
        LOCK(::cs_main);
        SignatureCache& sc = node.Chainman().m_validation_cache.m_signature_cache;
        uint256 entry;
        sc.ComputeEntryECDSA(entry, sighash, sig, pk);
        ++ps.sig_probes;
        if (sc.Get(entry, /*erase=*/false)) ++ps.sig_hits;
    }
}

std::string PoolDigest(SimNode& node)
{
    const PoolSnap s = SnapPool(node, false);
    HashWriter h;
    for (const auto& [t, e] : s.entries) h << e.tx->GetWitnessHash().ToUint256();
    return std::to_string(s.entries.size()) + ":" + h.GetSHA256().ToString().substr(0, 8);
}
std::string VerdictStr(const Verdict& v) { return v.valid ? "valid" : v.ResultName() + ":" + v.reason; }
std::string EventsStr(const std::vector<ChainEvent>& evs)
{
    // BlockChecked is delivered synchronously, connect / disconnect notifications through the background queue: their relative
    // order in the recorder is not defined, so the two sequences are kept apart
    std::string k, c;
    for (const auto& e : evs) {
        if (e.kind == ChainEvent::CHECKED) k += " K" + e.hash.ToString().substr(0, 6) + "=" + VerdictStr(e.verdict);
        else if (e.kind == ChainEvent::CONNECTED) c += " C" + e.hash.ToString().substr(0, 6);
        else if (e.kind == ChainEvent::DISCONNECTED) c += " D" + e.hash.ToString().substr(0, 6);
    }
    return k + " /" + c;
}

// ---------------------------------------------------------------------------------------------------------
struct Twin {
    const vh::Args& args;
    uint64_t case_no;
    vh::Rng& rng;
    NodeOpts nopts;
    RefParams params;
    int h_dersig, h_cltv, h_csv, h_segwit; //!< effective activation heights

    std::vector<Act> acts;
    std::vector<std::string> va, vb; //!< verdicts of run A / run B
    SpentMap spent;
    ProbeStats probe_a, probe_b;
    uint64_t nviol{0};
    std::map<std::string, int64_t> st;
    std::map<Wtxid, std::set<uint64_t>> flags_seen;  //!< wtxid -> block flag sets it has been validated under (as integers)
    std::set<Txid> valid_twin_validated;             //!< txids whose valid witness version went through a validation

    Twin(const vh::Args& a, uint64_t c, vh::Rng& r, const NodeOpts& no) : args(a), case_no(c), rng(r), nopts(no), params(RefParams::FromNodeOpts(no))
    {
        h_dersig = params.h_dersig;
        h_cltv = params.h_cltv;
        h_csv = params.h_csv;
        h_segwit = params.h_segwit;
    }
    void Obs(const std::string& n, int64_t k = 1)
    {
        st[n] += k;
        vh::log().obs(n, k);
    }
    void Viol(const std::string& key, const std::string& msg, const vh::J& d)
    {
        if (++nviol > 8) return;
        vh::log().violation(key, msg, vh::J().raw("d", d.done()).raw("node_opts", nopts.Describe()));
    }
    int HeightOf(Fam f) const
    {
        switch (f) {
        case Fam::DERSIG: return h_dersig;
        case Fam::CLTV: return h_cltv;
        case Fam::CSV: return h_csv;
        case Fam::NULLDUMMY: return h_segwit;
        }
        return 0;
    }

    // ------------------------------------------------------------------ execution of one recorded action (both runs)
    //! led != nullptr: run A (ledger mirror + model checks)
    std::string Exec(SimNode& node, const Act& a, RefLedger* led, ProbeStats& ps)
    {
        if (node.Time() != a.time) node.SetTime(a.time);
        std::string v;
        std::vector<ChainEvent> evs;
        auto probe_block = [&](const CBlock& blk, int height) {
            const script_verify_flags flags = OwnBlockScriptFlags(params, height);
            for (size_t i = 1; i < blk.vtx.size(); ++i) {
                ++ps.script_probes;
                if (ProbeScriptCache(node, *blk.vtx[i], flags)) ++ps.script_hits;
                auto sp = spent.find(blk.vtx[i]->GetWitnessHash());
                if (sp != spent.end()) ProbeSigCache(node, *blk.vtx[i], sp->second, ps);
            }
        };
        switch (a.kind) {
        case Act::SUBMIT:
        case Act::TESTACCEPT: {
            const TxResult r = SubmitTx(node, a.tx, a.kind == Act::TESTACCEPT);
            v = r.Str();
            break;
        }
        case Act::PACKAGE: {
            const PkgResult r = SubmitPackage(node, a.pkg, false);
            v = r.Str();
            break;
        }
        case Act::BLOCK: {
            probe_block(*a.block, a.height);
            SubmitResult sr;
            if (led) {
                RefBlock* rb = led->Find(a.block->GetHash());
                DeliverResult d = Deliver(node, *led, rb, DeliverOpts{});
                for (const auto& x : d.violations) Viol(x.key, x.msg, vh::J().str("tag", a.tag).raw("d", x.details.empty() ? "{}" : x.details));
                sr = d.blk;
                evs = d.events;
            } else {
                sr = node.SubmitBlock(a.block, true, true);
            }
            v = std::string("ret=") + (sr.ret ? "1" : "0") + " new=" + (sr.new_block ? "1" : "0") + " v=" + (sr.verdict ? VerdictStr(*sr.verdict) : "none");
            break;
        }
        case Act::TBV: {
            probe_block(*a.block, a.height);
            v = "tbv=" + VerdictStr(node.TestValidity(*a.block));
            break;
        }
        case Act::INVALIDATE: {
            const bool ok = node.Invalidate(a.hash, true);
            if (led && ok) {
                if (RefBlock* rb = led->Find(a.hash)) {
                    led->MarkFailed(rb);
                    rb->user_invalid = true;
                }
            }
            v = std::string("inv=") + (ok ? "1" : "0");
            break;
        }
        case Act::RECONSIDER: {
            const bool ok = node.Reconsider(a.hash);
            if (led && ok) {
                if (RefBlock* rb = led->Find(a.hash)) {
                    led->ClearFailed(rb);
                    rb->user_invalid = false;
                }
            }
            v = std::string("rec=") + (ok ? "1" : "0");
            break;
        }
        }
        if (led) {
            for (const auto& x : AbsorbEvents(node, *led, &evs)) Viol(x.key, x.msg, vh::J().str("tag", a.tag).raw("d", x.details.empty() ? "{}" : x.details));
            for (const auto& x : CheckTip(node, *led)) Viol(x.key, x.msg, vh::J().str("tag", a.tag).raw("d", x.details.empty() ? "{}" : x.details));
        } else {
            node.Sync();
            evs = node.Verdicts().TakeEvents();
        }
        v += " |" + EventsStr(evs) + " | tip=" + node.TipHash().ToString().substr(0, 8) + "@" + std::to_string(node.TipHeight()) + " pool=" + PoolDigest(node);
        return v;
    }

    static bool OutcomeOk(const Act& a, const std::string& v)
    {
        if (a.expect.empty()) return true;
        const bool acc = a.expect == "acc";
        switch (a.kind) {
        case Act::SUBMIT:
        case Act::TESTACCEPT: return acc ? v.rfind("VALID", 0) == 0 : v.rfind("INVALID", 0) == 0;
        case Act::BLOCK: return acc ? v.find(" v=valid") != std::string::npos : (v.find(" v=valid") == std::string::npos);
        case Act::TBV: return acc ? v.rfind("tbv=valid", 0) == 0 : v.rfind("tbv=valid", 0) != 0;
        default: return true;
        }
    }
};

// ---------------------------------------------------------------------------------------------------------
// Generator (run A only).
struct Gen {
    Twin& tw;
    SimNode& node;
    RefLedger& led;
    KeyRing& keys;
    vh::Rng& rng;
    BlockBuilder bb;
    MpSim mp;
    int64_t clock;
    uint64_t salt{1};
    CScript cltv_spk, csv_spk, twokey_spk;
    std::set<COutPoint> reserved; //!< coins of special transactions that were built but are not confirmed yet
    struct Special {
        CTransactionRef tx;
        std::optional<Fam> fam; //!< flag-sensitive family; nullopt = valid under every flag set (twokey)
        bool always_bad{false}; //!< corrupted witness twin
    };
    std::vector<Special> parked; //!< special transactions whose inputs are still unspent (re-used across boundaries)
    std::vector<RefBlock*> user_invalidated;

    Gen(Twin& t, SimNode& n, RefLedger& l, KeyRing& k, vh::Rng& r) : tw(t), node(n), led(l), keys(k), rng(r), bb(l, k), mp(n, l, k, r), clock(t.nopts.start_time)
    {
        cltv_spk = CScript() << 100 << OP_CHECKLOCKTIMEVERIFY << OP_DROP << OP_TRUE;
        csv_spk = CScript() << 10 << OP_CHECKSEQUENCEVERIFY << OP_DROP << OP_TRUE;
        twokey_spk = CScript() << OP_DUP << ToByteVector(keys.Key(0).GetPubKey()) << OP_CHECKSIGVERIFY << ToByteVector(keys.Key(1).GetPubKey()) << OP_CHECKSIG << OP_NOT;
    }
    RefBlock* Tip() { return led.Find(node.TipHash()); }
    int NextHeight() { return Tip()->height + 1; }

    // ------------------------------------------------------------------ recording
    std::string Do(Act a)
    {
        if (node.Time() < clock + 10) node.SetTime(clock + 10);
        a.time = node.Time();
        const std::string v = tw.Exec(node, a, &led, tw.probe_a);
        mp.Absorb();
        tw.acts.push_back(a);
        tw.va.push_back(v);
        tw.Obs(std::string("act_") + KindName(a.kind));
        if (!Twin::OutcomeOk(a, v)) {
            tw.Viol("cache-verdict-unexpected", "an action did not have the outcome that holds by construction (default caches)",
                    vh::J().str("kind", KindName(a.kind)).str("tag", a.tag).str("expect", a.expect).str("verdict", v).u("step", tw.acts.size() - 1));
        }
        return v;
    }

    // ------------------------------------------------------------------ material
    std::vector<CTxOut> Material(int height)
    {
        const CAmount unit = led.Subsidy(height) / 25;
        std::vector<CTxOut> o;
        const size_t nk = keys.Size();
        auto k = [&] { return rng.below(nk); };
        for (int i = 0; i < 3; ++i) o.emplace_back(unit, keys.Spk(OutType::P2WPKH, k()));
        for (int i = 0; i < 3; ++i) o.emplace_back(unit, keys.Spk(OutType::P2PKH, k()));
        o.emplace_back(unit, keys.Spk(OutType::P2WSH, k()));
        o.emplace_back(unit, keys.Spk(OutType::P2TR, k()));
        for (int i = 0; i < 2; ++i) o.emplace_back(unit, mp.gen.DropTrueSpk());
        for (int i = 0; i < 2; ++i) o.emplace_back(unit, keys.Spk(OutType::MULTISIG, k()));
        o.emplace_back(unit, cltv_spk);
        o.emplace_back(unit, csv_spk);
        o.emplace_back(unit, twokey_spk);
        rng.shuffle(o);
        return o;
    }
    BlockSpec Spec(const RefBlock* parent)
    {
        BlockSpec s;
        s.time = (uint32_t)std::max<int64_t>(parent->mtp + 1, clock);
        clock = std::max<int64_t>(clock, (int64_t)*s.time) + 20 + (int64_t)rng.below(60);
        s.salt = salt++;
        s.cb.raw_outputs = Material(parent->height + 1);
        return s;
    }
    //! unspent, mature, unreserved confirmed coins with the given script predicate, not spent by a pool entry
    template <typename Pred>
    std::vector<Spendable> Coins(const PoolSnap& snap, Pred pred)
    {
        std::vector<Spendable> r;
        RefBlock* tip = Tip();
        const int h = tip->height + 1;
        for (const auto& [op, c] : led.Utxo(tip)) {
            if (!pred(c.spk)) continue;
            if (c.coinbase && h - c.height < 100) continue;
            if (snap.HasSpender(op) || reserved.count(op)) continue;
            Spendable s;
            s.op = op;
            s.out = CTxOut(c.value, c.spk);
            s.height = c.height;
            s.coinbase = c.coinbase;
            r.push_back(s);
        }
        return r;
    }
    bool IsKeySpk(const CScript& spk, OutType t) const
    {
        for (size_t i = 0; i < keys.Size(); ++i) {
            if (keys.Spk(t, i) == spk) return true;
        }
        return false;
    }
    void Remember(const CTransactionRef& tx, const std::vector<Spendable>& ins)
    {
        std::vector<CTxOut> sp;
        for (const auto& s : ins) sp.push_back(s.out);
        tw.spent[tx->GetWitnessHash()] = sp;
    }

    //! ordinary valid spend of confirmed (or unconfirmed) coins the key ring can sign
    CTransactionRef ValidSpend(const PoolSnap& snap, std::optional<OutType> want = std::nullopt, bool allow_unconfirmed = true)
    {
        std::vector<Spendable> c;
        if (want) {
            const OutType t = *want;
            c = Coins(snap, [&](const CScript& s) { return IsKeySpk(s, t); });
        } else {
            c = Coins(snap, [&](const CScript& s) { return mp.gen.Signable(s) && s != cltv_spk && s != csv_spk && s != twokey_spk; });
            if (allow_unconfirmed && rng.chance(1, 3)) {
                std::vector<Spendable> u = mp.gen.UnconfirmedCoins(snap);
                if (!u.empty()) c = u;
            }
        }
        if (c.empty()) return nullptr;
        std::vector<Spendable> ins{c[rng.below(c.size())]};
        if (rng.chance(1, 3) && c.size() > 1) {
            const Spendable& s2 = c[rng.below(c.size())];
            if (s2.op != ins[0].op) ins.push_back(s2);
        }
        CAmount fee = 0;
        CTransactionRef tx = mp.gen.Build(ins, 1 + rng.below(2), FeeMode::ABS, 3000 + (CAmount)rng.below(20000), 2, 0, {}, {}, &fee, &snap);
        if (tx) Remember(tx, ins);
        return tx;
    }
    CTransactionRef CorruptWitness(const CTransactionRef& tx)
    {
        CMutableTransaction m(*tx);
        for (size_t i = 0; i < m.vin.size(); ++i) {
            if (m.vin[i].scriptWitness.stack.empty()) continue;
            if (BreakSignature(m, i)) {
                CTransactionRef r = MakeTransactionRef(m);
                auto sp = tw.spent.find(tx->GetWitnessHash());
                if (sp != tw.spent.end()) tw.spent[r->GetWitnessHash()] = sp->second;
                return r->GetHash() == tx->GetHash() ? r : nullptr;
            }
        }
        return nullptr;
    }

    //! flag-sensitive transaction: valid in a block below the family's activation height, invalid from it on
    std::optional<Special> MakeFlagTx(Fam f, const PoolSnap& snap)
    {
        Special sp;
        sp.fam = f;
        const CScript dest = keys.Spk(OutType::P2PKH, rng.below(keys.Size()));
        auto one_out = [&](const Spendable& s) { return std::vector<CTxOut>{CTxOut(s.out.nValue - 5000, dest)}; };
        switch (f) {
        case Fam::CLTV:
        case Fam::CSV: {
            const CScript& want = f == Fam::CLTV ? cltv_spk : csv_spk;
            auto c = Coins(snap, [&](const CScript& s) { return s == want; });
            if (c.empty()) return std::nullopt;
            const Spendable s = c[rng.below(c.size())];
            CMutableTransaction m = MakeTx(keys, {s}, one_out(s), 0, {}, f == Fam::CSV ? 1 : 2, /*sign=*/false);
            sp.tx = MakeTransactionRef(m);
            Remember(sp.tx, {s});
            reserved.insert(s.op);
            return sp;
        }
        case Fam::DERSIG: {
            auto c = Coins(snap, [&](const CScript& s) { return IsKeySpk(s, OutType::P2PKH); });
            if (c.empty()) return std::nullopt;
            const Spendable s = c[rng.below(c.size())];
            CMutableTransaction m = MakeTx(keys, {s}, one_out(s));
            // scriptSig = <sig> <pubkey>; pad R with a zero byte: same number, no longer strict DER
            CScript::const_iterator pc = m.vin[0].scriptSig.begin();
            opcodetype op;
            std::vector<unsigned char> sig, pub;
            if (!m.vin[0].scriptSig.GetOp(pc, op, sig) || !m.vin[0].scriptSig.GetOp(pc, op, pub)) return std::nullopt;
            if (sig.size() < 9 || sig[0] != 0x30 || sig[2] != 0x02) return std::nullopt;
            std::vector<unsigned char> bad;
            bad.push_back(0x30);
            bad.push_back((unsigned char)(sig[1] + 1));
            bad.push_back(0x02);
            bad.push_back((unsigned char)(sig[3] + 1));
            bad.push_back(0x00);
            bad.insert(bad.end(), sig.begin() + 4, sig.end());
            m.vin[0].scriptSig = CScript() << bad << pub;
            sp.tx = MakeTransactionRef(m);
            Remember(sp.tx, {s});
            reserved.insert(s.op);
            return sp;
        }
        case Fam::NULLDUMMY: {
            auto c = Coins(snap, [&](const CScript& s) { return IsKeySpk(s, OutType::MULTISIG); });
            if (c.empty()) return std::nullopt;
            const Spendable s = c[rng.below(c.size())];
            CMutableTransaction m = MakeTx(keys, {s}, one_out(s));
            // scriptSig = OP_0 <sig>: replace the dummy by a non-empty push
            CScript::const_iterator pc = m.vin[0].scriptSig.begin();
            opcodetype op;
            std::vector<unsigned char> d, sig;
            if (!m.vin[0].scriptSig.GetOp(pc, op, d) || !m.vin[0].scriptSig.GetOp(pc, op, sig) || !d.empty() || sig.size() < 9) return std::nullopt;
            m.vin[0].scriptSig = CScript() << OP_1 << sig;
            sp.tx = MakeTransactionRef(m);
            Remember(sp.tx, {s});
            reserved.insert(s.op);
            return sp;
        }
        }
        return std::nullopt;
    }
    std::optional<Special> MakeTwoKey(const PoolSnap& snap)
    {
        auto c = Coins(snap, [&](const CScript& s) { return s == twokey_spk; });
        if (c.empty()) return std::nullopt;
        const Spendable s = c[rng.below(c.size())];
        CMutableTransaction m = MakeTx(keys, {s}, {CTxOut(s.out.nValue - 5000, keys.Spk(OutType::P2WPKH, 2))}, 0, {}, 2, /*sign=*/false);
        const uint256 h = SignatureHash(twokey_spk, m, 0, SIGHASH_ALL, s.out.nValue, SigVersion::BASE);
        std::vector<unsigned char> sig;
        if (!keys.Key(0).Sign(h, sig)) return std::nullopt;
        sig.push_back((unsigned char)SIGHASH_ALL);
        m.vin[0].scriptSig = CScript() << sig;
        Special sp;
        sp.tx = MakeTransactionRef(m);
        Remember(sp.tx, {s});
        reserved.insert(s.op);
        return sp;
    }
    bool ScriptBadAt(const Special& s, int height) const
    {
        if (s.always_bad) return true;
        if (!s.fam) return false;
        return height >= tw.HeightOf(*s.fam);
    }
    //! drop parked specials whose input is gone (confirmed spend)
    void PruneParked()
    {
        const RefUtxo& u = led.Utxo(Tip());
        std::vector<Special> keep;
        for (const auto& s : parked) {
            bool ok = true;
            for (const auto& in : s.tx->vin) ok = ok && u.count(in.prevout);
            if (ok) keep.push_back(s);
            else {
                for (const auto& in : s.tx->vin) reserved.erase(in.prevout);
            }
        }
        parked.swap(keep);
    }

    // ------------------------------------------------------------------ blocks
    struct Built {
        std::shared_ptr<CBlock> block;
        RefBlock* rb{nullptr};
        bool model_valid{false};
    };
    //! block on `parent` with pool transactions (filtered by the model) and the given specials
    Built BuildBlock(RefBlock* parent, const std::vector<Special>& specials, bool with_pool, const std::string& tag)
    {
        const int h = parent->height + 1;
        std::vector<CTransactionRef> cands;
        if (with_pool) {
            const PoolSnap snap = SnapPool(node, false);
            for (const Txid& t : TopoOrder(snap)) {
                const auto& tx = snap.entries.at(t).tx;
                if (h < tw.h_segwit && tx->HasWitness()) continue; // no witness data in blocks below the segwit height
                if (rng.chance(5, 6)) cands.push_back(tx);
            }
        }
        std::vector<CTransactionRef> txs = mp.gen.SelectValidForBlock(parent, cands);
        BlockMeta meta;
        meta.tag = tag;
        for (const auto& s : specials) {
            if (h < tw.h_segwit && s.tx->HasWitness()) continue;
            // keep only specials whose inputs are available on this parent and not spent by the chosen transactions
            std::vector<CTransactionRef> probe = txs;
            probe.push_back(s.tx);
            if (mp.gen.SelectValidForBlock(parent, probe).size() != probe.size()) continue;
            const size_t pos = rng.below(txs.size() + 1);
            // positions of earlier bad entries shift when inserting before them
            std::set<size_t> shifted;
            for (size_t b : meta.bad_script_txs) shifted.insert(b - 1 >= pos ? b + 1 : b);
            meta.bad_script_txs.swap(shifted);
            txs.insert(txs.begin() + (std::ptrdiff_t)pos, s.tx);
            if (ScriptBadAt(s, h)) meta.bad_script_txs.insert(pos + 1);
        }
        // inserting a special in front of a dependent pool transaction cannot happen (specials spend confirmed coins only), but a
        // pool transaction may have been displaced behind its parent's position: re-validate the final order
        if (mp.gen.SelectValidForBlock(parent, txs).size() != txs.size()) {
            txs = mp.gen.SelectValidForBlock(parent, txs);
            meta.bad_script_txs.clear();
            for (size_t i = 0; i < txs.size(); ++i) {
                for (const auto& s : specials) {
                    if (s.tx->GetWitnessHash() == txs[i]->GetWitnessHash() && ScriptBadAt(s, h)) meta.bad_script_txs.insert(i + 1);
                }
            }
        }
        Built b;
        b.block = bb.Build(parent, txs, Spec(parent));
        b.rb = led.Add(b.block, meta);
        if (!b.rb) throw std::runtime_error("cachetwin: block with unknown parent");
        b.model_valid = b.rb->SelfValid() && led.ChainValid(parent);
        // bookkeeping for the evidence counters
        const uint64_t fl = OwnBlockScriptFlags(tw.params, h).as_int();
        for (size_t i = 1; i < b.block->vtx.size(); ++i) {
            auto& seen = tw.flags_seen[b.block->vtx[i]->GetWitnessHash()];
            if (!seen.empty() && !seen.count(fl)) tw.Obs("flag_change_revalidations");
            seen.insert(fl);
        }
        return b;
    }
    std::string Mine(const Built& b, const std::string& tag)
    {
        Act a;
        a.kind = Act::BLOCK;
        a.block = b.block;
        a.height = b.rb->height;
        a.expect = b.model_valid ? "acc" : "rej";
        a.tag = tag;
        const std::string v = Do(a);
        tw.Obs(b.model_valid ? "blocks_valid" : "blocks_invalid");
        PruneParked();
        return v;
    }
    std::string Tbv(const Built& b, const std::string& tag)
    {
        Act a;
        a.kind = Act::TBV;
        a.block = b.block;
        a.height = b.rb->height;
        a.expect = b.model_valid ? "acc" : "rej";
        a.tag = tag;
        tw.Obs(b.model_valid ? "tbv_valid" : "tbv_invalid");
        return Do(a);
    }
    void MineEmpty(int n, const std::string& tag)
    {
        for (int i = 0; i < n; ++i) Mine(BuildBlock(Tip(), {}, rng.chance(1, 3), tag), tag);
    }
    std::string Submit(const CTransactionRef& tx, bool test, const std::string& expect, const std::string& tag)
    {
        Act a;
        a.kind = test ? Act::TESTACCEPT : Act::SUBMIT;
        a.tx = tx;
        a.expect = expect;
        a.tag = tag;
        return Do(a);
    }
    void InvalidateAt(int height, const std::string& tag)
    {
        RefBlock* b = Tip();
        while (b && b->height > height) b = b->parent;
        if (!b || !b->parent || b->height < 103) return;
        Act a;
        a.kind = Act::INVALIDATE;
        a.hash = b->hash;
        a.tag = tag;
        Do(a);
        user_invalidated.push_back(b);
        tw.Obs("reorg_invalidate");
        PruneParked();
    }

    // ------------------------------------------------------------------ intents
    void IntentFill()
    {
        const int n = 1 + (int)rng.below(3);
        for (int i = 0; i < n; ++i) {
            const PoolSnap snap = SnapPool(node, false, true);
            CTransactionRef tx = ValidSpend(snap);
            if (!tx) return;
            bool unconf = false;
            for (const auto& in : tx->vin) unconf = unconf || snap.entries.count(in.prevout.hash);
            if (rng.chance(1, 4)) Submit(tx, true, "", "fill");
            Submit(tx, false, unconf ? "" : "acc", "fill");
            tw.valid_twin_validated.insert(tx->GetHash());
        }
    }
    void IntentMinePool() { Mine(BuildBlock(Tip(), {}, true, "pool"), "pool"); }

    void IntentTwin()
    {
        const PoolSnap snap = SnapPool(node, false, true);
        static const OutType wt[] = {OutType::P2WPKH, OutType::P2WPKH, OutType::P2WSH, OutType::P2TR};
        CTransactionRef t = ValidSpend(snap, wt[rng.below(4)]);
        if (!t) return;
        CTransactionRef bad = CorruptWitness(t);
        if (!bad) return;
        Special sb;
        sb.tx = bad;
        sb.always_bad = true;
        Special sg;
        sg.tx = t;
        const bool can_block = NextHeight() >= tw.h_segwit;
        const int variant = (int)rng.below(6);
        tw.Obs("twin_intents");
        auto rej_seen = [&](const std::string& v, bool was_cached) {
            if (was_cached && (v.rfind("INVALID", 0) == 0 || v.find(" v=valid") == std::string::npos)) tw.Obs("witness_twin_rej");
        };
        switch (variant) {
        case 0: { // valid to the mempool, corrupted twin in a block, then the valid one in a block
            Submit(t, false, "acc", "twin:a");
            if (can_block) {
                rej_seen(Mine(BuildBlock(Tip(), {sb}, false, "twin:a-bad"), "twin:a-bad"), true);
                Mine(BuildBlock(Tip(), {sg}, true, "twin:a-good"), "twin:a-good");
            }
            break;
        }
        case 1: { // corrupted first, then valid, then corrupted again
            Submit(bad, false, "rej", "twin:b");
            Submit(t, false, "acc", "twin:b");
            rej_seen(Submit(bad, false, "rej", "twin:b"), true);
            break;
        }
        case 2: { // test-accept of the valid one fills the caches; corrupted twin next
            Submit(t, true, "acc", "twin:c");
            rej_seen(Submit(bad, false, "rej", "twin:c"), true);
            rej_seen(Submit(bad, true, "rej", "twin:c"), true);
            Submit(t, false, "acc", "twin:c");
            break;
        }
        case 3: { // package: parent + (corrupted | valid) child
            const PoolSnap s2 = SnapPool(node, false, true);
            std::vector<Spendable> pc = Coins(s2, [&](const CScript& s) { return IsKeySpk(s, OutType::P2WPKH); });
            std::vector<Spendable> usable;
            for (const auto& c : pc) {
                bool used = false;
                for (const auto& in : t->vin) used = used || in.prevout == c.op;
                if (!used) usable.push_back(c);
            }
            if (usable.empty()) break;
            const Spendable pin = usable[rng.below(usable.size())];
            CMutableTransaction pm = MakeTx(keys, {pin}, {CTxOut(pin.out.nValue - 4000, keys.Spk(OutType::P2WPKH, 1))});
            CTransactionRef parent = MakeTransactionRef(pm);
            Remember(parent, {pin});
            Spendable cin;
            cin.op = COutPoint(parent->GetHash(), 0);
            cin.out = parent->vout[0];
            CMutableTransaction cm = MakeTx(keys, {cin}, {CTxOut(cin.out.nValue - 4000, keys.Spk(OutType::P2WPKH, 2))});
            CTransactionRef child = MakeTransactionRef(cm);
            Remember(child, {cin});
            CTransactionRef child_bad = CorruptWitness(child);
            if (!child_bad) break;
            Act a;
            a.kind = Act::PACKAGE;
            a.tag = "twin:d-bad";
            a.pkg = {parent, child_bad};
            Do(a);
            a.tag = "twin:d-good";
            a.pkg = {parent, child};
            Do(a);
            a.tag = "twin:d-bad-again";
            a.pkg = {parent, child_bad};
            rej_seen(Do(a), true);
            tw.Obs("twin_packages");
            break;
        }
        case 4: { // TestBlockValidity with the valid one, then a block with the corrupted one, then the valid block itself
            if (!can_block) break;
            Built good = BuildBlock(Tip(), {sg}, false, "twin:e-good");
            Tbv(good, "twin:e-tbv");
            rej_seen(Mine(BuildBlock(Tip(), {sb}, false, "twin:e-bad"), "twin:e-bad"), true);
            if (good.block->hashPrevBlock == node.TipHash()) Mine(good, "twin:e-good");
            break;
        }
        case 5: { // third-party-malleable spend: two different valid witnesses for one txid
            auto c = Coins(snap, [&](const CScript& s) { return s == mp.gen.DropTrueSpk(); });
            if (c.empty()) break;
            const Spendable s = c[rng.below(c.size())];
            CAmount fee = 0;
            CTransactionRef d1 = mp.gen.Build({s}, 1, FeeMode::ABS, 4000, 2, 0, {}, {}, &fee, &snap);
            if (!d1) break;
            CMutableTransaction m(*d1);
            m.vin[0].scriptWitness.stack[0] = rng.bytes(9 + rng.below(6));
            CTransactionRef d2 = MakeTransactionRef(m);
            Remember(d1, {s});
            Remember(d2, {s});
            Submit(d1, false, "acc", "twin:f");
            Submit(d2, false, "rej", "twin:f"); // same non-witness data already in the pool
            if (can_block) {
                Special s2;
                s2.tx = d2;
                Mine(BuildBlock(Tip(), {s2}, false, "twin:f-other-witness"), "twin:f-other-witness");
            }
            tw.Obs("malleable_twins");
            break;
        }
        }
    }

    void IntentFlag(std::optional<Fam> forced = std::nullopt, int forced_variant = -1)
    {
        static const Fam fams[] = {Fam::DERSIG, Fam::CLTV, Fam::CSV, Fam::NULLDUMMY};
        // prefer families whose boundary is near
        std::vector<Fam> order(fams, fams + 4);
        rng.shuffle(order);
        std::sort(order.begin(), order.end(), [&](Fam a, Fam b) { return std::abs(tw.HeightOf(a) - NextHeight()) < std::abs(tw.HeightOf(b) - NextHeight()); });
        const Fam f = forced ? *forced : (rng.chance(3, 4) ? order[0] : order[rng.below(4)]);
        const int hx = tw.HeightOf(f);
        // re-use a parked transaction of this family when there is one (the same transaction under different flags)
        std::optional<Special> sp;
        for (const auto& p : parked) {
            if (p.fam && *p.fam == f && rng.chance(3, 4)) sp = p;
        }
        if (!sp) {
            const PoolSnap snap = SnapPool(node, false, true);
            sp = MakeFlagTx(f, snap);
            if (!sp) return;
            parked.push_back(*sp);
        }
        tw.Obs(std::string("flag_intents_") + FamName(f));
        const int h = NextHeight();
        if (rng.chance(1, 5)) Submit(sp->tx, rng.coin(), "rej", std::string("flag-mempool:") + FamName(f));
        if (h < hx) {
            const int variant = forced_variant >= 0 ? forced_variant : (int)rng.below(3);
            if (variant == 0) {
                // test-validate below the boundary (results are stored), then mine it at / above the boundary
                Tbv(BuildBlock(Tip(), {*sp}, false, "flag:tbv-pre"), std::string("flag:tbv-pre:") + FamName(f));
                tw.Obs("flag_tbv_pre");
                if (hx - h <= 12) {
                    MineEmpty(hx - h, "to-boundary");
                    Mine(BuildBlock(Tip(), {*sp}, false, "flag:post"), std::string("flag:post-after-tbv:") + FamName(f));
                    tw.Obs("flag_post_after_pre_validation");
                }
            } else if (variant == 1) {
                // mine it below the boundary (valid), reorg it away, cross the boundary, mine it again (invalid)
                Built b = BuildBlock(Tip(), {*sp}, false, "flag:pre");
                Mine(b, std::string("flag:pre:") + FamName(f));
                tw.Obs("flag_mined_pre");
                if (b.model_valid && node.TipHash() == b.rb->hash && hx - h <= 12 && rng.chance(2, 3)) {
                    InvalidateAt(b.rb->height, "flag:undo-pre");
                    parked.push_back(*sp);
                    reserved.insert(sp->tx->vin[0].prevout);
                    PruneParked();
                    MineEmpty(hx - NextHeight(), "to-boundary");
                    Mine(BuildBlock(Tip(), {*sp}, false, "flag:post"), std::string("flag:post-after-reorg:") + FamName(f));
                    tw.Obs("flag_post_after_pre_validation");
                }
            } else {
                // TestBlockValidity and submission of the same block below the boundary
                Built b = BuildBlock(Tip(), {*sp}, true, "flag:pre");
                Tbv(b, std::string("flag:tbv-pre:") + FamName(f));
                Mine(b, std::string("flag:pre-same-block:") + FamName(f));
                tw.Obs("flag_mined_pre");
            }
        } else {
            // at / above the boundary: invalid in a block
            Built b = BuildBlock(Tip(), {*sp}, rng.coin(), "flag:post");
            if (rng.coin()) Tbv(b, std::string("flag:tbv-post:") + FamName(f));
            Mine(b, std::string("flag:post:") + FamName(f));
            tw.Obs("flag_mined_post");
            // reorg back below the boundary and mine it there (valid)
            if (hx > 104 && NextHeight() - hx <= 6 && rng.chance(1, 2)) {
                InvalidateAt(hx - (int)rng.below(2), "flag:back-below");
                if (NextHeight() < hx) {
                    Mine(BuildBlock(Tip(), {*sp}, false, "flag:pre"), std::string("flag:pre-after-post:") + FamName(f));
                    tw.Obs("flag_pre_after_post_validation");
                }
            }
        }
    }

    void IntentAcross()
    {
        // ordinary valid transaction: accepted to the mempool under the tip's flags, mined under other flags, disconnected, mined again
        const PoolSnap snap = SnapPool(node, false, true);
        const int h = NextHeight();
        const bool below_segwit = h < tw.h_segwit;
        CTransactionRef v = ValidSpend(snap, below_segwit ? std::optional<OutType>(OutType::P2PKH) : std::nullopt, false);
        if (!v) return;
        Submit(v, false, "acc", "across");
        tw.valid_twin_validated.insert(v->GetHash());
        int nearest = 0;
        for (int hx : {tw.h_dersig, tw.h_cltv, tw.h_csv, tw.h_segwit}) {
            if (hx > h && (nearest == 0 || hx < nearest)) nearest = hx;
        }
        if (nearest && nearest - h <= 6) {
            for (int i = h; i < nearest; ++i) Mine(BuildBlock(Tip(), {}, false, "across:empty"), "across:empty");
            tw.Obs("across_boundary");
        }
        Built b = BuildBlock(Tip(), {}, true, "across:mine");
        Mine(b, "across:mine");
        if (rng.coin() && node.TipHash() == b.rb->hash) {
            InvalidateAt(b.rb->height, "across:undo");
            tw.Obs("mempool_readd_after_reorg");
            Mine(BuildBlock(Tip(), {}, true, "across:again"), "across:again");
        }
    }

    void IntentTwoKey()
    {
        const PoolSnap snap = SnapPool(node, false, true);
        auto sp = MakeTwoKey(snap);
        if (!sp) return;
        parked.push_back(*sp);
        Built b = BuildBlock(Tip(), {*sp}, rng.coin(), "twokey");
        Tbv(b, "twokey:tbv");
        Mine(b, "twokey:mine");
        tw.Obs("twokey_blocks");
    }

    void IntentTbvThenMine()
    {
        // the very same block through TestBlockValidity and then ProcessNewBlock; sometimes with a script-invalid transaction
        std::vector<Special> sp;
        if (rng.coin()) {
            const PoolSnap snap = SnapPool(node, false, true);
            if (NextHeight() >= tw.h_segwit && rng.coin()) {
                CTransactionRef t = ValidSpend(snap, OutType::P2WPKH);
                CTransactionRef bad = t ? CorruptWitness(t) : nullptr;
                if (bad) {
                    Special s;
                    s.tx = bad;
                    s.always_bad = true;
                    sp.push_back(s);
                }
            } else if (!parked.empty()) {
                sp.push_back(parked[rng.below(parked.size())]);
            }
        }
        Built b = BuildBlock(Tip(), sp, true, "same-block");
        Tbv(b, "same-block:tbv");
        Mine(b, "same-block:mine");
        tw.Obs(b.model_valid ? "tbv_then_mine_valid" : "tbv_then_mine_invalid");
    }

    void IntentReorg()
    {
        RefBlock* tip = Tip();
        const int d = 1 + (int)rng.below(3);
        if (tip->height - d < 104) return;
        InvalidateAt(tip->height - d + 1, "reorg");
        for (int i = 0; i < d + 1; ++i) Mine(BuildBlock(Tip(), {}, true, "reorg:branch"), "reorg:branch");
        if (!user_invalidated.empty() && rng.chance(1, 3)) {
            const size_t i = rng.below(user_invalidated.size());
            Act a;
            a.kind = Act::RECONSIDER;
            a.hash = user_invalidated[i]->hash;
            a.tag = "reconsider";
            user_invalidated.erase(user_invalidated.begin() + (std::ptrdiff_t)i);
            Do(a);
            PruneParked();
            tw.Obs("reconsiders");
        }
        tw.Obs("reorgs");
    }

    void Step()
    {
        //                                     fill minepool twin flag across twokey same-block reorg
        static const std::vector<uint32_t> w = {16, 8, 18, 26, 10, 5, 9, 6};
        switch (rng.weighted(w)) {
        case 0: IntentFill(); break;
        case 1: IntentMinePool(); break;
        case 2: IntentTwin(); break;
        case 3: IntentFlag(); break;
        case 4: IntentAcross(); break;
        case 5: IntentTwoKey(); break;
        case 6: IntentTbvThenMine(); break;
        case 7: IntentReorg(); break;
        }
    }
};

} // namespace

VH_CMD(cachetwin)
{
    const int intents_min = (int)args.geti("intents_min", 45), intents_max = (int)args.geti("intents_max", 70);
    for (uint64_t c = args.from; c < args.to; ++c) {
        vh::set_case(c);
        vh::Rng rng(args.seed, c);
        NodeOpts nopts;
        nopts.worker_threads = rng.chance(2, 3) ? 0 : 2;
        nopts.prevoutfetch_threads = rng.coin() ? 0 : 2;
        nopts.check_block_index = 0;
        const int base = 104 + (int)rng.below(5);
        // move a random non-empty subset of the deployments to a few blocks above the base chain
        const unsigned mask = 1 + (unsigned)rng.below(15);
        if (mask & 1) nopts.h_dersig = base + 2 + (int)rng.below(26);
        if (mask & 2) nopts.h_cltv = base + 2 + (int)rng.below(26);
        if (mask & 4) nopts.h_csv = base + 2 + (int)rng.below(26);
        if ((mask & 8) && rng.coin()) nopts.h_segwit = base + 2 + (int)rng.below(12);
        Twin tw(args, c, rng, nopts);
        MpOpts mopts;
        mopts.require_standard = true;
        // =========================================================== run A: default caches, generate + record
        {
            NodeOpts oa = nopts;
            oa.sig_cache_bytes = -1;
            oa.script_cache_bytes = -1;
            SimNode node(oa);
            InstallMempool(node, mopts);
            RefLedger led(RefParams::FromNodeOpts(nopts));
            KeyRing keys(rng, 5);
            {
                Gen g(tw, node, led, keys, rng);
                node.Sync();
                node.Verdicts().TakeEvents(); // genesis activation
                for (int i = 0; i < base; ++i) g.Mine(g.BuildBlock(g.Tip(), {}, false, "base"), "base");
                const int n = (int)rng.range(intents_min, intents_max);
                for (int i = 0; i < n; ++i) {
                    // whenever a moved boundary is 1..3 blocks ahead: validate a flag-sensitive transaction below it, then above it
                    bool swept = false;
                    for (Fam f : {Fam::DERSIG, Fam::CLTV, Fam::CSV, Fam::NULLDUMMY}) {
                        const int ahead = tw.HeightOf(f) - g.NextHeight();
                        if (!swept && ahead >= 1 && ahead <= 3 && rng.chance(2, 3)) {
                            g.IntentFlag(f, (int)rng.below(2));
                            swept = true;
                        }
                    }
                    if (!swept) g.Step();
                }
                g.IntentMinePool();
            }
        }
        // =========================================================== run B: minimal caches, replay
        {
            NodeOpts ob = nopts;
            ob.sig_cache_bytes = 0;
            ob.script_cache_bytes = 0;
            SimNode node(ob);
            InstallMempool(node, mopts);
            node.Sync();
            node.Verdicts().TakeEvents(); // genesis activation
            for (const auto& a : tw.acts) tw.vb.push_back(tw.Exec(node, a, nullptr, tw.probe_b));
        }
        // =========================================================== compare + log
        size_t first_diff = tw.acts.size();
        for (size_t i = 0; i < tw.acts.size(); ++i) {
            if (tw.va[i] != tw.vb[i]) {
                first_diff = i;
                break;
            }
        }
        if (first_diff < tw.acts.size()) {
            const Act& a = tw.acts[first_diff];
            tw.Viol("cache-twin-verdict-differs", "the same recorded history produced a different verdict with default caches than with minimal caches",
                    vh::J().u("step", first_diff).str("kind", KindName(a.kind)).str("tag", a.tag).str("default_caches", tw.va[first_diff]).str("minimal_caches", tw.vb[first_diff]));
        }
        for (size_t i = 0; i < tw.acts.size(); ++i) {
            if (!Twin::OutcomeOk(tw.acts[i], tw.vb[i]) && Twin::OutcomeOk(tw.acts[i], tw.va[i])) {
                tw.Viol("cache-verdict-unexpected", "an action did not have the outcome that holds by construction (minimal caches)",
                        vh::J().str("kind", KindName(tw.acts[i].kind)).str("tag", tw.acts[i].tag).str("expect", tw.acts[i].expect).str("verdict", tw.vb[i]).u("step", i));
                break;
            }
        }
        std::vector<std::string> steps;
        for (size_t i = 0; i < tw.acts.size(); ++i) {
            const Act& a = tw.acts[i];
            if (a.tag == "base") continue;
            steps.push_back(vh::J().u("i", i).str("k", KindName(a.kind)).str("tag", a.tag).str("exp", a.expect).str("a", tw.va[i]).str("b", tw.vb[i]).done());
        }
        vh::log().obs("script_cache_probe_hits_default", (int64_t)tw.probe_a.script_hits);
        vh::log().obs("script_cache_probes", (int64_t)tw.probe_a.script_probes);
        vh::log().obs("sig_cache_probe_hits_default", (int64_t)tw.probe_a.sig_hits);
        vh::log().obs("sig_cache_probes", (int64_t)tw.probe_a.sig_probes);
        vh::log().obs("script_cache_probe_hits_minimal", (int64_t)tw.probe_b.script_hits);
        vh::log().obs("sig_cache_probe_hits_minimal", (int64_t)tw.probe_b.sig_hits);
        vh::log().obs("twin_histories");
        std::string stj = "{";
        bool first = true;
        for (const auto& [k, v] : tw.st) {
            stj += (first ? "" : ",") + vh::JStr(k) + ":" + std::to_string(v);
            first = false;
        }
        vh::log().rec(vh::J().str("t", "twin").u("case", c).u("nsteps", tw.acts.size()).i("base", base).i("h_dersig", tw.h_dersig).i("h_cltv", tw.h_cltv).i("h_csv", tw.h_csv).i("h_segwit", tw.h_segwit)
                          .i("worker_threads", nopts.worker_threads).u("script_hits_a", tw.probe_a.script_hits).u("script_hits_b", tw.probe_b.script_hits).u("sig_hits_a", tw.probe_a.sig_hits).u("sig_hits_b", tw.probe_b.sig_hits)
                          .u("script_probes", tw.probe_a.script_probes).u("sig_probes", tw.probe_a.sig_probes).u("violations", tw.nviol).raw("st", stj + "}").raw("steps", vh::JArr(steps)));
    }
    return 0;
}
