// C20: a UTXO snapshot is used only if it matches its commitment.  Fault enumeration over the snapshot file.
//
// Per process: the deterministic regtest chain with the committed assumeutxo block at height 110 is rebuilt once
// (snapchain.h), the genuine snapshot is written with node::CreateUTXOSnapshot.  Per case: one mutation of the file
// (or one base-block scenario, or one background-validation run) against a *fresh* regtest node that knows the headers
// and has validated the first H blocks.  The engine logs facts only (the exact edit, the activation result, the state
// of the node before/after, whether the next block is still accepted); the offline oracle (checks/C20.py +
// pyref/snapshot.py) rebuilds the mutated bytes, decodes them independently and decides what had to happen.
#include <common/vh.h>
#include <snapchain.h>

#include <crypto/sha256.h>
#include <kernel/chainparams.h>
#include <node/kernel_notifications.h>
#include <random.h>
#include <script/script.h>
#include <util/signalinterrupt.h>

#include <algorithm>
#include <functional>
#include <map>
#include <optional>

namespace {
using snapchain::Bytes;
using snapchain::Chain;

// ---- own minimal reader/writer for the two integer encodings (only used to *aim* mutations) -------------------------
uint64_t RdCompact(const Bytes& b, size_t& p)
{
    auto need = [&](size_t n) { if (p + n > b.size()) throw std::runtime_error("layout: eof"); };
    need(1);
    uint8_t c = b[p++];
    if (c < 253) return c;
    size_t n = c == 253 ? 2 : c == 254 ? 4 : 8;
    need(n);
    uint64_t v = 0;
    for (size_t i = 0; i < n; ++i) v |= uint64_t{b[p + i]} << (8 * i);
    p += n;
    return v;
}
uint64_t RdVarInt(const Bytes& b, size_t& p)
{
    uint64_t n = 0;
    while (true) {
        if (p >= b.size()) throw std::runtime_error("layout: eof");
        uint8_t c = b[p++];
        n = (n << 7) | (c & 0x7f);
        if (c & 0x80) ++n; else return n;
    }
}
Bytes EncCompact(uint64_t v)
{
    Bytes o;
    if (v < 253) o.push_back(v);
    else if (v <= 0xffff) { o.push_back(253); for (int i = 0; i < 2; ++i) o.push_back(v >> (8 * i)); }
    else if (v <= 0xffffffffULL) { o.push_back(254); for (int i = 0; i < 4; ++i) o.push_back(v >> (8 * i)); }
    else { o.push_back(255); for (int i = 0; i < 8; ++i) o.push_back(v >> (8 * i)); }
    return o;
}
Bytes EncVarInt(uint64_t n)
{
    unsigned char tmp[12];
    int len = 0;
    while (true) {
        tmp[len] = (n & 0x7f) | (len ? 0x80 : 0x00);
        if (n <= 0x7f) break;
        n = (n >> 7) - 1;
        ++len;
    }
    Bytes o;
    do { o.push_back(tmp[len]); } while (len--);
    return o;
}
Bytes Le64(uint64_t v) { Bytes o; for (int i = 0; i < 8; ++i) o.push_back(v >> (8 * i)); return o; }

struct Fld { size_t off{0}, len{0}; uint64_t val{0}; };
struct CoinF { size_t off, end; Fld vout, code, amt, nsize; size_t body_off, body_len; };
struct GroupF { size_t off, end; Fld cnt; std::vector<CoinF> coins; };
struct Layout {
    static constexpr size_t MAGIC = 0, VERSION = 5, NET = 7, BASE = 11, COUNT = 43, BODY = 51;
    std::vector<GroupF> groups;
    std::vector<std::pair<size_t, size_t>> flat; // (group, coin)
    uint64_t coins_count{0};
};
size_t SpecialLen(uint64_t ns) { return ns <= 1 ? 20 : 32; }
Layout ParseLayout(const Bytes& g)
{
    Layout L;
    if (g.size() < Layout::BODY) throw std::runtime_error("layout: short file");
    for (int i = 0; i < 8; ++i) L.coins_count |= uint64_t{g[Layout::COUNT + i]} << (8 * i);
    size_t p = Layout::BODY;
    uint64_t left = L.coins_count;
    while (left > 0) {
        GroupF G;
        G.off = p;
        p += 32;
        G.cnt.off = p;
        G.cnt.val = RdCompact(g, p);
        G.cnt.len = p - G.cnt.off;
        for (uint64_t i = 0; i < G.cnt.val; ++i) {
            CoinF C;
            C.off = p;
            C.vout.off = p; C.vout.val = RdCompact(g, p); C.vout.len = p - C.vout.off;
            C.code.off = p; C.code.val = RdVarInt(g, p); C.code.len = p - C.code.off;
            C.amt.off = p; C.amt.val = RdVarInt(g, p); C.amt.len = p - C.amt.off;
            C.nsize.off = p; C.nsize.val = RdVarInt(g, p); C.nsize.len = p - C.nsize.off;
            C.body_off = p;
            C.body_len = C.nsize.val < 6 ? SpecialLen(C.nsize.val) : C.nsize.val - 6;
            p += C.body_len;
            if (p > g.size()) throw std::runtime_error("layout: eof in script");
            C.end = p;
            L.flat.emplace_back(L.groups.size(), G.coins.size());
            G.coins.push_back(C);
            --left;
        }
        G.end = p;
        L.groups.push_back(std::move(G));
    }
    if (p != g.size()) throw std::runtime_error("layout: trailing bytes in genuine snapshot");
    return L;
}

struct Splice { size_t off, del; Bytes ins; };
struct Mutation {
    std::string cls, kind;
    int64_t g{-1}, ci{-1};
    std::vector<Splice> ed;
};
Bytes Apply(const Bytes& g, std::vector<Splice> ed)
{
    std::sort(ed.begin(), ed.end(), [](const Splice& a, const Splice& b) { return a.off > b.off; });
    Bytes o = g;
    for (const auto& s : ed) {
        o.erase(o.begin() + s.off, o.begin() + s.off + s.del);
        o.insert(o.begin() + s.off, s.ins.begin(), s.ins.end());
    }
    return o;
}
Bytes Slice(const Bytes& g, size_t a, size_t b) { return Bytes(g.begin() + a, g.begin() + b); }

constexpr int FIELD_KINDS = 16;
const char* FIELD_KIND_NAME[FIELD_KINDS] = {"value", "height", "coinbase", "script_body", "script_type", "vout", "txid", "tx_count",
                                            "coin_missing", "coin_extra", "coin_duplicated", "group_dropped", "groups_swapped",
                                            "script_raw_reencoded", "script_replaced", "value_out_of_range"};

Mutation FieldMutation(uint64_t k, vh::Rng& rng, const Bytes& g, const Layout& L, const std::vector<size_t>& perm)
{
    Mutation m;
    m.cls = "field";
    const int kind = k % FIELD_KINDS;
    const auto [gi, ci] = L.flat[perm[(k / FIELD_KINDS) % perm.size()]];
    const GroupF& G = L.groups[gi];
    const CoinF& C = G.coins[ci];
    m.kind = FIELD_KIND_NAME[kind];
    m.g = gi;
    m.ci = ci;
    auto count_edit = [&](int64_t d) { m.ed.push_back({Layout::COUNT, 8, Le64(L.coins_count + d)}); };
    switch (kind) {
    case 0: { // value: another compressed amount that is still a legal amount
        uint64_t x;
        do {
            switch (rng.below(4)) {
            case 0: x = C.amt.val + 1; break;
            case 1: x = C.amt.val - 1; break;
            case 2: x = rng.below(1000); break;
            default: x = rng.below(uint64_t{1} << 40); break;
            }
        } while (x == C.amt.val);
        m.ed.push_back({C.amt.off, C.amt.len, EncVarInt(x)});
        break;
    }
    case 1: { // height (code = height*2 + coinbase)
        uint64_t code;
        do {
            const uint64_t cb = C.code.val & 1;
            switch (rng.below(5)) {
            case 0: code = C.code.val + 2; break;
            case 1: code = C.code.val >= 2 ? C.code.val - 2 : C.code.val + 2; break;
            case 2: code = rng.below(111) * 2 + cb; break;
            case 3: code = 111 * 2 + cb; break; // one above the base height
            default: code = rng.below(uint64_t{1} << 31) * 2 + cb; break;
            }
        } while (code == C.code.val);
        m.ed.push_back({C.code.off, C.code.len, EncVarInt(code)});
        break;
    }
    case 2: m.ed.push_back({C.code.off, C.code.len, EncVarInt(C.code.val ^ 1)}); break;
    case 3: {
        const size_t o = C.body_off + rng.below(C.body_len);
        m.ed.push_back({o, 1, Bytes{static_cast<unsigned char>(g[o] ^ (1 + rng.below(255)))}});
        break;
    }
    case 4: { // script type byte: every other special type, or a raw length
        uint64_t ns;
        do { ns = rng.chance(3, 4) ? rng.below(6) : 6 + rng.below(80); } while (ns == C.nsize.val);
        m.ed.push_back({C.nsize.off, C.nsize.len, EncVarInt(ns)});
        break;
    }
    case 5: {
        uint64_t v;
        do {
            switch (rng.below(4)) {
            case 0: v = C.vout.val + 1; break;
            case 1: v = rng.below(252); break;
            case 2: v = 0xffffffffULL; break;
            default: v = rng.below(uint64_t{1} << 25); break;
            }
        } while (v == C.vout.val);
        m.ed.push_back({C.vout.off, C.vout.len, EncCompact(v)});
        break;
    }
    case 6: {
        const size_t o = G.off + rng.below(32);
        m.ed.push_back({o, 1, Bytes{static_cast<unsigned char>(g[o] ^ (1u << rng.below(8)))}});
        break;
    }
    case 7: {
        uint64_t n;
        do { n = rng.chance(1, 2) ? G.cnt.val + 1 : rng.below(4); } while (n == G.cnt.val);
        m.ed.push_back({G.cnt.off, G.cnt.len, EncCompact(n)});
        break;
    }
    case 8: // one coin missing, metadata count consistent with the file
        if (G.cnt.val == 1) m.ed.push_back({G.off, G.end - G.off, {}});
        else { m.ed.push_back({C.off, C.end - C.off, {}}); m.ed.push_back({G.cnt.off, G.cnt.len, EncCompact(G.cnt.val - 1)}); }
        count_edit(-1);
        break;
    case 9: { // one extra coin (fresh txid), metadata count consistent
        Bytes ins = rng.bytes(32);
        ins.push_back(1);
        Bytes coin = Slice(g, C.off, C.end);
        ins.insert(ins.end(), coin.begin(), coin.end());
        const size_t at = rng.coin() ? G.off : G.end;
        m.ed.push_back({at, 0, ins});
        count_edit(+1);
        break;
    }
    case 10: // the same group twice, count consistent: the *set* of coins is unchanged
        m.ed.push_back({G.end, 0, Slice(g, G.off, G.end)});
        count_edit(+1);
        break;
    case 11: m.ed.push_back({G.off, G.end - G.off, {}}); break; // group dropped, count not adjusted
    case 12: { // two adjacent groups swapped: same content, other byte order
        const size_t a = gi + 1 < L.groups.size() ? gi : gi - 1;
        const GroupF& A = L.groups[a];
        const GroupF& B = L.groups[a + 1];
        Bytes ins = Slice(g, B.off, B.end);
        Bytes first = Slice(g, A.off, A.end);
        ins.insert(ins.end(), first.begin(), first.end());
        m.ed.push_back({A.off, B.end - A.off, ins});
        m.g = a;
        break;
    }
    case 13: { // compressed P2PK script written in the raw form: same script, other bytes
        if (C.nsize.val == 2 || C.nsize.val == 3) {
            Bytes raw{33, static_cast<unsigned char>(C.nsize.val)};
            Bytes x = Slice(g, C.body_off, C.body_off + 32);
            raw.insert(raw.end(), x.begin(), x.end());
            raw.push_back(0xac);
            Bytes ins = EncVarInt(raw.size() + 6);
            ins.insert(ins.end(), raw.begin(), raw.end());
            m.ed.push_back({C.nsize.off, C.end - C.nsize.off, ins});
        } else {
            m.kind = "script_body";
            const size_t o = C.body_off + rng.below(std::max<size_t>(1, C.body_len));
            m.ed.push_back({o, 1, Bytes{static_cast<unsigned char>(g[o] ^ 0x01)}});
        }
        break;
    }
    case 14: { // whole script replaced by another template
        Bytes ins;
        switch (rng.below(4)) {
        case 0: ins = EncVarInt(0); { Bytes h = rng.bytes(20); ins.insert(ins.end(), h.begin(), h.end()); } break;
        case 1: ins = EncVarInt(1); { Bytes h = rng.bytes(20); ins.insert(ins.end(), h.begin(), h.end()); } break;
        case 2: ins = EncVarInt(6 + 1); ins.push_back(0x51); break; // OP_TRUE
        default: ins = EncVarInt(6); break;                          // empty script
        }
        m.ed.push_back({C.nsize.off, C.end - C.nsize.off, ins});
        break;
    }
    default: { // value outside the money range / wrapping decompression
        uint64_t x;
        switch (rng.below(3)) {
        case 0: x = ~uint64_t{0}; break;
        case 1: x = uint64_t{1} << 63; break;
        default: x = (uint64_t{1} << 62) + rng.below(uint64_t{1} << 61); break;
        }
        m.ed.push_back({C.amt.off, C.amt.len, EncVarInt(x)});
        break;
    }
    }
    return m;
}

constexpr int META_KINDS = 36;
Mutation MetaMutation(uint64_t k, vh::Rng& rng, const Bytes& g, const Layout& L, const Chain& ch)
{
    Mutation m;
    m.cls = "meta";
    auto set = [&](size_t off, const Bytes& b, const char* kind) { m.ed.push_back({off, b.size(), b}); m.kind = kind; };
    auto h256 = [](const uint256& h) { return Bytes(h.begin(), h.end()); };
    const int i = k % META_KINDS;
    if (i < 5) { set(Layout::MAGIC + i, Bytes{static_cast<unsigned char>(g[Layout::MAGIC + i] ^ (1 + rng.below(255)))}, "magic"); }
    else if (i < 10) { const uint16_t v[5] = {0, 1, 3, 0xffff, 0x0200}; set(Layout::VERSION, Bytes{static_cast<unsigned char>(v[i - 5] & 0xff), static_cast<unsigned char>(v[i - 5] >> 8)}, "version"); }
    else if (i < 16) {
        Bytes nm;
        switch (i - 10) {
        case 0: { auto p = CChainParams::Main()->MessageStart(); nm.assign(p.begin(), p.end()); break; }
        case 1: { auto p = CChainParams::TestNet()->MessageStart(); nm.assign(p.begin(), p.end()); break; }
        case 2: { auto p = CChainParams::TestNet4()->MessageStart(); nm.assign(p.begin(), p.end()); break; }
        case 3: nm = Bytes{0, 0, 0, 0}; break;
        case 4: nm = rng.bytes(4); break;
        default: nm = Slice(g, Layout::NET, Layout::NET + 4); nm[rng.below(4)] ^= (1 + rng.below(255)); break;
        }
        set(Layout::NET, nm, "network");
    } else if (i < 30) {
        Bytes bh;
        const char* kind = "base_hash";
        switch (i - 16) {
        case 0: bh = Bytes(32, 0); break;
        case 1: bh = Bytes(32, 0); bh[0] = 1; break;
        case 2: bh = rng.bytes(32); break;
        case 3: bh = h256(ch.headers[109].GetHash()); kind = "base_hash_known_block"; break;
        case 4: bh = h256(ch.headers[100].GetHash()); kind = "base_hash_known_block"; break;
        case 5: bh = h256(ch.headers[111].GetHash()); kind = "base_hash_known_block"; break;
        case 6: bh = h256(ch.headers[0].GetHash()); kind = "base_hash_known_block"; break;
        case 7: bh = h256(ch.headers[1 + rng.below(109)].GetHash()); kind = "base_hash_known_block"; break;
        case 8: { // a committed assumeutxo hash of *another* chain height (header unknown to this node)
            const auto other = CChainParams::RegTest({})->AssumeutxoForHeight(200);
            bh = other ? h256(other->blockhash) : rng.bytes(32);
            kind = "base_hash_other_au";
            break;
        }
        default: bh = Slice(g, Layout::BASE, Layout::BASE + 32); bh[rng.below(32)] ^= (1u << rng.below(8)); break;
        }
        set(Layout::BASE, bh, kind);
    } else {
        uint64_t n;
        switch (i - 30) {
        case 0: n = 0; break;
        case 1: n = L.coins_count - 1; break;
        case 2: n = L.coins_count + 1; break;
        case 3: n = L.coins_count * 2; break;
        case 4: n = ~uint64_t{0}; break;
        default: n = L.coins_count + (uint64_t{1} << 32); break;
        }
        set(Layout::COUNT, Le64(n), "coins_count");
    }
    return m;
}

std::string Sha256Hex(const Bytes& b)
{
    unsigned char o[32];
    CSHA256().Write(b.data(), b.size()).Finalize(o);
    return vh::Hex(o, 32);
}
std::string EditsJson(const std::vector<Splice>& ed)
{
    std::vector<std::string> it;
    for (const auto& s : ed) it.push_back("[" + std::to_string(s.off) + "," + std::to_string(s.del) + ",\"" + vh::Hex(s.ins) + "\"]");
    return vh::JArr(it);
}

struct NodeState {
    std::string tip;
    int h{-1};
    std::string utxo;
    uint64_t ncoins{0};
    size_t ncs{0};
    bool snapdir{false}, from_snapshot{false}, snap_height{false}, fatal{false}, same_cs{true};
    int64_t ctc{0}, cdb{0};
    std::string json() const
    {
        return vh::J().str("tip", tip).i("h", h).str("utxo", utxo).u("ncoins", ncoins).u("ncs", ncs).b("snapdir", snapdir).b("from_snapshot", from_snapshot)
            .b("snap_height", snap_height).b("fatal", fatal).b("same_cs", same_cs).i("ctc", ctc).i("cdb", cdb).done();
    }
};

NodeState Observe(TestingSetup& b, Chainstate* orig)
{
    NodeState s;
    ChainstateManager& cm = *b.m_node.chainman;
    Chainstate* act;
    {
        LOCK(::cs_main);
        s.ncs = cm.m_chainstates.size();
        act = &cm.ActiveChainstate();
        s.same_cs = orig == nullptr || act == orig;
        s.from_snapshot = act->m_from_snapshot_blockhash.has_value();
        s.snap_height = cm.m_blockman.m_snapshot_height.has_value();
        const CBlockIndex* tip = (orig ? orig : act)->m_chain.Tip();
        s.tip = tip ? tip->GetBlockHash().ToString() : "";
        s.h = tip ? tip->nHeight : -1;
        s.ctc = (orig ? orig : act)->m_coinstip_cache_size_bytes;
        s.cdb = (orig ? orig : act)->m_coinsdb_cache_size_bytes;
    }
    auto [d, n] = snapchain::UtxoDigest(orig ? *orig : *act);
    s.utxo = d;
    s.ncoins = n;
    s.snapdir = node::FindAssumeutxoChainstateDir(cm.m_options.datadir).has_value() || fs::exists(cm.m_options.datadir / "chainstate_snapshot");
    s.fatal = b.m_node.exit_status.load() != EXIT_SUCCESS || bool(b.m_interrupt);
    return s;
}

bool Feed(TestingSetup& b, const Chain& ch, int from, int to)
{
    for (int h = from; h <= to; ++h) {
        bool nb = false;
        if (!b.m_node.chainman->ProcessNewBlock(ch.blocks[h], /*force_processing=*/true, /*min_pow_checked=*/true, &nb)) return false;
    }
    return true;
}

const char* AuStateName(Assumeutxo s)
{
    switch (s) {
    case Assumeutxo::VALIDATED: return "VALIDATED";
    case Assumeutxo::UNVALIDATED: return "UNVALIDATED";
    case Assumeutxo::INVALID: return "INVALID";
    }
    return "?";
}

struct Plan {
    uint64_t n_field, n_meta, n_trunc, trunc_step, n_flip, flip_all, n_app, n_ident, n_base, n_bg, batch;
    uint64_t n_file() const { return n_field + n_meta + n_trunc + n_flip + n_app; }
    uint64_t n_batches() const { return (n_file() + batch - 1) / batch; }
    uint64_t total_cases() const { return n_batches() + n_ident + n_base + n_bg; }
};

// The k-th file mutation of the plan (k in [0, n_file())).
Mutation FileMutation(const Plan& P, uint64_t k, vh::Rng& rng, const Bytes& G, const Layout& L, const std::vector<size_t>& perm, const Chain& ch)
{
    Mutation m;
    if (k < P.n_field) return FieldMutation(k, rng, G, L, perm);
    if ((k -= P.n_field) < P.n_meta) return MetaMutation(k, rng, G, L, ch);
    if ((k -= P.n_meta) < P.n_trunc) {
        m.cls = "trunc";
        m.kind = "truncated";
        size_t at = std::min<size_t>(k * P.trunc_step, G.size() - 1);
        if (P.trunc_step > 1 && k % 5 == 4) { // field/record boundaries are the interesting cut points
            const GroupF& gr = L.groups[rng.below(L.groups.size())];
            at = rng.coin() ? gr.end : gr.coins[0].amt.off;
            if (at >= G.size()) at = G.size() - 1;
        }
        m.ed.push_back({at, G.size() - at, {}});
        return m;
    }
    if ((k -= P.n_trunc) < P.n_flip) {
        m.cls = "flip";
        m.kind = "flip";
        size_t at;
        unsigned char pat;
        if (P.flip_all) { at = (k / 2) % G.size(); pat = (k % 2) ? 0xff : 0x01; }
        else { at = rng.below(G.size()); const unsigned char pats[4] = {0x01, 0x80, 0xff, static_cast<unsigned char>(1 + rng.below(255))}; pat = pats[rng.below(4)]; }
        m.ed.push_back({at, 1, Bytes{static_cast<unsigned char>(G[at] ^ pat)}});
        return m;
    }
    k -= P.n_flip;
    m.cls = "append";
    Bytes ins;
    switch (k % 8) {
    case 0: ins = Bytes{0}; m.kind = "one_zero_byte"; break;
    case 1: ins = Bytes{0xff}; m.kind = "one_ff_byte"; break;
    case 2: ins = rng.bytes(1 + rng.below(64)); m.kind = "random_bytes"; break;
    case 3: { const GroupF& gr = L.groups[rng.below(L.groups.size())]; ins = Slice(G, gr.off, gr.end); m.kind = "copy_of_a_group"; break; }
    case 4: { ins = rng.bytes(32); ins.push_back(1); const CoinF& cf = L.groups[0].coins[0]; Bytes cb = Slice(G, cf.off, cf.end); ins.insert(ins.end(), cb.begin(), cb.end()); m.kind = "fresh_group"; break; }
    case 5: ins = G; m.kind = "whole_file_again"; break;
    case 6: ins = Bytes(4096, 0); m.kind = "zero_page"; break;
    default: ins = Bytes{'\n'}; m.kind = "newline"; break;
    }
    m.ed.push_back({G.size(), 0, ins});
    return m;
}

// One regtest node: headers up to Hh, blocks validated up to H.
struct Node {
    std::unique_ptr<TestingSetup> b;
    Chainstate* orig{nullptr};
    int H{0}, Hh{0};
    NodeState pre;
    int attempts{0};
    ChainstateManager& cm() { return *b->m_node.chainman; }
};
std::unique_ptr<Node> MakeNode(const Chain& ch, int H, int Hh)
{
    auto n = std::make_unique<Node>();
    n->b = std::make_unique<TestingSetup>(ChainType::REGTEST, TestOpts{.extra_args = {"-debug=0", "-checkmempool=0"}, .setup_net = false});
    n->H = H;
    n->Hh = std::max(H, Hh);
    BlockValidationState st;
    std::vector<CBlockHeader> hs(ch.headers.begin() + 1, ch.headers.begin() + n->Hh + 1);
    if (!hs.empty() && !n->cm().ProcessNewBlockHeaders(hs, true, st)) throw std::runtime_error("headers of the base chain rejected: " + st.ToString());
    if (!Feed(*n->b, ch, 1, H)) throw std::runtime_error("blocks of the base chain rejected");
    return n;
}
void Settle(Node& n)
{
    n.b->m_node.validation_signals->SyncWithValidationInterfaceQueue();
    n.orig = &n.cm().ActiveChainstate();
    n.pre = Observe(*n.b, n.orig);
}

struct Attempt {
    bool meta_ok{false}, activated{false}, threw{false};
    std::string err;
    bool base_known{false}, base_failed{false}, best_has_base{false}, base_more_work{false};
    NodeState post;
};
// The activation attempt, done the way the loadtxoutset RPC does it.
Attempt TryActivate(Node& n, const Bytes& file)
{
    Attempt a;
    ChainstateManager& cm = n.cm();
    {
        LOCK(::cs_main);
        uint256 bh;
        if (file.size() >= Layout::BODY) bh = uint256{std::span<const unsigned char>{file.data() + Layout::BASE, 32}};
        const CBlockIndex* bi = cm.m_blockman.LookupBlockIndex(bh);
        a.base_known = bi != nullptr;
        if (bi) {
            a.base_failed = bi->nStatus & BLOCK_FAILED_VALID;
            a.best_has_base = cm.m_best_header && cm.m_best_header->GetAncestor(bi->nHeight) == bi;
            a.base_more_work = bi->nChainWork > n.orig->m_chain.Tip()->nChainWork;
        }
    }
    const fs::path fpath = n.b->m_path_root / "candidate.dat";
    snapchain::WriteFileBytes(fpath, file);
    {
        AutoFile af{fsbridge::fopen(fpath, "rb")};
        node::SnapshotMetadata meta{cm.GetParams().MessageStart()};
        try {
            af >> meta;
            a.meta_ok = true;
        } catch (const std::ios_base::failure& e) {
            a.err = std::string("metadata: ") + e.what();
        }
        if (a.meta_ok) {
            try {
                auto res = cm.ActivateSnapshot(af, meta, /*in_memory=*/false);
                a.activated = bool(res);
                if (!res) a.err = util::ErrorString(res).original;
            } catch (const std::exception& e) {
                a.threw = true;
                a.err = std::string("exception: ") + e.what();
            }
        }
    }
    n.b->m_node.validation_signals->SyncWithValidationInterfaceQueue();
    a.post = Observe(*n.b, n.orig);
    ++n.attempts;
    vh::log().obs(a.activated ? "activations_ok" : "activations_refused");
    return a;
}

// After an accepted snapshot: feed the missing blocks to the background chainstate (optionally perturbing one of its
// coins on the way) and report what the node concluded.
std::string FollowThrough(Node& n, const Chain& ch, vh::Rng& rng, const std::string& perturb_kind, bool is_bg_case)
{
    ChainstateManager& cm = n.cm();
    TestingSetup& b = *n.b;
    Chainstate* snap_cs;
    Chainstate* bg_cs;
    {
        LOCK(::cs_main);
        snap_cs = &cm.CurrentChainstate();
        bg_cs = cm.HistoricalChainstate();
    }
    std::string perturbed = "none", st_before = AuStateName(snap_cs->m_assumeutxo), st_after, bg_digest, pnote;
    bool fed = true;
    const int H = n.H;
    if (bg_cs) {
        const int stop = is_bg_case ? H + rng.below(110 - H) : 109; // background height at which the perturbation happens
        fed = Feed(b, ch, H + 1, stop);
        if (is_bg_case && perturb_kind != "none") {
            LOCK(::cs_main);
            CCoinsViewCache& view = bg_cs->CoinsTip();
            perturbed = perturb_kind;
            if (perturb_kind == "add" || stop == 0) {
                perturbed = "add";
                const Bytes r = rng.bytes(32);
                COutPoint op{Txid::FromUint256(uint256{std::span<const unsigned char>{r.data(), 32}}), static_cast<uint32_t>(rng.below(4))};
                view.AddCoin(op, Coin{CTxOut{CAmount(1 + rng.below(1000)), CScript() << OP_TRUE}, int(1 + rng.below(100)), false}, false);
                pnote = op.ToString();
            } else {
                const int hb = 1 + rng.below(stop);
                COutPoint op{ch.blocks[hb]->vtx[0]->GetHash(), 0};
                Coin coin = view.AccessCoin(op);
                if (coin.IsSpent()) throw std::runtime_error("bg perturbation: coin not found");
                view.SpendCoin(op);
                if (perturb_kind != "remove") {
                    if (perturb_kind == "value") coin.out.nValue += rng.coin() ? 1 : -1;
                    else if (perturb_kind == "height") coin.nHeight = coin.nHeight > 1 ? coin.nHeight - 1 : coin.nHeight + 1;
                    else if (perturb_kind == "coinbase") coin.fCoinBase = !coin.fCoinBase;
                    else { CScript sc = coin.out.scriptPubKey; sc[1 + rng.below(33)] ^= 0x01; coin.out.scriptPubKey = sc; }
                    view.AddCoin(op, std::move(coin), true);
                }
                pnote = op.ToString();
            }
        }
        fed = Feed(b, ch, stop + 1, 110) && fed;
        b.m_node.validation_signals->SyncWithValidationInterfaceQueue();
        bg_digest = snapchain::UtxoDigest(*bg_cs).first;
    }
    {
        LOCK(::cs_main);
        st_after = AuStateName(snap_cs->m_assumeutxo);
    }
    const bool fatal = b.m_node.exit_status.load() != EXIT_SUCCESS || bool(b.m_interrupt);
    int bg_h = bg_cs ? WITH_LOCK(::cs_main, return bg_cs->m_chain.Height()) : -1;
    vh::log().obs(std::string("bg_") + st_after);
    return vh::J().b("had_bg", bg_cs != nullptr).str("perturbed", perturbed).str("pnote", pnote).str("before", st_before).str("after", st_after)
        .b("fed", fed).i("bg_h", bg_h).str("bg_digest", bg_digest).b("fatal", fatal).done();
}

// "does the node still work?": the next block of the chain it was following must connect (next_block > 0), or, after an
// InvalidateBlock scenario (next_block == -1), a freshly built block on the valid prefix.
std::pair<std::string, int> NextBlock(Node& n, const Chain& ch, int next_block, const Consensus::Params& cp)
{
    ChainstateManager& cm = n.cm();
    if (next_block > 0 && next_block <= ch.tip) {
        const bool ok = Feed(*n.b, ch, next_block, next_block);
        LOCK(::cs_main);
        const CBlockIndex* tip = cm.ActiveChain().Tip();
        return {ok && tip->GetBlockHash() == ch.headers[next_block].GetHash() && &cm.ActiveChainstate() == n.orig ? "connected" : "refused", tip->nHeight};
    }
    if (next_block == -1) {
        const CBlockIndex* tip = WITH_LOCK(::cs_main, return cm.ActiveChain().Tip());
        CBlock nb;
        nb.nVersion = 0x20000000;
        nb.hashPrevBlock = tip->GetBlockHash();
        nb.nTime = tip->GetBlockTime() + 600;
        nb.nBits = ch.headers[1].nBits;
        CMutableTransaction cb;
        cb.vin.resize(1);
        cb.vin[0].prevout.SetNull();
        cb.vin[0].scriptSig = CScript() << (tip->nHeight + 1) << OP_0;
        cb.vout.emplace_back(0, CScript() << OP_TRUE);
        nb.vtx.push_back(MakeTransactionRef(std::move(cb)));
        nb.hashMerkleRoot = BlockMerkleRoot(nb);
        while (!CheckProofOfWork(nb.GetHash(), nb.nBits, cp)) ++nb.nNonce;
        bool isnew = false;
        const bool ok = cm.ProcessNewBlock(std::make_shared<const CBlock>(nb), true, true, &isnew);
        LOCK(::cs_main);
        return {ok && cm.ActiveChain().Tip()->GetBlockHash() == nb.GetHash() ? "connected" : "refused", cm.ActiveChain().Height()};
    }
    return {"skipped", -1};
}

void LogAttempt(uint64_t c, int j, const Mutation& m, const std::string& scn, const std::string& scn_note, const char* src, const Bytes& file, const Node& n,
                const Attempt& a, const std::string& extra_key, const std::string& extra_json, const std::string& next, int next_h)
{
    vh::J rec;
    rec.u("case", c).i("j", j).i("attempt_on_node", n.attempts).str("cls", m.cls).str("kind", m.kind).i("g", m.g).i("ci", m.ci).str("scn", scn).str("scn_note", scn_note)
        .str("src", src).raw("edits", EditsJson(m.ed)).str("sha", Sha256Hex(file)).u("flen", file.size())
        .i("H", n.H).i("Hh", n.Hh).b("meta_ok", a.meta_ok).b("activated", a.activated).b("threw", a.threw).str("err", a.err)
        .b("base_known", a.base_known).b("base_failed", a.base_failed).b("best_has_base", a.best_has_base).b("base_more_work", a.base_more_work)
        .raw("pre", n.pre.json()).raw("post", a.post.json()).str("next", next).i("next_h", next_h);
    if (!extra_key.empty()) rec.raw(extra_key, extra_json);
    vh::log().rec(rec);
}

} // namespace

// Cases: [0, n_batches) = batches of `batch` file mutations tried one after the other on one fresh node (a refused
// snapshot must leave the node untouched, so the next attempt sees the same node; the batch ends with "next block still
// connects" or "the genuine snapshot is still accepted"); an accepted file ends the node's life (it is followed through
// background validation) and the rest of the batch continues on another fresh node.  Then n_ident, n_base, n_bg cases
// with one attempt each.
// params: n_field n_meta n_trunc trunc_step n_flip flip_all n_app batch n_ident n_base n_bg
VH_CMD(snapshot)
{
    Plan P;
    P.n_field = args.geti("n_field", 160);
    P.n_meta = args.geti("n_meta", META_KINDS);
    P.n_trunc = args.geti("n_trunc", 0);
    P.trunc_step = std::max<int64_t>(1, args.geti("trunc_step", 16));
    P.n_flip = args.geti("n_flip", 100);
    P.flip_all = args.geti("flip_all", 0);
    P.n_app = args.geti("n_app", 8);
    P.batch = std::max<int64_t>(1, args.geti("batch", 6));
    P.n_ident = args.geti("n_ident", 4);
    P.n_base = args.geti("n_base", 16);
    P.n_bg = args.geti("n_bg", 8);

    const Chain ch = snapchain::BuildChain(/*extra=*/3);
    const Bytes& G = ch.snap110;
    const Layout L = ParseLayout(G);
    std::vector<size_t> perm(L.flat.size());
    for (size_t i = 0; i < perm.size(); ++i) perm[i] = i;
    {
        vh::Rng pr(args.seed, 0xF1E1D);
        pr.shuffle(perm);
    }
    vh::log().rec(vh::J().str("base", "1").hex("genuine", G).hex("snap109", ch.snap109).str("au_hash", ch.au_hash_hex).str("base_hash", ch.base_hash.ToString())
                      .u("coins", L.coins_count).u("groups", L.groups.size()).u("size", G.size()).str("genuine_digest", ch.genuine_digest)
                      .hex("netmagic", CChainParams::RegTest({})->MessageStart()).u("plan_cases", P.total_cases()).u("plan_file_mutations", P.n_file()));
    const Consensus::Params cp = CChainParams::RegTest({})->GetConsensus();
    const Mutation genuine_mut{.cls = "control", .kind = "genuine_after_refusals"};

    // single-attempt cases (ident/base/bg, each needs its own node and up to 110 validated blocks) are spread evenly between
    // the batches so that shards get equal work: position p is a single case iff p % R == R-1 (while singles remain)
    const uint64_t n_single = P.n_ident + P.n_base + P.n_bg, n_total = P.total_cases();
    const uint64_t R = n_single ? std::max<uint64_t>(1, n_total / n_single) : n_total + 1;
    for (uint64_t pos = args.from; pos < args.to && pos < n_total; ++pos) {
        const uint64_t c = pos;
        vh::set_case(c);
        vh::Rng rng(args.seed, c);
        const bool is_single = (pos % R) == R - 1 && (pos / R) < n_single;
        const uint64_t singles_before = std::min(n_single, pos / R);
        if (!is_single) {
            const uint64_t bi = pos - singles_before;
            // ---- a batch of file mutations ----------------------------------------------------------------------
            std::unique_ptr<Node> n;
            const uint64_t k0 = bi * P.batch, k1 = std::min(P.n_file(), k0 + P.batch);
            for (uint64_t k = k0; k < k1; ++k) {
                vh::Rng mr(args.seed ^ 0x5eedf11e, k); // the mutation depends on (seed, k) only
                const Mutation m = FileMutation(P, k, mr, G, L, perm, ch);
                const Bytes file = Apply(G, m.ed);
                if (!n) {
                    n = MakeNode(ch, rng.chance(2, 5) ? 0 : rng.below(110), 110 + rng.below(4));
                    Settle(*n);
                }
                const Attempt a = TryActivate(*n, file);
                std::string next = "later";
                int next_h = -1;
                std::string ek, ej;
                if (a.activated) {
                    ek = "bg";
                    ej = FollowThrough(*n, ch, rng, "none", false);
                    next = "n/a";
                } else if (k + 1 == k1) {
                    // end of the batch: the node must still be usable
                    if (rng.coin()) {
                        std::tie(next, next_h) = NextBlock(*n, ch, n->H + 1, cp);
                    } else {
                        const Attempt ga = TryActivate(*n, G);
                        next = ga.activated ? "genuine_accepted" : "genuine_refused:" + ga.err;
                    }
                }
                LogAttempt(c, k - k0, m, "normal", "", "genuine", file, *n, a, ek, ej, next, next_h);
                if (a.activated) n.reset();
            }
            continue;
        }
        uint64_t k = pos / R;
        Mutation m;
        std::string scn = "normal", scn_note;
        const Bytes* src = &G;
        if (k < P.n_ident) {
            m.cls = "ident";
            m.kind = "genuine";
        } else if ((k -= P.n_ident) < P.n_base) {
            m.cls = "base";
            // sibling_*: a block at the committed height with the committed block's transactions (hence the identical UTXO set
            // and hash) but another header; the genuine dump with only the base hash rewritten to the sibling's hash
            const char* scns[12] = {"tip_at_base", "tip_above_base", "invalid_base_in_chain", "invalid_ancestor_in_chain", "invalid_header_ahead", "better_fork_headers",
                                    "consistent_snapshot_of_uncommitted_block", "header_unknown",
                                    "sibling_on_best_header_chain", "sibling_with_block_data", "sibling_chain_less_work", "sibling_chain_much_more_work"};
            scn = scns[k % 12];
            m.kind = scn;
            if (scn == "consistent_snapshot_of_uncommitted_block") src = &ch.snap109;
        } else if ((k -= P.n_base) < P.n_bg) {
            m.cls = "bg";
            const char* kinds[8] = {"none", "value", "remove", "add", "height", "coinbase", "script", "none"};
            m.kind = kinds[k % 8];
        } else {
            continue; // beyond the plan
        }
        int H = rng.chance(2, 5) ? 0 : rng.below(110);
        int Hh = 110 + rng.below(4);
        if (scn == "tip_at_base") H = 110;
        if (scn == "tip_above_base") H = 111 + rng.below(2);
        if (scn == "invalid_base_in_chain" || scn == "invalid_ancestor_in_chain") H = 110 + rng.below(3);
        if (scn == "header_unknown") { Hh = 100 + rng.below(10); H = std::min(H, Hh); }
        if (scn == "consistent_snapshot_of_uncommitted_block") H = std::min(H, 108);
        const bool sibling = scn.rfind("sibling_", 0) == 0;
        CBlock sib;
        if (sibling) {
            H = std::min(H, 108);
            Hh = scn == "sibling_chain_less_work" ? 111 + rng.below(3) : 110;
            sib = *ch.blocks[110];
            sib.nTime += 1 + rng.below(5);
            sib.nNonce = 0;
            while (!CheckProofOfWork(sib.GetHash(), sib.nBits, cp)) ++sib.nNonce;
            const uint256 sh = sib.GetHash();
            m.ed.push_back({Layout::BASE, 32, Bytes(sh.begin(), sh.end())});
        }
        if (m.cls == "bg") H = rng.below(109);
        std::unique_ptr<Node> n = MakeNode(ch, H, Hh);
        ChainstateManager& cm = n->cm();
        int next_block = H + 1;
        if (scn == "invalid_base_in_chain" || scn == "invalid_ancestor_in_chain" || scn == "invalid_header_ahead") {
            int at = 110;
            if (scn == "invalid_ancestor_in_chain") at = 2 + rng.below(108);
            if (scn == "invalid_header_ahead") at = H + 1 + rng.below(110 - H);
            CBlockIndex* pi = WITH_LOCK(::cs_main, return cm.m_blockman.LookupBlockIndex(ch.headers[at].GetHash()));
            BlockValidationState st;
            if (!pi || !cm.ActiveChainstate().InvalidateBlock(st, pi)) throw std::runtime_error("InvalidateBlock failed");
            scn_note = "invalidated height " + std::to_string(at);
            next_block = -1;
        }
        if (scn == "better_fork_headers") {
            const int fork_at = 90 + rng.below(20); // parent height
            const int len = (n->Hh - fork_at) + 1 + rng.below(3);
            auto fh = snapchain::ForkHeaders(ch.headers[fork_at], len, c, cp);
            BlockValidationState st;
            if (!cm.ProcessNewBlockHeaders(fh, true, st)) throw std::runtime_error("fork headers rejected: " + st.ToString());
            scn_note = "fork from " + std::to_string(fork_at) + " len " + std::to_string(len);
        }
        if (sibling) {
            BlockValidationState st;
            const CBlockHeader sh = static_cast<const CBlockHeader&>(sib);
            if (!cm.ProcessNewBlockHeaders(std::span<const CBlockHeader>{&sh, 1}, true, st)) throw std::runtime_error("sibling header rejected: " + st.ToString());
            int on_top = 0;
            if (scn == "sibling_on_best_header_chain" || scn == "sibling_with_block_data") on_top = 1;
            if (scn == "sibling_chain_much_more_work") on_top = 2 + rng.below(4);
            if (on_top) {
                auto fh = snapchain::ForkHeaders(sh, on_top, c, cp);
                if (!cm.ProcessNewBlockHeaders(fh, true, st)) throw std::runtime_error("headers on the sibling rejected: " + st.ToString());
            }
            if (scn == "sibling_with_block_data") {
                bool nb = false;
                if (!cm.ProcessNewBlock(std::make_shared<const CBlock>(sib), true, true, &nb)) throw std::runtime_error("sibling block rejected");
            }
            scn_note = "sibling " + sib.GetHash().ToString() + " +" + std::to_string(on_top) + " headers";
        }
        Settle(*n);
        const Bytes file = Apply(*src, m.ed);
        const Attempt a = TryActivate(*n, file);
        std::string next = "n/a", ek, ej;
        int next_h = -1;
        if (a.activated) {
            ek = "bg";
            ej = FollowThrough(*n, ch, rng, m.kind, m.cls == "bg");
        } else {
            std::tie(next, next_h) = NextBlock(*n, ch, next_block, cp);
        }
        LogAttempt(c, 0, m, scn, scn_note, src == &G ? "genuine" : "snap109", file, *n, a, ek, ej, next, next_h);
    }
    return 0;
}
