// C54: block index navigation and chainwork.
//   chainnav           : random block trees (2..5000 blocks) of self-allocated CBlockIndex objects linked through pprev/nHeight/BuildSkip();
//                        GetAncestor, LastCommonAncestor, CChain::SetTip/FindFork/Contains/Next/operator[]/Height, LocatorEntries/GetLocator,
//                        nChainWork accumulated as the node does (parent's work + GetBlockProof)
//   blockproof         : GetBitsProof / GetBlockProof on an exponent x mantissa table and random nBits
//   chainwork_blockman : trees of random headers added through the node's own BlockManager::AddToBlockIndex (real nHeight / pskip / nChainWork bookkeeping)
// Inputs and answers are logged as block numbers; checks/C54.py recomputes everything with naive parent walks and Python integers.
#include <common/vh.h>

#include <arith_uint256.h>
#include <chain.h>
#include <node/blockstorage.h>
#include <primitives/block.h>
#include <test/util/setup_common.h>
#include <uint256.h>
#include <validation.h>

#include <algorithm>
#include <map>
#include <memory>
#include <stdexcept>
#include <string>
#include <vector>

namespace {

std::string HexBE(const uint256& u)
{
    static const char* d = "0123456789abcdef";
    std::string r;
    bool started = false;
    for (int i = 31; i >= 0; --i) {
        for (int half = 1; half >= 0; --half) {
            const int nib = (u.begin()[i] >> (4 * half)) & 15;
            if (!started && nib == 0) continue;
            started = true;
            r += d[nib];
        }
    }
    return started ? r : "0";
}
std::string HexArith(const arith_uint256& a) { return HexBE(ArithToUint256(a)); }

struct Tree {
    std::vector<std::unique_ptr<CBlockIndex>> blocks;
    std::vector<std::unique_ptr<uint256>> hashes;
    std::vector<int> parent;
    std::map<const CBlockIndex*, int> id;
    int add(int par, uint32_t nbits)
    {
        const int me = static_cast<int>(blocks.size());
        auto b = std::make_unique<CBlockIndex>();
        auto h = std::make_unique<uint256>();
        const uint32_t tag = static_cast<uint32_t>(me) + 1;
        std::memcpy(h->begin(), &tag, 4);
        *(h->begin() + 31) = 0xb1;
        b->phashBlock = h.get();
        b->pprev = par >= 0 ? blocks[par].get() : nullptr;
        b->nHeight = par >= 0 ? blocks[par]->nHeight + 1 : 0;
        b->BuildSkip();
        b->nBits = nbits;
        // the node's bookkeeping rule (BlockManager::AddToBlockIndex / LoadBlockIndex)
        b->nChainWork = (b->pprev ? b->pprev->nChainWork : arith_uint256{0}) + GetBlockProof(*b);
        id[b.get()] = me;
        blocks.push_back(std::move(b));
        hashes.push_back(std::move(h));
        parent.push_back(par);
        return me;
    }
    int idx(const CBlockIndex* p) const { return p ? id.at(p) : -1; }
    int idx_of_hash(const uint256& h) const
    {
        uint32_t tag;
        std::memcpy(&tag, h.begin(), 4);
        return static_cast<int>(tag) - 1;
    }
};

// plausible per-block targets (exponent >= 0x10, so that thousands of blocks cannot overflow 256-bit chainwork), with a few worthless encodings
uint32_t TreeBits(vh::Rng& rng)
{
    switch (rng.below(10)) {
    case 0: return 0x207fffff;
    case 1: return 0x1d00ffff;
    case 2: return 0x1d00ffff | 0x00800000;                // negative: zero work
    case 3: return 0x22000001 + static_cast<uint32_t>(rng.below(3)); // overflow: zero work
    case 4: return (static_cast<uint32_t>(0x10 + rng.below(0x11)) << 24); // zero mantissa: zero work
    default: return (static_cast<uint32_t>(0x10 + rng.below(0x11)) << 24) | static_cast<uint32_t>(1 + rng.below(0x7fffff));
    }
}

const uint32_t MANTISSAS[] = {0, 1, 2, 0x7f, 0x80, 0xff, 0x100, 0x7fff, 0x8000, 0xffff, 0x10000, 0x3fffff, 0x400000, 0x7ffffe, 0x7fffff, 0x00ffff, 0x0377ae, 0x123456};
constexpr size_t N_MANT = sizeof(MANTISSAS) / sizeof(MANTISSAS[0]);

} // namespace

VH_CMD(chainnav)
{
    const int max_blocks = static_cast<int>(args.geti("max_blocks", 5000));
    for (uint64_t c = args.from; c < args.to; ++c) {
        vh::set_case(c);
        vh::Rng rng(args.seed, c);
        int n;
        switch (rng.below(5)) {
        case 0: case 1: n = static_cast<int>(2 + rng.below(60)); break;
        case 2: case 3: n = static_cast<int>(60 + rng.below(540)); break;
        default: n = static_cast<int>(600 + rng.below(std::max(1, max_blocks - 600)));
        }
        if (c < 4) n = static_cast<int>(1 + c); // degenerate trees: 1..4 blocks
        Tree t;
        // shape: probability of extending one of a few live tips (long chains) versus forking off any earlier block
        const uint32_t ext = static_cast<uint32_t>(50 + rng.below(50));
        std::vector<int> tips;
        t.add(-1, TreeBits(rng));
        tips.push_back(0);
        for (int i = 1; i < n; ++i) {
            int par;
            if (rng.chance(ext, 100)) {
                const size_t k = rng.chance(3, 4) ? 0 : rng.below(tips.size()); // tips[0] is the main line: trees get thousands of blocks tall
                par = tips[k];
                tips[k] = i;
                t.add(par, TreeBits(rng));
            } else {
                par = rng.chance(1, 2) ? static_cast<int>(rng.below(i)) : std::max(0, i - 1 - static_cast<int>(rng.below(30)));
                t.add(par, TreeBits(rng));
                if (tips.size() < 5) tips.push_back(i); else tips[1 + rng.below(tips.size() - 1)] = i;
            }
        }
        auto blk = [&](int i) -> CBlockIndex* { return t.blocks[i].get(); };
        auto pick = [&]() { return static_cast<int>(rng.below(n)); };
        int deepest = 0;
        for (int i = 0; i < n; ++i)
            if (blk(i)->nHeight > blk(deepest)->nHeight) deepest = i;

        // in-harness exhaustive naive check for small/medium trees: every block x every height
        if (n <= 600) {
            uint64_t bad = 0;
            for (int i = 0; i < n; ++i) {
                int w = i;
                for (int h = blk(i)->nHeight; h >= 0; --h) {
                    if (blk(i)->GetAncestor(h) != blk(w) && bad++ < 3)
                        vh::log().violation("ancestor-mismatch", "GetAncestor differs from the parent walk", vh::J().i("block", i).i("height", h).i("got", t.idx(blk(i)->GetAncestor(h))).i("want", w));
                    w = t.parent[w];
                }
            }
        }

        std::string out = "{\"case\":" + std::to_string(c) + ",\"n\":" + std::to_string(n) + ",\"par\":[";
        for (int i = 0; i < n; ++i) out += (i ? "," : "") + std::to_string(t.parent[i]);
        out += "],\"bits\":[";
        for (int i = 0; i < n; ++i) out += (i ? "," : "") + std::to_string(t.blocks[i]->nBits);
        out += "]";

        // ---- GetAncestor: all heights for a few blocks, then random (block, height) pairs incl. out-of-range heights ----
        out += ",\"anc_all\":[";
        for (int s = 0; s < 4; ++s) {
            const int b = s == 0 ? deepest : pick();
            out += (s ? ",[" : "[") + std::to_string(b) + ",[";
            for (int h = 0; h <= blk(b)->nHeight; ++h) out += (h ? "," : "") + std::to_string(t.idx(blk(b)->GetAncestor(h)));
            out += "]]";
        }
        out += "],\"anc\":[";
        const int nq = std::min(1500, 20 * n);
        for (int q = 0; q < nq; ++q) {
            const int b = pick();
            int h;
            switch (rng.below(8)) {
            case 0: h = blk(b)->nHeight + 1 + static_cast<int>(rng.below(3)); break;
            case 1: h = -1 - static_cast<int>(rng.below(3)); break;
            case 2: h = blk(b)->nHeight; break;
            case 3: h = 0; break;
            case 4: h = std::max(0, blk(b)->nHeight - static_cast<int>(rng.below(4))); break;
            default: h = static_cast<int>(rng.below(blk(b)->nHeight + 1));
            }
            const CBlockIndex* r = static_cast<const CBlockIndex*>(blk(b))->GetAncestor(h);
            CBlockIndex* r2 = blk(b)->GetAncestor(h); // non-const overload
            if (r != r2) vh::log().violation("ancestor-overloads-differ", "const and non-const GetAncestor disagree", vh::J().i("block", b).i("height", h));
            out += (q ? ",[" : "[") + std::to_string(b) + "," + std::to_string(h) + "," + std::to_string(t.idx(r)) + "]";
        }
        out += "]";

        // ---- LastCommonAncestor ----
        out += ",\"lca\":[";
        const int nl = std::min(300, 10 * n);
        for (int q = 0; q < nl; ++q) {
            int a = pick(), b = pick();
            if (rng.chance(1, 10)) b = a;
            if (rng.chance(1, 10)) b = t.idx(blk(a)->GetAncestor(static_cast<int>(rng.below(blk(a)->nHeight + 1)))); // b is an ancestor of a
            const CBlockIndex* r = LastCommonAncestor(blk(a), blk(b));
            out += (q ? ",[" : "[") + std::to_string(a) + "," + std::to_string(b) + "," + std::to_string(t.idx(r)) + "]";
        }
        out += "]";

        // ---- CChain ----
        out += ",\"chain\":[";
        {
            CChain chain;
            // empty chain
            const bool empty_ok = chain.Height() == -1 && chain.Tip() == nullptr && chain.Genesis() == nullptr && chain[0] == nullptr && !chain.Contains(*blk(0)) &&
                                  chain.Next(*blk(0)) == nullptr && chain.FindFork(*blk(pick())) == nullptr;
            if (!empty_ok) vh::log().violation("empty-chain", "an empty CChain does not answer like an empty chain", vh::J().i("n", n));
            const int rounds = 4;
            for (int r = 0; r < rounds; ++r) {
                int tip;
                switch (r) {
                case 0: tip = deepest; break;
                case 1: tip = pick(); break;                                                                   // reorg to an arbitrary block
                case 2: tip = t.idx(chain.Tip()->GetAncestor(static_cast<int>(rng.below(chain.Tip()->nHeight + 1)))); break; // shrink to an ancestor
                default: tip = tips[rng.below(tips.size())];
                }
                chain.SetTip(*blk(tip));
                out += (r ? ",{" : "{");
                out += "\"tip\":" + std::to_string(tip) + ",\"height\":" + std::to_string(chain.Height()) + ",\"gettip\":" + std::to_string(t.idx(chain.Tip())) + ",\"genesis\":" + std::to_string(t.idx(chain.Genesis())) + ",\"q\":[";
                const int nqc = std::min(200, 10 * n);
                for (int q = 0; q < nqc; ++q) {
                    const int b = rng.chance(1, 4) ? t.idx(chain[static_cast<int>(rng.below(chain.Height() + 1))]) : pick();
                    out += (q ? ",[" : "[") + std::to_string(b) + "," + std::to_string(t.idx(chain.FindFork(*blk(b)))) + "," + (chain.Contains(*blk(b)) ? "1" : "0") + "," + std::to_string(t.idx(chain.Next(*blk(b)))) + "]";
                }
                out += "],\"at\":[";
                for (int q = 0; q < 40; ++q) {
                    int h;
                    switch (rng.below(5)) {
                    case 0: h = chain.Height(); break;
                    case 1: h = chain.Height() + 1 + static_cast<int>(rng.below(2)); break;
                    case 2: h = -1 - static_cast<int>(rng.below(2)); break;
                    default: h = static_cast<int>(rng.below(chain.Height() + 1));
                    }
                    out += (q ? ",[" : "[") + std::to_string(h) + "," + std::to_string(t.idx(chain[h])) + "]";
                }
                out += "]}";
            }
        }
        out += "]";

        // ---- locators ----
        out += ",\"loc\":[";
        for (int q = 0; q < 12; ++q) {
            const int b = q == 0 ? deepest : q == 1 ? 0 : pick();
            const std::vector<uint256> have = LocatorEntries(blk(b));
            const CBlockLocator loc = GetLocator(blk(b));
            if (loc.vHave != have) vh::log().violation("getlocator-differs", "GetLocator and LocatorEntries disagree", vh::J().i("block", b));
            out += (q ? ",[" : "[") + std::to_string(b) + ",[";
            for (size_t i = 0; i < have.size(); ++i) out += (i ? "," : "") + std::to_string(t.idx_of_hash(have[i]));
            out += "]]";
        }
        if (!LocatorEntries(nullptr).empty() || !GetLocator(nullptr).vHave.empty()) vh::log().violation("null-locator", "locator of nullptr is not empty", vh::J().i("n", n));
        out += "]";

        // ---- chainwork of a sample of blocks ----
        out += ",\"work\":[";
        for (int q = 0; q < 10; ++q) {
            const int b = q == 0 ? deepest : q == 1 ? 0 : pick();
            out += (q ? ",[" : "[") + std::to_string(b) + ",\"" + HexArith(blk(b)->nChainWork) + "\"]";
        }
        out += "]}";
        vh::log().line(out);
    }
    return 0;
}

// case c = batch of 256 nBits (cases 0..35: exponent x mantissa x sign table)
VH_CMD(blockproof)
{
    for (uint64_t c = args.from; c < args.to; ++c) {
        vh::set_case(c);
        vh::Rng rng(args.seed, c);
        std::string out = "{\"case\":" + std::to_string(c) + ",\"proof\":[";
        for (uint64_t i = 0; i < 256; ++i) {
            const uint64_t row = c * 256 + i;
            uint32_t nbits;
            if (row < 256 * N_MANT * 2) {
                nbits = (static_cast<uint32_t>(row / (N_MANT * 2)) << 24) | ((row & 1) ? 0x800000u : 0) | MANTISSAS[(row % (N_MANT * 2)) / 2];
            } else {
                switch (rng.below(4)) {
                case 0: nbits = static_cast<uint32_t>(rng.next()); break;
                case 1: nbits = (static_cast<uint32_t>(rng.below(36)) << 24) | static_cast<uint32_t>(rng.below(1u << 23)); break;
                case 2: nbits = (static_cast<uint32_t>(rng.below(36)) << 24) | MANTISSAS[rng.below(N_MANT)]; break;
                default: nbits = (static_cast<uint32_t>(rng.below(256)) << 24) | static_cast<uint32_t>(rng.below(1u << 24));
                }
            }
            const arith_uint256 p = GetBitsProof(nbits);
            CBlockIndex bi;
            bi.nBits = nbits;
            CBlockHeader hd;
            hd.nBits = nbits;
            if (GetBlockProof(bi) != p || GetBlockProof(hd) != p) vh::log().violation("blockproof-overloads-differ", "GetBlockProof(index/header) differs from GetBitsProof", vh::J().u("nbits", nbits));
            out += (i ? ",[" : "[") + std::to_string(nbits) + ",\"" + HexArith(p) + "\"]";
        }
        out += "]}";
        vh::log().line(out);
    }
    return 0;
}

// case c = one tree of random headers on top of the regtest genesis block, inserted through BlockManager::AddToBlockIndex
VH_CMD(chainwork_blockman)
{
    TestingSetup setup{ChainType::REGTEST}; // one node per process; every case adds its own, unique headers on top of genesis
    ChainstateManager& chainman = *setup.m_node.chainman;
    for (uint64_t c = args.from; c < args.to; ++c) {
        vh::set_case(c);
        vh::Rng rng(args.seed, c);
        LOCK(::cs_main);
        CBlockIndex* genesis = chainman.ActiveChain().Genesis();
        if (!genesis) throw std::runtime_error("no genesis in block index");
        const int n = static_cast<int>(2 + rng.below(400));
        std::vector<CBlockIndex*> blocks{genesis};
        std::vector<int> parent{-1};
        std::vector<uint32_t> bits{genesis->nBits}, times{genesis->nTime};
        const uint32_t ext = static_cast<uint32_t>(40 + rng.below(60));
        int last = 0;
        for (int i = 1; i < n; ++i) {
            const int par = rng.chance(ext, 100) ? last : static_cast<int>(rng.below(i));
            CBlockHeader h;
            h.nVersion = 0x20000000;
            h.hashPrevBlock = blocks[par]->GetBlockHash();
            rng.fill(h.hashMerkleRoot.begin(), 32);
            h.nTime = static_cast<uint32_t>(rng.next());
            switch (rng.below(8)) {
            case 0: h.nBits = 0x207fffff; break;
            case 1: h.nBits = 0x1d00ffff | 0x00800000; break;                                         // negative
            case 2: h.nBits = 0x23000001; break;                                                      // overflow
            case 3: h.nBits = static_cast<uint32_t>(6 + rng.below(27)) << 24; break;                  // zero
            default: h.nBits = (static_cast<uint32_t>(6 + rng.below(27)) << 24) | static_cast<uint32_t>(1 + rng.below(0x7fffff));
            }
            h.nNonce = static_cast<uint32_t>(c);
            CBlockIndex* idx = chainman.m_blockman.AddToBlockIndex(h, chainman.m_best_header);
            if (idx->GetBlockHash() != h.GetHash() || chainman.m_blockman.LookupBlockIndex(h.GetHash()) != idx)
                vh::log().violation("blockindex-lookup", "AddToBlockIndex result is not found under the header's hash", vh::J().i("i", i));
            // adding the same header again must return the same entry and change nothing
            const arith_uint256 w = idx->nChainWork;
            if (rng.chance(1, 8) && (chainman.m_blockman.AddToBlockIndex(h, chainman.m_best_header) != idx || idx->nChainWork != w))
                vh::log().violation("blockindex-readd", "re-adding a known header changed the index", vh::J().i("i", i));
            blocks.push_back(idx);
            parent.push_back(par);
            bits.push_back(h.nBits);
            times.push_back(h.nTime);
            last = i;
        }
        std::map<const CBlockIndex*, int> id;
        for (int i = 0; i < n; ++i) id[blocks[i]] = i;
        auto idx_of = [&](const CBlockIndex* p) { if (!p) return -1; auto it = id.find(p); return it == id.end() ? -2 : it->second; };
        std::string out = "{\"case\":" + std::to_string(c) + ",\"bm\":1,\"n\":" + std::to_string(n) + ",\"par\":[";
        for (int i = 0; i < n; ++i) out += (i ? "," : "") + std::to_string(parent[i]);
        out += "],\"bits\":[";
        for (int i = 0; i < n; ++i) out += (i ? "," : "") + std::to_string(bits[i]);
        out += "],\"blk\":[";
        for (int i = 0; i < n; ++i) {
            const CBlockIndex* b = blocks[i];
            out += (i ? ",[" : "[") + std::to_string(b->nHeight) + "," + std::to_string(idx_of(b->pprev)) + ",\"" + HexArith(b->nChainWork) + "\"]";
        }
        out += "],\"anc\":[";
        for (int q = 0; q < 300; ++q) {
            const int b = static_cast<int>(rng.below(n));
            const int h = static_cast<int>(rng.below(blocks[b]->nHeight + 1));
            out += (q ? ",[" : "[") + std::to_string(b) + "," + std::to_string(h) + "," + std::to_string(idx_of(blocks[b]->GetAncestor(h))) + "]";
        }
        out += "],\"lca\":[";
        for (int q = 0; q < 100; ++q) {
            const int a = static_cast<int>(rng.below(n)), b = static_cast<int>(rng.below(n));
            out += (q ? ",[" : "[") + std::to_string(a) + "," + std::to_string(b) + "," + std::to_string(idx_of(LastCommonAncestor(blocks[a], blocks[b]))) + "]";
        }
        out += "]}";
        vh::log().line(out);
    }
    return 0;
}
