// E8 `walletsim` engines:
//   wallet_balance (C44)  histories of receives / sends / double-spends / maturation / reorgs; after every step the wallet's balances and
//                         spendable-coin list are compared with the shadow ledger.
//   wallet_create  (C41)  random CreateTransaction requests on an evolving wallet; request, model coin facts, result and the node's
//                         test-accept verdict are logged for the offline oracle (checks/C41.py); a few invariants are also checked online.
//   wallet_bump    (C56)  fee bumps (feebumper::CreateRateBumpTransaction + SignTransaction + CommitTransaction) of wallet transactions,
//                         incl. refusal scenarios with before/after wallet dumps; logged for checks/C56.py.
#include <common/vh.h>
#include <sim_wallet.h>

#include <chain.h>
#include <consensus/validation.h>
#include <core_io.h>
#include <key_io.h>
#include <policy/policy.h>
#include <script/sign.h>
#include <script/signingprovider.h>
#include <script/solver.h>
#include <test/util/setup_common.h>
#include <txmempool.h>
#include <util/rbf.h>
#include <util/translation.h>
#include <wallet/coincontrol.h>
#include <wallet/feebumper.h>
#include <wallet/receive.h>
#include <wallet/spend.h>
#include <wallet/wallet.h>

#include <algorithm>
#include <map>
#include <set>
#include <string>
#include <vector>

namespace {
using namespace simw;
using wallet::CCoinControl;
using wallet::CRecipient;
using wallet::CWallet;

const OutputType OTYPES[4] = {OutputType::LEGACY, OutputType::P2SH_SEGWIT, OutputType::BECH32, OutputType::BECH32M};
const char* OTYPE_NAME[4] = {"legacy", "p2sh-segwit", "bech32", "bech32m"};
const char* FK_NAME[] = {"p2pkh", "p2sh", "p2wpkh", "p2wsh", "p2tr", "p2pk", "witunknown", "nonstandard"};

std::string JNum(int64_t v) { return std::to_string(v); }
std::string JOp(const COutPoint& op) { return vh::JStr(OutpointStr(op)); }
const char* ClassName(CoinClass c)
{
    switch (c) {
    case CoinClass::SPENT: return "spent";
    case CoinClass::IMMATURE: return "immature";
    case CoinClass::TRUSTED: return "trusted";
    case CoinClass::UNTRUSTED_PENDING: return "pending";
    }
    return "?";
}
const char* StatusName(TxStatus s)
{
    switch (s) {
    case TxStatus::UNKNOWN: return "unknown";
    case TxStatus::CHAIN: return "chain";
    case TxStatus::MEMPOOL: return "mempool";
    case TxStatus::CONFLICTED: return "conflicted";
    case TxStatus::LIMBO: return "limbo";
    }
    return "?";
}

//! State shared by the three workloads: the fixture plus what the generator remembers about it.
struct World {
    WalletSim sim;
    vh::Rng& rng;
    std::vector<CTxDestination> recv; //!< receive addresses handed out by the wallet
    std::vector<int> recv_type;
    explicit World(const Options& o, vh::Rng& r) : sim(o), rng(r) {}

    CTxDestination WalletDest(int* type_out = nullptr, uint32_t reuse_pct = 25)
    {
        if (!recv.empty() && rng.chance(reuse_pct, 100)) {
            const size_t i = rng.below(recv.size());
            if (type_out) *type_out = recv_type[i];
            return recv[i];
        }
        const int t = static_cast<int>(rng.below(4));
        CTxDestination d = sim.NewDest(OTYPES[t], rng.chance(1, 4) ? "lbl" + std::to_string(recv.size()) : "");
        recv.push_back(d);
        recv_type.push_back(t);
        if (type_out) *type_out = t;
        return d;
    }
    CScript WalletScript() { return GetScriptForDestination(WalletDest()); }

    //! faucet -> wallet payment with 1..3 wallet outputs (plus sometimes a foreign one); not submitted
    CTransactionRef MakeFaucetPay(CAmount lo, CAmount hi, bool confirmed_only = false)
    {
        std::vector<CTxOut> outs;
        const int n = 1 + static_cast<int>(rng.below(3));
        for (int i = 0; i < n; ++i) outs.emplace_back(rng.range(lo, hi), WalletScript());
        if (rng.chance(1, 5)) outs.emplace_back(rng.range(10000, 1000000), GetScriptForDestination(WalletSim::ForeignDest(rng, ForeignKind::P2WPKH)));
        rng.shuffle(outs);
        return sim.FaucetTx(outs, rng.range(2000, 30000), /*signal_rbf=*/rng.chance(3, 4), {}, confirmed_only);
    }
};

// =========================================================================================================================================
// C44
// =========================================================================================================================================

struct BalStats {
    int64_t compares{0}, reorgs{0}, max_reorg_depth{0}, conflicts_tip{0}, conflicts_branch{0}, maturations{0}, dematurations{0}, receives{0}, sends{0},
        ambiguous_steps{0}, unconfirm{0}, reconfirm{0}, mempool_conflicts{0}, flipbacks{0}, reorg_failed{0};
};

//! Compare the wallet's answers with the model. Returns false when a violation was recorded.
bool CompareWallet(World& w, uint64_t c, int step, const std::string& op, BalStats& st, std::map<COutPoint, CoinClass>& prev_cb_class)
{
    WalletSim& sim = w.sim;
    sim.Sync();
    const ShadowLedger& L = sim.Ledger();
    const Balances mb = L.GetBalances();
    const wallet::Balance wb = wallet::GetBalance(sim.W());
    std::map<COutPoint, CAmount> avail_w;
    {
        LOCK(sim.W().cs_wallet);
        CCoinControl cc;
        for (const auto& o : wallet::AvailableCoins(sim.W(), &cc).All()) avail_w[o.outpoint] = o.txout.nValue;
    }
    std::vector<std::string> missing, extra, wrong_amount;
    CAmount avail_m_sum = 0, avail_w_sum = 0;
    int64_t avail_m_n = 0, n_amb = 0;
    for (const auto& [op_, coin] : L.Coins()) {
        const CoinClass cls = L.Classify(coin);
        if (coin.coinbase && coin.height >= 0) {
            auto it = prev_cb_class.find(op_);
            if (it != prev_cb_class.end()) {
                if (it->second == CoinClass::IMMATURE && cls == CoinClass::TRUSTED) ++st.maturations;
                if (it->second == CoinClass::TRUSTED && cls == CoinClass::IMMATURE) ++st.dematurations;
            }
            prev_cb_class[op_] = cls;
        }
        const bool amb = L.Ambiguous(coin);
        if (amb) ++n_amb;
        const bool expect = cls == CoinClass::TRUSTED && !sim.Locked().count(op_);
        auto it = avail_w.find(op_);
        if (expect && !amb) {
            ++avail_m_n;
            avail_m_sum += coin.out.nValue;
            if (it == avail_w.end()) missing.push_back(JOp(op_));
            else if (it->second != coin.out.nValue) wrong_amount.push_back(JOp(op_));
        } else if (!(expect && amb)) {
            if (it != avail_w.end()) extra.push_back(JOp(op_));
        }
    }
    for (const auto& [op_, v] : avail_w) {
        avail_w_sum += v;
        if (!L.Find(op_)) extra.push_back(JOp(op_));
    }
    if (n_amb) ++st.ambiguous_steps;
    ++st.compares;
    vh::J j;
    j.u("case", c).i("step", step).str("op", op).i("tip", L.TipHeight())
        .raw("w", "[" + JNum(wb.m_mine_trusted) + "," + JNum(wb.m_mine_untrusted_pending) + "," + JNum(wb.m_mine_immature) + "]")
        .raw("m", "[" + JNum(mb.trusted) + "," + JNum(mb.untrusted_pending) + "," + JNum(mb.immature) + "]")
        .raw("amb", "[" + JNum(mb.amb_trusted) + "," + JNum(mb.amb_untrusted_pending) + "," + JNum(mb.amb_immature) + "]")
        .i("avail_w", avail_w.size()).i("avail_w_sum", avail_w_sum).i("avail_m", avail_m_n).i("avail_m_sum", avail_m_sum)
        .raw("missing", vh::JArr(missing)).raw("extra", vh::JArr(extra)).raw("wrong_amount", vh::JArr(wrong_amount))
        .i("ncoins", L.Coins().size()).i("pool", L.MempoolTxs().size()).i("locked", sim.Locked().size());
    vh::log().rec(j);
    bool ok = true;
    auto within = [](CAmount x, CAmount lo, CAmount amb) { return x >= lo && x <= lo + amb; };
    if (!within(wb.m_mine_trusted, mb.trusted, mb.amb_trusted)) {
        vh::log().violation("balance-trusted-mismatch", "GetBalance().m_mine_trusted differs from the model", vh::J().i("step", step).str("op", op).i("wallet", wb.m_mine_trusted).i("model", mb.trusted).i("ambiguous", mb.amb_trusted));
        ok = false;
    }
    if (!within(wb.m_mine_untrusted_pending, mb.untrusted_pending, mb.amb_untrusted_pending)) {
        vh::log().violation("balance-pending-mismatch", "GetBalance().m_mine_untrusted_pending differs from the model", vh::J().i("step", step).str("op", op).i("wallet", wb.m_mine_untrusted_pending).i("model", mb.untrusted_pending).i("ambiguous", mb.amb_untrusted_pending));
        ok = false;
    }
    if (!within(wb.m_mine_immature, mb.immature, mb.amb_immature)) {
        vh::log().violation("balance-immature-mismatch", "GetBalance().m_mine_immature differs from the model", vh::J().i("step", step).str("op", op).i("wallet", wb.m_mine_immature).i("model", mb.immature).i("ambiguous", mb.amb_immature));
        ok = false;
    }
    if (!missing.empty() || !extra.empty() || !wrong_amount.empty()) {
        vh::log().violation(!missing.empty() ? "available-coin-missing" : (!extra.empty() ? "available-coin-extra" : "available-coin-amount"),
                            "AvailableCoins differs from the model's spendable set",
                            vh::J().i("step", step).str("op", op).raw("missing", vh::JArr(missing)).raw("extra", vh::JArr(extra)).raw("wrong_amount", vh::JArr(wrong_amount)));
        ok = false;
    }
    return ok;
}

//! A wallet-made transaction spending exactly `op` (a double-spend of whatever wallet transaction spends it). Not committed.
CTransactionRef WalletDoubleSpend(World& w, const COutPoint& op, CAmount value, int64_t feerate_kvb)
{
    if (value < 20000) return nullptr;
    CCoinControl cc;
    cc.Select(op);
    cc.m_allow_other_inputs = false;
    cc.m_feerate = CFeeRate(feerate_kvb);
    cc.fOverrideFeeRate = true;
    std::vector<CRecipient> rec;
    const bool sffo = w.rng.chance(1, 3);
    rec.push_back({WalletSim::ForeignDest(w.rng, ForeignKind::P2WPKH), sffo ? value : value * static_cast<CAmount>(w.rng.range(20, 60)) / 100, sffo});
    std::string err;
    auto r = w.sim.Create(rec, std::nullopt, cc, true, &err);
    if (!r) {
        vh::log().obs("c44_doublespend_create_failed");
        return nullptr;
    }
    return r->tx;
}

void RunBalanceHistory(uint64_t c, vh::Rng& rng, int steps)
{
    Options o;
    o.keypool = 30;
    World w(o, rng);
    WalletSim& sim = w.sim;
    BalStats st;
    std::map<COutPoint, CoinClass> prev_cb;
    std::string opseq;
    bool bad = false;
    auto compare = [&](int step, const std::string& op) {
        if (!CompareWallet(w, c, step, op, st, prev_cb)) bad = true;
    };
    sim.Sync();
    // ---- prelude: wallet coinbases at scattered heights, a few confirmed receives, then blocks until the first coinbase is about to mature
    const int n_cb = static_cast<int>(rng.range(2, 5));
    int first_cb_height = -1;
    for (int i = 0; i < n_cb; ++i) {
        std::vector<CTransactionRef> txs;
        if (rng.chance(1, 2)) {
            if (auto t = w.MakeFaucetPay(100000, 3 * COIN, true)) {
                txs.push_back(t);
                ++st.receives;
            }
        }
        sim.MineOn(nullptr, txs, w.WalletScript());
        if (first_cb_height < 0) first_cb_height = sim.TipHeight();
        sim.Sync();
        const int gap = static_cast<int>(rng.range(0, 12));
        sim.MineEmpty(gap);
        sim.Sync();
    }
    compare(-2, "prelude");
    {
        // wallet-mature at depth 101 <=> tip = h + 100
        const int target = first_cb_height + 100 - static_cast<int>(rng.range(1, 6));
        while (sim.TipHeight() < target) sim.MineEmpty(1);
    }
    compare(-1, "bulk");
    struct ReorgRec {
        uint256 old_first, new_first;
        int fork{0};
    };
    std::optional<ReorgRec> last_reorg;
    bool branch_invalidated = false;
    const std::vector<uint32_t> weights{14, 6, 22, 14, 8, 8, 11, 7, 4, 3, 5};
    const char* OPN[] = {"recv_pool", "recv_block", "send", "mine", "mine_empty", "dspend_tip", "reorg", "flip", "lock", "spend_cb100", "rbf_self"};
    for (int step = 0; step < steps && !bad; ++step) {
        const size_t op = rng.weighted(weights);
        std::string tag = OPN[op];
        const ShadowLedger& L = sim.Ledger();
        switch (op) {
        case 0: { // faucet pays the wallet through the mempool
            if (auto t = w.MakeFaucetPay(50000, 2 * COIN)) {
                auto a = sim.Submit(t);
                if (a.ok) ++st.receives; else tag += ":rej";
            }
            break;
        }
        case 1: { // faucet pays the wallet directly in a block
            if (auto t = w.MakeFaucetPay(50000, 2 * COIN, true)) {
                sim.MineOn(nullptr, {t}, WalletSim::BurnScript());
                ++st.receives;
            }
            break;
        }
        case 2: { // wallet sends
            const Balances b = L.GetBalances();
            CAmount avail = b.trusted;
            CCoinControl cc;
            cc.m_include_unsafe_inputs = rng.chance(1, 5);
            if (cc.m_include_unsafe_inputs) avail += b.untrusted_pending;
            if (avail < 50000) {
                tag += ":poor";
                break;
            }
            cc.m_feerate = CFeeRate(rng.range(1000, 40000));
            std::vector<CRecipient> rec;
            const int n = 1 + static_cast<int>(rng.below(3));
            const bool big = rng.chance(1, 8);
            for (int i = 0; i < n; ++i) {
                const bool self = rng.chance(1, 4);
                CTxDestination d = self ? w.WalletDest() : WalletSim::ForeignDest(rng, static_cast<ForeignKind>(rng.below(6)));
                CAmount amt = big ? avail / n : rng.range(10000, std::max<CAmount>(20000, avail / (4 * n)));
                rec.push_back({d, amt, big && i == 0});
            }
            std::string err;
            auto r = sim.Create(rec, std::nullopt, cc, true, &err);
            if (r) {
                sim.Commit(r->tx);
                ++st.sends;
            } else {
                tag += ":fail";
            }
            break;
        }
        case 3: { // mine the mempool
            sim.MineMempool(rng.chance(3, 10) ? w.WalletScript() : WalletSim::BurnScript());
            break;
        }
        case 4: {
            sim.MineEmpty(static_cast<int>(rng.range(1, 3)));
            break;
        }
        case 5:   // double-spend of an in-mempool transaction, confirmed directly on the tip
        case 10: { // ... or submitted to the mempool as a replacement (wallet transactions only)
            std::vector<CTransactionRef> cands;
            for (const auto& t : L.MempoolTxs()) {
                if (L.Status(t->GetHash()) == TxStatus::MEMPOOL) cands.push_back(t);
            }
            if (cands.empty()) {
                tag += ":none";
                break;
            }
            const CTransactionRef victim = cands[rng.below(cands.size())];
            CTransactionRef ds;
            const COutPoint in0 = victim->vin[rng.below(victim->vin.size())].prevout;
            if (const SCoin* fc = sim.FaucetLedger().Find(in0)) {
                if (op == 10) {
                    tag += ":faucet";
                    break;
                }
                std::vector<CTxOut> outs;
                outs.emplace_back(rng.range(50000, COIN), rng.chance(1, 2) ? w.WalletScript() : GetScriptForDestination(WalletSim::ForeignDest(rng, ForeignKind::P2WPKH)));
                ds = sim.FaucetTx(outs, rng.range(3000, 20000), true, {fc->op}, true);
            } else if (const SCoin* wc = L.Find(in0)) {
                ds = WalletDoubleSpend(w, wc->op, wc->out.nValue, op == 10 ? rng.range(60000, 200000) : rng.range(1000, 30000));
            }
            if (!ds) {
                tag += ":nods";
                break;
            }
            if (op == 5) {
                sim.MineOn(nullptr, {ds}, WalletSim::BurnScript());
                sim.Sync();
                if (sim.Ledger().Status(victim->GetHash()) == TxStatus::CONFLICTED) ++st.conflicts_tip;
            } else {
                auto a = sim.Submit(ds);
                if (a.ok) ++st.mempool_conflicts; else tag += ":rej";
            }
            break;
        }
        case 6: { // reorg onto a competing branch
            const int tip = L.TipHeight();
            const int d = static_cast<int>(rng.range(1, 5));
            const int fork = tip - d;
            if (fork < 101) break;
            std::vector<CTransactionRef> keep;
            std::set<Txid> dropped; // omitted or replaced by a conflicting transaction
            int n_conf = 0, n_keep = 0, n_omit = 0;
            for (int h = fork + 1; h <= tip; ++h) {
                const auto& vtx = L.BlockTxs(h);
                for (size_t i = 1; i < vtx.size(); ++i) {
                    const CTransactionRef& t = vtx[i];
                    bool dep = false;
                    for (const auto& in : t->vin) {
                        if (dropped.count(in.prevout.hash)) dep = true;
                        // inputs created by coinbases of the disconnected blocks do not exist on the new branch
                        for (int hh = fork + 1; hh <= tip; ++hh) {
                            if (L.BlockTxs(hh)[0]->GetHash() == in.prevout.hash) dep = true;
                        }
                    }
                    const uint64_t choice = rng.below(100);
                    if (dep || choice < 25) {
                        dropped.insert(t->GetHash());
                        ++n_omit;
                        continue;
                    }
                    if (choice < 50 && L.Status(t->GetHash()) == TxStatus::CHAIN) {
                        // conflict: same first-eligible input, different transaction
                        CTransactionRef ds;
                        for (const auto& in : t->vin) {
                            if (const SCoin* fc = sim.FaucetLedger().Find(in.prevout)) {
                                if (fc->height >= 0 && fc->height <= fork && (!fc->coinbase || fork + 1 - fc->height >= COINBASE_MATURITY)) {
                                    std::vector<CTxOut> outs;
                                    outs.emplace_back(rng.range(50000, COIN), rng.chance(1, 2) ? w.WalletScript() : GetScriptForDestination(WalletSim::ForeignDest(rng, ForeignKind::P2WPKH)));
                                    // only this coin: other faucet coins might not exist below the fork
                                    if (fc->out.nValue > outs[0].nValue + 50000) {
                                        CMutableTransaction m;
                                        m.version = 2;
                                        m.vin.emplace_back(fc->op, CScript{}, MAX_BIP125_RBF_SEQUENCE);
                                        m.vout = outs;
                                        m.vout.emplace_back(fc->out.nValue - outs[0].nValue - rng.range(3000, 20000), sim.FaucetScript());
                                        sim.FaucetSign(m, {{fc->op, fc->out}});
                                        ds = MakeTransactionRef(std::move(m));
                                    }
                                    break;
                                }
                            } else if (const SCoin* wc = L.Find(in.prevout)) {
                                if (wc->height >= 0 && wc->height <= fork && (!wc->coinbase || fork + 1 - wc->height >= COINBASE_MATURITY)) {
                                    ds = WalletDoubleSpend(w, wc->op, wc->out.nValue, rng.range(1000, 30000));
                                    break;
                                }
                            }
                        }
                        if (ds) {
                            dropped.insert(t->GetHash());
                            keep.push_back(ds);
                            ++n_conf;
                            continue;
                        }
                    }
                    keep.push_back(t);
                    ++n_keep;
                }
            }
            uint256 parent = L.BlockHash(fork);
            const uint256 old_first = L.BlockHash(fork + 1);
            uint256 new_first;
            for (int i = 0; i < d + 1; ++i) {
                std::vector<CTransactionRef> txs;
                if (i == 0) txs = keep;
                const uint256 h = sim.MineOn(&parent, txs, rng.chance(1, 4) ? w.WalletScript() : WalletSim::BurnScript());
                if (i == 0) new_first = h;
                parent = h;
            }
            sim.Sync();
            if (sim.TipHash() == parent) {
                ++st.reorgs;
                st.max_reorg_depth = std::max<int64_t>(st.max_reorg_depth, d);
                st.conflicts_branch += n_conf;
                st.reconfirm += n_keep;
                st.unconfirm += n_omit;
                last_reorg = ReorgRec{old_first, new_first, fork};
                branch_invalidated = false;
                tag += ":d" + std::to_string(d) + ":c" + std::to_string(n_conf);
            } else {
                ++st.reorg_failed;
                tag += ":failed";
            }
            break;
        }
        case 7: { // flip between the two branches of the last reorg
            if (!last_reorg) break;
            const int depth = L.TipHeight() - last_reorg->fork;
            if (depth > 5) {
                last_reorg.reset();
                break;
            }
            if (!branch_invalidated) {
                if (!sim.OnActiveChain(last_reorg->new_first)) break;
                if (sim.Invalidate(last_reorg->new_first)) {
                    branch_invalidated = true;
                    ++st.flipbacks;
                    ++st.reorgs;
                    st.max_reorg_depth = std::max<int64_t>(st.max_reorg_depth, depth);
                    tag += ":back:d" + std::to_string(depth);
                }
            } else {
                sim.Reconsider(last_reorg->new_first);
                branch_invalidated = false;
                sim.Sync();
                if (sim.OnActiveChain(last_reorg->new_first)) {
                    ++st.flipbacks;
                    ++st.reorgs;
                    tag += ":again";
                }
            }
            break;
        }
        case 8: { // lock / unlock
            if (!sim.Locked().empty() && rng.chance(1, 2)) {
                auto it = sim.Locked().begin();
                std::advance(it, rng.below(sim.Locked().size()));
                sim.Unlock(*it);
                tag += ":unlock";
            } else {
                std::vector<COutPoint> cands;
                for (const auto& [op_, coin] : L.Coins()) {
                    if (coin.Unspent()) cands.push_back(op_);
                }
                if (!cands.empty()) sim.Lock(cands[rng.below(cands.size())], rng.chance(1, 3));
            }
            break;
        }
        case 9: { // a coinbase output at depth exactly 100 is spendable by consensus though the wallet calls it immature: spend it as a preset input
            const SCoin* pick = nullptr;
            for (const auto& [op_, coin] : L.Coins()) {
                if (coin.coinbase && coin.Unspent() && L.Depth(coin) == COINBASE_MATURITY) pick = &coin;
            }
            if (!pick) {
                tag += ":none";
                break;
            }
            if (auto t = WalletDoubleSpend(w, pick->op, pick->out.nValue, rng.range(1000, 20000))) {
                auto a = sim.Submit(t);
                tag += a.ok ? ":ok" : ":rej";
                if (a.ok) vh::log().obs("c44_spend_at_depth_100");
            }
            break;
        }
        }
        opseq += tag + ";";
        compare(step, tag);
    }
    vh::J j;
    const bool nt = st.conflicts_branch > 0 && st.reorgs > 0 && st.maturations > 0;
    j.u("case", c).b("hist", true).b("nt", nt).str("sig", opseq.substr(0, 4000)).i("compares", st.compares).i("reorgs", st.reorgs).i("max_depth", st.max_reorg_depth)
        .i("conflicts_branch", st.conflicts_branch).i("conflicts_tip", st.conflicts_tip).i("maturations", st.maturations).i("dematurations", st.dematurations)
        .i("receives", st.receives).i("sends", st.sends).i("ambiguous_steps", st.ambiguous_steps).i("unconfirm", st.unconfirm).i("reconfirm", st.reconfirm)
        .i("mempool_conflicts", st.mempool_conflicts).i("flipbacks", st.flipbacks).i("reorg_failed", st.reorg_failed).i("final_tip", sim.TipHeight());
    vh::log().rec(j);
}

} // namespace

VH_CMD(wallet_balance)
{
    const int steps = static_cast<int>(args.geti("steps", 150));
    for (uint64_t c = args.from; c < args.to; ++c) {
        vh::set_case(c);
        vh::Rng rng(args.seed, c);
        RunBalanceHistory(c, rng, steps);
    }
    return 0;
}
